NOT_APPLICABLE = {}

add("C01", "exploration",
    "differential runtime monitor: real handshake + commands against an independent simulated BMC (key equality, strict per-packet verification)",
    "Every explored handshake configuration (suite x credentials x KG x privilege x lookup x BMC randoms) is executed for real against an independently written BMC; SIK/K1/K2 and IDs are compared byte for byte and follow-up commands must pass the BMC's own integrity check and decryption. Sampled + strided grid, so 'held on what was generated'. Also through the version-agnostic NewSession entry point, with commands addressed to LUNs 1..3 and request sizes that jump, several handshakes on one connection with credentials overwritten in place, and handshake replies damaged in transit.",
    "Trusted base: refbmc's reading of IPMI v2.0 13.28-13.32; Go crypto; the in-memory transport hook (also run hook-free over loopback UDP).",
    "DESIGN.md 5/C01")

add("C05", "fault_enumeration",
    "panic/over-read sanitizer: recover() on exact-capacity slices + poisoned-tail differential on every decoder; hostile-reply substitution at every transmission of live flows over the hooked transport",
    "Ring 1 enumerates every truncation and single-byte boundary mutation of valid encodings of all 29 decodable layers (plus fills, PRNG, registered gopacket chains, string decoders, every AES pad count); ring 2 enumerates a derived hostile corpus at every reply position of eight call flows, including authentic packets around hostile plaintexts. Any panic, hang or dependence on bytes beyond the datagram is a violation. Replies claiming to be authenticated with a complete trailer at every position; thorough tier additionally runs Go's coverage-guided fuzzer (go test -fuzz, fixed execution counts) over the same oracles for the layer decoders, the registered packet decoders, the ID-string decoders and cipher-suite record data.",
    "Go bounds checks are the memory-safety oracle (pure Go, no unsafe); inputs outside the enumerated/mutated families are sampled only. Run twice: as the native build and as a linux/386 build (32-bit int).",
    "DESIGN.md 5/C05, 3.4")

add("C08", "exploration",
    "round-trip monitor: serialise (fresh and reused buffer) -> decode -> field compare -> re-serialise, AES checked by independent crypto/cipher decryption",
    "Sampled values of the five two-way layers over their wire domains with payload lengths cycling through 0..200; equality of fields, inner payload, re-serialised bytes and (for AES) independently decrypted plaintext.",
    "Values restricted to the wire domain; held on what was generated. Run twice: native and linux/386 build.",
    "DESIGN.md 5/C08")

add("C20", "exploration",
    "exhaustive differential against arithmetic definitions through the exported API",
    "Every finite domain named by the property is enumerated completely (exhaustive: true) and compared with a directly written definition. A concurrent pass (16 goroutines converting at once) and decoding into long-lived record layers.",
    "BCD only defined for digits 0..9; period encoder definition as documented by the library. Run twice: native and linux/386 build.",
    "DESIGN.md 5/C20")

add("C12", "exploration",
    "reference-model monitor over the simulated BMC's request log (discovery use, proposal) + response mutator on the Open Session Response",
    "Selection is enumerated exhaustively for all ordered preference lists of length 0..3 over a 6-suite universe against all 64 advertised subsets and compared with a small model; adverts of up to 900 bytes, duplicates, zero-length and faulty discovery replies, repeated handshakes on one connection; the answer side rewrites the algorithm triple (all values per axis, PRNG triples; thorough: all 64^3 for three proposals) and requires an error unless it equals the proposal. BMCs that refuse the Open Session Request for a suite they advertise (one proposal, then an error).",
    "Trusted base: refbmc's cipher suite record encoding (table 22-19) and handshake.",
    "DESIGN.md 5/C12")

add("C02", "fault_enumeration",
    "single-fault transcript mutator between the simulated BMC and the real handshake; oracle = (nil, error) and the named sentinel error",
    "Exhaustive per authentication algorithm over every bit of the authenticated RAKP 2 fields, the BMC session ID (with a man in the middle), the RAKP 4 ICV, every status and wrong tag in the three replies and every truncation, on fresh and on previously used connections, plus wrong password and nine kinds of KG mismatch incl. every single-bit difference.",
    "Trusted base: refbmc handshake; replies delivered as the production transport would (window into a reused buffer).",
    "DESIGN.md 5/C02")

add("C03", "exploration",
    "online wire monitor in the simulated BMC: per-datagram verification of header, integrity trailer, AuthCode, AES-CBC framing, checksums and decrypted command against independent request tables; global IV-uniqueness set",
    "All nine suites; every opaque body length 0..200 in the three NetFn classes in ascending and shuffled order; mixed histories of all library commands with retransmissions, lost replies that take the real per-attempt timeout and interleaved session-less commands; fresh and long-lived connections; also over loopback UDP; an entropy-source failure injected in a child process (nothing encrypted may be transmitted afterwards). A third of the sessions use two-key login (K_G).",
    "Trusted base: refbmc/refcodec reading of IPMI v2.0 13.28-13.29 and the request tables. Sampled field values.",
    "DESIGN.md 5/C03")

add("C04", "fault_enumeration",
    "forgery catalogue and exhaustive bit-flip/truncation injection on authentic replies, with and without the session keys; oracle = error or authentic value after the authentic datagram",
    "Every catalogue item (incl. ten wrong session IDs) x nine suites x three commands in two delivery modes; every completion code on seven unsigned/misaddressed forgery kinds; every single-bit flip (thorough) and every truncation of the authentic reply. Forgeries are also delivered after an authentic Node Busy with the caller's context ending, after a failed Close, for Close Session itself, and when the BMC itself stays silent.",
    "Forged packets carry a different body so acceptance is visible; RMCP header bits are outside the authenticated range.",
    "DESIGN.md 5/C04")

add("C09", "fault_enumeration",
    "sequence monitor over datagrams recorded at the transport boundary, in transmission order, under scripted per-attempt outcomes",
    "Exhaustive outcome sequences for histories of 1..3 commands to the stated depths plus long random histories with session-less commands, unserialisable requests, calls with a finished context, give-ups and new handshakes; monitor: SID and sequence == transmission index, session counter == datagrams transmitted.",
    "Scripted BMC; zero back-off through the hook.",
    "DESIGN.md 5/C09")

add("C10", "fault_enumeration",
    "executable reference model of the documented retry contract compared with transmissions counted at the transport and BMC-verified retransmission content",
    "Every outcome sequence retry^k.terminal (k<=4 session-less, <=3 in-session; thorough 6/5) over busy, timeout code, six kinds of undecodable reply, lost reply and refused connection for 10 commands; every completion code; context cancellation at every step; retry sequences on each handshake payload; recorded attempt deadlines must advance after a lost reply.",
    "Model assumptions are listed in the evidence; back-off timing not asserted.",
    "DESIGN.md 5/C10")

add("C11", "fault_enumeration",
    "stray-reply injection (authentic in session) for all ordered command pairs and patterns; oracle = error or own value, follow-up commands re-synchronise; real socket-queue duplicates over UDP",
    "All ordered pairs of 10 commands x 5 patterns x {session-less, in-session}, plus UDP histories with real duplicated datagrams. A third of the cases use the library's own command types (field-wise comparison); strays followed by a bare error completion code.",
    "Same-command duplicates cannot be distinguished under the statement; the UDP queue-off-by-one consequence is an open known finding.",
    "DESIGN.md 5/C11")

add("C06", "exploration",
    "independent parse of every transmitted datagram (refbmc wrapper/message parser + refcodec request tables) compared field by field with the caller's values",
    "Small field domains enumerated completely (65536 cipher-suite requests, 512 auth-capability requests, 1024 sensor requests, ...), wide fields sampled, each outside and inside a session; handshakes for every privilege x lookup mode x username length 0..40. Also: a fresh connection per first-large-request size, session-less commands interleaved with in-session ones on one connection, several handshakes with different preference lists, none algorithms, Chassis Control through the session method.",
    "Callers' values restricted to the wire domain. Trusted base: refcodec request tables.",
    "DESIGN.md 5/C06")

add("C07", "exploration",
    "differential: independent value->bytes encoders (refcodec) vs library decoders, reflect-based comparison of every exported field; rejection oracle on checksums, lengths and short bodies; same values through the high-level API",
    "Random value assignments per layer over the wire domain, exhaustive sweeps of the 10-bit/4-bit Full Sensor Record fields and of ID strings (all encodings, lengths 0..31), every wrong checksum value, every short prefix.",
    "refcodec follows the library's documented interpretation where the specification is under-determined; sampled elsewhere. Run twice: native and linux/386 build.",
    "DESIGN.md 5/C07")

add("C14", "exploration",
    "versioned stateful repository device + existential snapshot oracle over the request log (one version, one reservation) with fault injection before every Get SDR",
    "Generated repositories walked through a real session; every injection point of the walk for seven fault kinds; result compared with refcodec values of each repository version. Sessions that carried traffic or retrievals before; fault-free cases are monitored for requests sent again after a valid answer; BMCs checking the reservation on every partial read and at non-zero offsets only; reserved type/length bit set in some records.",
    "The library's own 500 ms back-off stays in place (sleep-bound). Trusted base: refbmc repository semantics (IPMI v2.0 section 33).",
    "DESIGN.md 5/C14")

add("C15", "exploration",
    "exact-rational reference evaluation (math/big) of the conversion formula compared with SensorReader.Read served through a real session",
    "Exhaustive 256 x 3 x 12 x 8 grid for three factor sets, boundary-complete sweeps of M, B, K1, K2, then PRNG; constructor refusal over all linearisation values (constructed and wire-decoded records, arbitrary other fields); failing reads between readings on one reader; sensor number/LUN seen by the BMC.",
    "Tolerance scaled to the magnitude of the terms; ill-conditioned points compared by class only and counted separately.",
    "DESIGN.md 5/C15")

add("C16", "exploration",
    "ground-truth servers for paged data (cipher suite records in 16-byte chunks, DCMI sensor-info pages) + independent record grammar; request log bounds termination",
    "Record lists steered onto chunk boundaries, malformed data at every cut; lists of up to 200 records (64 chunks); DCMI: every instance count 0..255 with page sizes 1..200, five fallback modes, errors on later pages and BMCs that over-report the instance count. Enumerations failing from a later list index on (error, not a partial list); a second DCMI enumeration on the same session after the BMC recovered.",
    "Entity-ID constants checked against specification values at start-up.",
    "DESIGN.md 5/C16")

add("C17", "exploration",
    "differential reuse monitor: used layer/connection vs fresh one, deep comparison of exported fields by value",
    "Ordered pairs of valid encodings per layer covering all branch combinations, plus every truncation and small mutations as later inputs; every ordered pair of 12 commands x 6 first-command outcomes x {session-less, in-session} against a fresh connection; cipher-suite discovery and SDR histories with failures part-way; results of the high-level calls held across later calls; sessions of up to 600 commands. Discovery histories starting with a complete handshake and a changing advertisement; bare reservation losses during SDR retrievals.",
    "Whatever a decoder accepts must decode identically into a used and a fresh value; sampled.",
    "DESIGN.md 5/C17")

add("C13", "fault_enumeration",
    "wall-clock overshoot monitor over real UDP with a scheduler-lateness canary + logical monitor of every attempt context's deadline at the in-memory transport",
    "Six fault patterns (incl. datagrams ending in long 0xFF runs) from each of thirteen steps of the blocking calls (incl. a wrong-password handshake) with three timeout:deadline ratios (quick: one third of the grid, rotating with the seed; thorough: all plus extra ratios), already-expired contexts, and the load-independent attempt-deadline invariants. Steps also cover cipher-suite enumeration (from a later list index on, and repeated on one connection), sensor reads, DCMI enumeration, a BMC whose port is gone, an over-long Full Sensor Record, Open Session answered with a temporary status and SetTimeout; every case is also monitored for 'success needs a valid response delivered during the call'.",
    "250 ms scheduling allowance; canary lateness > 100 ms makes a case inconclusive (repeated up to three times), never a violation.",
    "DESIGN.md 5/C13")

add("C18", "exploration",
    "conservation monitor: prometheus.DefaultGatherer snapshot before/after every step of random histories vs a model fed from transport-level counts",
    "Random histories (up to 60 steps) over dials (incl. non-positive timeouts), opens, arbitrary commands with scripted outcomes (incl. strays and message-less datagrams), bounded retry policies that give up, serialisation failures and closes; every bmc_* counter and gauge delta must equal the model's for every step. Dials through bmc.Dial and with unbracketed IPv6 literals, opens cancelled during the last handshake exchange, retransmissions across the wrap of the session sequence number.",
    "Histories run one at a time in the process (vectors are process-global); only unambiguous outcomes are generated.",
    "DESIGN.md 5/C18")

add("C19", "exploration",
    "Go race detector (binary built with -race, reports parsed and de-duplicated by library frames) + differential solo-vs-concurrent transcripts of results and BMC-side datagram logs",
    "Rounds of 2..16 goroutines with independent connections (UDP and in-memory), shared read-only option values, same-key sensors with per-BMC factors and seeded random workloads (repository walks, readers, session info, busy/stalled peers), repeated; interleaving evidence = distinct worker-ID sequences over transport events. The fleet shares BMC session IDs, mixes standard-entity-ID and DCMI-only BMCs with every enumeration compared with the worker's own BMC, receives datagrams of unregistered payload types, and a payload descriptor is registered between rounds under a watchdog.",
    "Judges executed accesses under the schedules this run produced; non-reproducing transcript differences are inconclusive.",
    "DESIGN.md 5/C19")
