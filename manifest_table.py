NOT_APPLICABLE = {}

add("C01", "exploration",
    "differential runtime monitor: real handshake + commands against an independent simulated BMC (key equality, strict per-packet verification)",
    "Every explored handshake configuration (suite x credentials x KG x privilege x lookup x BMC randoms) is executed for real against an independently written BMC; SIK/K1/K2 and IDs are compared byte for byte and follow-up commands must pass the BMC's own integrity check and decryption. Sampled + strided grid, so 'held on what was generated'.",
    "Trusted base: refbmc's reading of IPMI v2.0 13.28-13.32; Go crypto; the in-memory transport hook (also run hook-free over loopback UDP).",
    "DESIGN.md 5/C01")

add("C05", "fault_enumeration",
    "panic/over-read sanitizer: recover() on exact-capacity slices + poisoned-tail differential on every decoder; hostile-reply substitution at every transmission of live flows over the hooked transport",
    "Ring 1 enumerates every truncation and single-byte boundary mutation of valid encodings of all 29 decodable layers (plus fills, PRNG, registered gopacket chains, string decoders, every AES pad count); ring 2 enumerates a derived hostile corpus at every reply position of eight call flows, including authentic packets around hostile plaintexts. Any panic, hang or dependence on bytes beyond the datagram is a violation.",
    "Go bounds checks are the memory-safety oracle (pure Go, no unsafe); inputs outside the enumerated/mutated families are sampled only.",
    "DESIGN.md 5/C05, 3.4")

add("C08", "exploration",
    "round-trip monitor: serialise (fresh and reused buffer) -> decode -> field compare -> re-serialise, AES checked by independent crypto/cipher decryption",
    "Sampled values of the five two-way layers over their wire domains with payload lengths cycling through 0..200; equality of fields, inner payload, re-serialised bytes and (for AES) independently decrypted plaintext.",
    "Values restricted to the wire domain; held on what was generated.",
    "DESIGN.md 5/C08")

add("C20", "exploration",
    "exhaustive differential against arithmetic definitions through the exported API",
    "Every finite domain named by the property is enumerated completely (exhaustive: true) and compared with a directly written definition.",
    "BCD only defined for digits 0..9; period encoder definition as documented by the library.",
    "DESIGN.md 5/C20")

add("C12", "exploration",
    "reference-model monitor over the simulated BMC's request log (discovery use, proposal) + response mutator on the Open Session Response",
    "Selection is enumerated exhaustively for all ordered preference lists of length 0..3 over a 6-suite universe against all 64 advertised subsets and compared with a small model; the answer side rewrites the algorithm triple (all values per axis, PRNG triples; thorough: all 64^3 for three proposals) and requires an error unless it equals the proposal.",
    "Trusted base: refbmc's cipher suite record encoding (table 22-19) and handshake.",
    "DESIGN.md 5/C12")
