NOT_APPLICABLE = {}

add("C01", "exploration",
    "differential runtime monitor: real handshake + commands against an independent simulated BMC (key equality, strict per-packet verification)",
    "Every explored handshake configuration (suite x credentials x KG x privilege x lookup x BMC randoms) is executed for real against an independently written BMC; SIK/K1/K2 and IDs are compared byte for byte and follow-up commands must pass the BMC's own integrity check and decryption. Sampled + strided grid, so 'held on what was generated'.",
    "Trusted base: refbmc's reading of IPMI v2.0 13.28-13.32; Go crypto; the in-memory transport hook (also run hook-free over loopback UDP).",
    "DESIGN.md 5/C01")
