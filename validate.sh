#!/bin/bash
# validates MANIFEST.json and every evidence file against the schemas
python3-vt - <<'PY'
import json, jsonschema, glob
jsonschema.validate(json.load(open('/verif/MANIFEST.json')), json.load(open('/root/.vp/MANIFEST.schema.json')))
print("MANIFEST valid")
es = json.load(open('/root/.vp/EVIDENCE.schema.json'))
for f in sorted(glob.glob('/verif/evidence/*.json')):
    try:
        jsonschema.validate(json.load(open(f)), es)
        print("ok  ", f)
    except Exception as e:
        print("BAD ", f, str(e)[:300])
PY
