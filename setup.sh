#!/bin/bash
# Offline setup: copy go.sum, build both check binaries once (warms GOCACHE,
# including the race-instrumented standard library).
set -eu
cd "$(dirname "$0")"
export GOFLAGS=-mod=mod GOPROXY=off GOSUMDB=off GOTOOLCHAIN=local
mkdir -p out/bin out/logs evidence
cp /repo/go.sum harness/go.sum
(cd harness && go build -tags verif -cover -coverpkg=github.com/gebn/bmc/... -o ../out/bin/vchk ./cmd/vchk)
(cd harness && go build -tags verif -race -o ../out/bin/vchk-race ./cmd/vchk)
echo setup ok
