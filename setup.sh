#!/bin/bash
# Offline setup: copy go.sum, build both check binaries once (warms GOCACHE,
# including the race-instrumented standard library).
set -eu
cd "$(dirname "$0")"
export GOFLAGS=-mod=mod GOPROXY=off GOSUMDB=off GOTOOLCHAIN=local
mkdir -p out/bin out/logs evidence
cp /repo/go.sum harness/go.sum
(cd harness && go build -tags verif -cover -covermode=atomic -coverpkg=github.com/gebn/bmc/...,verifharness/cmd/vchk -o ../out/bin/vchk ./cmd/vchk)
(cd harness && go build -tags verif -race -cover -covermode=atomic -coverpkg=github.com/gebn/bmc/...,verifharness/cmd/vchk -o ../out/bin/vchk-race ./cmd/vchk)
echo setup ok
