package refcodec

import (
	"encoding/binary"
	"errors"
	"fmt"
)

// Fields is the parsed content of a request body: field name -> value.
type Fields map[string]uint64

func b2u(b bool) uint64 {
	if b {
		return 1
	}
	return 0
}

// ParseRequest decodes the body of an IPMI request (the bytes after the
// command byte, including the group-extension / OEM prefix) according to the
// specification tables. It reports reserved bits that are set and wrong
// lengths as errors.
func ParseRequest(netfn, cmd byte, data []byte) (Fields, error) {
	want := func(n int) error {
		if len(data) != n {
			return fmt.Errorf("NetFn %#x cmd %#x: request body is %d bytes, specification says %d", netfn, cmd, len(data), n)
		}
		return nil
	}
	switch {
	case netfn == 0x06 && cmd == 0x38: // Get Channel Authentication Capabilities, table 22-15
		if err := want(2); err != nil {
			return nil, err
		}
		if data[0]&0x70 != 0 || data[1]&0xf0 != 0 {
			return nil, fmt.Errorf("Get Channel Authentication Capabilities: reserved bits set in % x", data)
		}
		return Fields{"extended": uint64(data[0] >> 7), "channel": uint64(data[0] & 0x0f), "privilege": uint64(data[1] & 0x0f)}, nil
	case netfn == 0x06 && cmd == 0x54: // Get Channel Cipher Suites, table 22-18
		if err := want(3); err != nil {
			return nil, err
		}
		if data[0]&0xf0 != 0 || data[1]&0xc0 != 0 || data[2]&0x40 != 0 {
			return nil, fmt.Errorf("Get Channel Cipher Suites: reserved bits set in % x", data)
		}
		return Fields{"channel": uint64(data[0]), "payload_type": uint64(data[1]), "list_suites": uint64(data[2] >> 7), "index": uint64(data[2] & 0x3f)}, nil
	case netfn == 0x06 && cmd == 0x3d: // Get Session Info, table 22-25
		if len(data) < 1 {
			return nil, fmt.Errorf("Get Session Info: empty body")
		}
		f := Fields{"index": uint64(data[0])}
		switch data[0] {
		case 0xfe:
			if err := want(2); err != nil {
				return nil, err
			}
			f["handle"] = uint64(data[1])
		case 0xff:
			if err := want(5); err != nil {
				return nil, err
			}
			f["id"] = uint64(binary.LittleEndian.Uint32(data[1:]))
		default:
			if err := want(1); err != nil {
				return nil, err
			}
		}
		return f, nil
	case netfn == 0x06 && cmd == 0x3b: // Set Session Privilege Level
		if err := want(1); err != nil {
			return nil, err
		}
		if data[0]&0xf0 != 0 {
			return nil, fmt.Errorf("Set Session Privilege Level: reserved bits set in %#x", data[0])
		}
		return Fields{"privilege": uint64(data[0])}, nil
	case netfn == 0x06 && cmd == 0x3c: // Close Session, table 22-24
		if len(data) < 4 {
			return nil, fmt.Errorf("Close Session: body %d bytes", len(data))
		}
		id := binary.LittleEndian.Uint32(data)
		f := Fields{"id": uint64(id)}
		if id == 0 {
			if err := want(5); err != nil {
				return nil, err
			}
			f["handle"] = uint64(data[4])
		} else if err := want(4); err != nil {
			return nil, err
		}
		return f, nil
	case netfn == 0x00 && cmd == 0x02: // Chassis Control, table 28-4
		if err := want(1); err != nil {
			return nil, err
		}
		if data[0]&0xf0 != 0 {
			return nil, fmt.Errorf("Chassis Control: reserved bits set in %#x", data[0])
		}
		return Fields{"control": uint64(data[0])}, nil
	case netfn == 0x0a && cmd == 0x23: // Get SDR, table 33-12
		if err := want(6); err != nil {
			return nil, err
		}
		return Fields{"reservation": uint64(binary.LittleEndian.Uint16(data)), "record": uint64(binary.LittleEndian.Uint16(data[2:])), "offset": uint64(data[4]), "length": uint64(data[5])}, nil
	case netfn == 0x04 && cmd == 0x2d: // Get Sensor Reading
		if err := want(1); err != nil {
			return nil, err
		}
		return Fields{"number": uint64(data[0])}, nil
	case (netfn == 0x06 && (cmd == 0x01 || cmd == 0x37)) || (netfn == 0x00 && cmd == 0x01) || (netfn == 0x0a && (cmd == 0x20 || cmd == 0x22)):
		if err := want(0); err != nil {
			return nil, err
		}
		return Fields{}, nil
	case netfn == 0x2c:
		if len(data) < 1 || data[0] != 0xdc {
			return nil, fmt.Errorf("group extension request without DCMI body code: % x", data)
		}
		d := data[1:]
		switch cmd {
		case 0x01: // Get DCMI Capabilities Info
			if len(d) != 1 {
				return nil, fmt.Errorf("Get DCMI Capabilities Info: body % x", d)
			}
			return Fields{"parameter": uint64(d[0])}, nil
		case 0x02: // Get Power Reading, DCMI 6.6.1
			if len(d) != 3 {
				return nil, fmt.Errorf("Get Power Reading: body % x", d)
			}
			if d[2] != 0 {
				return nil, fmt.Errorf("Get Power Reading: reserved byte %#x", d[2])
			}
			return Fields{"mode": uint64(d[0]), "period": uint64(d[1])}, nil
		case 0x07: // Get DCMI Sensor Info, DCMI 6.5.2
			if len(d) != 4 {
				return nil, fmt.Errorf("Get DCMI Sensor Info: body % x", d)
			}
			return Fields{"type": uint64(d[0]), "entity": uint64(d[1]), "instance": uint64(d[2]), "start": uint64(d[3])}, nil
		}
	}
	return nil, fmt.Errorf("%w for NetFn %#x cmd %#x", ErrNoTable, netfn, cmd)
}

// ErrNoTable is returned for commands this package has no request table for.
var ErrNoTable = errors.New("no request table")

func algField(p []byte, typ byte) (uint64, error) {
	if len(p) != 8 || p[0] != typ || p[1] != 0 || p[2] != 0 || p[5] != 0 || p[6] != 0 || p[7] != 0 {
		return 0, fmt.Errorf("algorithm payload %d malformed: % x", typ, p)
	}
	if p[3] == 0 {
		if p[4] != 0 {
			return 0, fmt.Errorf("wildcard algorithm payload with algorithm %#x", p[4])
		}
		return 0x100, nil // wildcard
	}
	if p[3] != 8 || p[4]&0xc0 != 0 {
		return 0, fmt.Errorf("algorithm payload %d length/reserved: % x", typ, p)
	}
	return uint64(p[4]), nil
}

// ParseOpenSessionReq: table 13-9.
func ParseOpenSessionReq(p []byte) (Fields, error) {
	if len(p) != 32 {
		return nil, fmt.Errorf("Open Session Request is %d bytes, want 32", len(p))
	}
	if p[1]&0xf0 != 0 || p[2] != 0 || p[3] != 0 {
		return nil, fmt.Errorf("Open Session Request reserved bits set: % x", p[:4])
	}
	f := Fields{"tag": uint64(p[0]), "privilege": uint64(p[1]), "console_sid": uint64(binary.LittleEndian.Uint32(p[4:]))}
	var err error
	if f["auth"], err = algField(p[8:16], 0); err != nil {
		return nil, err
	}
	if f["integ"], err = algField(p[16:24], 1); err != nil {
		return nil, err
	}
	if f["conf"], err = algField(p[24:32], 2); err != nil {
		return nil, err
	}
	return f, nil
}

// ParseRAKP1: table 13-11. Returns the fields, the random number and username.
func ParseRAKP1(p []byte) (Fields, []byte, string, error) {
	if len(p) < 28 {
		return nil, nil, "", fmt.Errorf("RAKP Message 1 is %d bytes, minimum 28", len(p))
	}
	if p[1] != 0 || p[2] != 0 || p[3] != 0 || p[25] != 0 || p[26] != 0 || p[24]&0xe0 != 0 {
		return nil, nil, "", fmt.Errorf("RAKP Message 1 reserved bits set")
	}
	ul := int(p[27])
	if ul > 16 || len(p) != 28+ul {
		return nil, nil, "", fmt.Errorf("RAKP Message 1 username length %d with %d bytes", ul, len(p))
	}
	f := Fields{"tag": uint64(p[0]), "bmc_sid": uint64(binary.LittleEndian.Uint32(p[4:])), "name_only_lookup": uint64(p[24] >> 4 & 1), "privilege": uint64(p[24] & 0x0f), "ulen": uint64(ul)}
	return f, append([]byte(nil), p[8:24]...), string(p[28:]), nil
}

// ParseRAKP3: table 13-13.
func ParseRAKP3(p []byte) (Fields, []byte, error) {
	if len(p) < 8 {
		return nil, nil, fmt.Errorf("RAKP Message 3 is %d bytes, minimum 8", len(p))
	}
	if p[2] != 0 || p[3] != 0 {
		return nil, nil, fmt.Errorf("RAKP Message 3 reserved bytes set")
	}
	return Fields{"tag": uint64(p[0]), "status": uint64(p[1]), "bmc_sid": uint64(binary.LittleEndian.Uint32(p[4:]))}, append([]byte(nil), p[8:]...), nil
}

// Equal compares two field maps and reports the differences.
func (f Fields) Diff(want Fields) []string {
	var d []string
	for k, v := range want {
		if g, ok := f[k]; !ok || g != v {
			d = append(d, fmt.Sprintf("%s: got %#x want %#x", k, f[k], v))
		}
	}
	for k, v := range f {
		if _, ok := want[k]; !ok {
			d = append(d, fmt.Sprintf("%s: unexpected field with value %#x", k, v))
		}
	}
	return d
}
