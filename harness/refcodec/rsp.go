// Package refcodec holds independent encoders for every response layer
// (value -> bytes) and decoders for every request layer (bytes -> values),
// written from the IPMI v2.0 / DCMI specification layouts in the opposite
// direction from the library's code. The library's structs are used only as
// carriers of field values.
package refcodec

import (
	"time"

	"github.com/gebn/bmc/pkg/dcmi"
	"github.com/gebn/bmc/pkg/ipmi"
)

func bit(b bool, n uint) byte {
	if b {
		return 1 << n
	}
	return 0
}

func le16(v uint16) []byte { return []byte{byte(v), byte(v >> 8)} }
func le32(v uint32) []byte { return []byte{byte(v), byte(v >> 8), byte(v >> 16), byte(v >> 24)} }
func le24(v uint32) []byte { return []byte{byte(v), byte(v >> 8), byte(v >> 16)} }

func bcd(v uint8) byte { return (v/10)<<4 | v%10 }

// GetDeviceID: IPMI v2.0 table 20-2.
func GetDeviceID(v *ipmi.GetDeviceIDRsp, withAux bool) []byte {
	o := []byte{
		v.ID,
		bit(v.ProvidesSDRs, 7) | v.Revision&0x0f,
		bit(!v.Available, 7) | v.MajorFirmwareRevision&0x7f,
		bcd(v.MinorFirmwareRevision),
		v.MinorIPMIVersion<<4 | v.MajorIPMIVersion&0x0f,
		bit(v.SupportsChassisDevice, 7) | bit(v.SupportsBridgeDevice, 6) | bit(v.SupportsIPMBEventGeneratorDevice, 5) |
			bit(v.SupportsIPMBEventReceiverDevice, 4) | bit(v.SupportsFRUInventoryDevice, 3) | bit(v.SupportsSELDevice, 2) |
			bit(v.SupportsSDRRepositoryDevice, 1) | bit(v.SupportsSensorDevice, 0),
	}
	o = append(o, le24(uint32(v.Manufacturer))...)
	o = append(o, le16(v.Product)...)
	if withAux {
		o = append(o, v.AuxiliaryFirmwareRevision[:]...)
	}
	return o
}

// GetChassisStatus: table 28-3.
func GetChassisStatus(v *ipmi.GetChassisStatusRsp, withButtons bool) []byte {
	b3 := bit(v.CoolingFault, 3) | bit(v.DriveFault, 2) | bit(v.Lockout, 1) | bit(v.Intrusion, 0)
	if v.ChassisIdentifyState != ipmi.ChassisIdentifyStateUnknown {
		b3 |= 1<<6 | byte(v.ChassisIdentifyState)<<4
	}
	o := []byte{
		byte(v.PowerRestorePolicy)<<5 | bit(v.PowerControlFault, 4) | bit(v.PowerFault, 3) | bit(v.Interlock, 2) | bit(v.PowerOverload, 1) | bit(v.PoweredOn, 0),
		bit(v.PoweredOnByIPMI, 4) | bit(v.LastPowerDownFault, 3) | bit(v.LastPowerDownInterlock, 2) | bit(v.LastPowerDownOverload, 1) | bit(v.LastPowerDownSupplyFailure, 0),
		b3,
	}
	if withButtons {
		o = append(o, bit(v.StandbyButtonDisableAllowed, 7)|bit(v.DiagnosticInterruptButtonDisableAllowed, 6)|bit(v.ResetButtonDisableAllowed, 5)|
			bit(v.PowerOffButtonDisableAllowed, 4)|bit(v.StandbyButtonDisabled, 3)|bit(v.DiagnosticInterruptButtonDisabled, 2)|
			bit(v.ResetButtonDisabled, 1)|bit(v.PowerOffButtonDisabled, 0))
	}
	return o
}

func GetSystemGUID(v *ipmi.GetSystemGUIDRsp) []byte { return append([]byte(nil), v.GUID[:]...) }

// GetChannelAuthCaps: table 22-15 (field <-> bit as the library documents).
func GetChannelAuthCaps(v *ipmi.GetChannelAuthenticationCapabilitiesRsp) []byte {
	o := []byte{
		byte(v.Channel),
		bit(v.ExtendedCapabilities, 7) | bit(v.AuthenticationTypeOEM, 5) | bit(v.AuthenticationTypePassword, 4) |
			bit(v.AuthenticationTypeMD5, 2) | bit(v.AuthenticationTypeMD2, 1) | bit(v.AuthenticationTypeNone, 0),
		bit(v.TwoKeyLogin, 5) | bit(v.PerMessageAuthentication, 4) | bit(v.UserLevelAuthentication, 3) |
			bit(v.NonNullUsernamesEnabled, 2) | bit(v.NullUsernamesEnabled, 1) | bit(v.AnonymousLoginEnabled, 0),
		bit(v.SupportsV2, 1) | bit(v.SupportsV1, 0),
	}
	o = append(o, le24(uint32(v.OEM))...)
	return append(o, v.OEMData)
}

// GetChannelCipherSuites: table 22-18; chunk is at most 16 bytes.
func GetChannelCipherSuites(v *ipmi.GetChannelCipherSuitesRsp) []byte {
	return append([]byte{byte(v.Channel)}, v.CipherSuiteRecordsChunk...)
}

// GetSessionInfo: table 22-25. form: 3, 6 or 18 bytes.
func GetSessionInfo(v *ipmi.GetSessionInfoRsp, form int) []byte {
	o := []byte{byte(v.Handle), v.Max, v.Active}
	if form == 3 {
		return o
	}
	proto := byte(0)
	if v.IsIPMIv2 {
		proto = 1
	}
	o = append(o, v.UserID&0x3f, byte(v.PrivilegeLevel)&0x0f, proto<<4|byte(v.Channel)&0x0f)
	if form == 6 {
		return o
	}
	ip4 := v.IP.To4()
	o = append(o, ip4...)
	o = append(o, v.MAC...)
	return append(o, le16(v.Port)...)
}

func SetSessionPrivilegeLevel(v *ipmi.SetSessionPrivilegeLevelRsp) []byte {
	return []byte{byte(v.PrivilegeLevel) & 0x0f}
}

// GetSDRRepositoryInfo: table 33-3.
func GetSDRRepositoryInfo(v *ipmi.GetSDRRepositoryInfoRsp) []byte {
	// SDR version: bits 7:4 hold the least significant digit, 3:0 the most
	// significant: 0x51 means 1.5, which the library presents as 15
	o := []byte{(v.Version%10)<<4 | v.Version/10}
	o = append(o, le16(v.Records)...)
	o = append(o, le16(v.FreeSpace)...)
	o = append(o, le32(uint32(v.LastAddition.Unix()))...)
	o = append(o, le32(uint32(v.LastErase.Unix()))...)
	return append(o, bit(v.Overflow, 7)|bit(v.SupportsModalUpdate, 6)|bit(v.SupportsNonModalUpdate, 5)|bit(v.SupportsDelete, 3)|
		bit(v.SupportsPartialAdd, 2)|bit(v.SupportsReserve, 1)|bit(v.SupportsGetAllocationInformation, 0))
}

func ReserveSDRRepository(v *ipmi.ReserveSDRRepositoryRsp) []byte {
	return le16(uint16(v.ReservationID))
}

// GetSDR: next record ID + record data.
func GetSDR(next ipmi.RecordID, data []byte) []byte {
	return append(le16(uint16(next)), data...)
}

// SDRHeader: table 43-1 bytes 1..5.
func SDRHeader(v *ipmi.SDR) []byte {
	return []byte{byte(v.ID), byte(v.ID >> 8), (v.Version%10)<<4 | v.Version/10, byte(v.Type), v.Length}
}

func tc(v int, bits uint) uint16 { return uint16(v) & (1<<bits - 1) }

// FullSensorRecord key+body: table 43-1, bytes 6.. (index = byte-6). idBytes
// are the already-encoded ID string bytes, typeLen the type/length byte.
// Bits and bytes the library does not expose are taken from filler.
func FullSensorRecord(v *ipmi.FullSensorRecord, typeLen byte, idBytes []byte, filler []byte) []byte {
	o := make([]byte, 43)
	copy(o, filler)
	o[0] = byte(v.OwnerAddress)
	o[1] = byte(v.Channel)<<4 | o[1]&0x0c | byte(v.OwnerLUN)&3
	o[2] = v.Number
	o[3] = byte(v.Entity)
	o[4] = bit(v.IsContainerEntity, 7) | byte(v.Instance)&0x7f
	o[6] = bit(v.Ignore, 7) | o[6]&0x7f
	o[7] = byte(v.SensorType)
	o[8] = byte(v.OutputType)
	o[15] = byte(v.AnalogDataFormat)<<6 | byte(v.RateUnit)<<3 | o[15]&0x06 | bit(v.IsPercentage, 0)
	o[16] = byte(v.BaseUnit)
	o[17] = byte(v.ModifierUnit)
	o[18] = byte(v.Linearisation)&0x7f | o[18]&0x80
	m, b, a := tc(int(v.M), 10), tc(int(v.B), 10), tc(int(v.Accuracy), 10)
	o[19] = byte(m)
	o[20] = byte(m>>8)<<6 | v.Tolerance&0x3f
	o[21] = byte(b)
	o[22] = byte(b>>8)<<6 | byte(a)&0x3f
	o[23] = byte(a>>6)<<4 | (v.AccuracyExp&3)<<2 | byte(v.Direction)&3
	o[24] = byte(tc(int(v.RExp), 4))<<4 | byte(tc(int(v.BExp), 4))
	o[25] = bit(v.NormalMinSpecified, 2) | bit(v.NormalMaxSpecified, 1) | bit(v.NominalReadingSpecified, 0) | o[25]&0xf8
	o[26] = v.NominalReading
	o[27] = v.NormalMax
	o[28] = v.NormalMin
	o[29] = v.SensorMax
	o[30] = v.SensorMin
	o[42] = typeLen
	return append(o, idBytes...)
}

// IDString encodes s in the given type code (0 unicode-as-latin1, 1 BCD plus,
// 2 packed 6-bit, 3 8-bit) and returns the type/length byte and data bytes.
// The caller guarantees s is representable.
func IDString(enc byte, s []rune) (byte, []byte) {
	n := len(s)
	switch enc {
	case 1:
		alphabet := "0123456789 -.:,_"
		b := make([]byte, (n+1)/2)
		for i, r := range s {
			v := byte(0)
			for j, a := range alphabet {
				if a == r {
					v = byte(j)
				}
			}
			if i%2 == 0 {
				b[i/2] |= v << 4
			} else {
				b[i/2] |= v
			}
		}
		return enc<<6 | byte(n), b
	case 2:
		b := make([]byte, (n*6+7)/8)
		for i, r := range s {
			v := int(r) - 0x20
			for k := 0; k < 6; k++ {
				if v&(1<<k) != 0 {
					p := i*6 + k
					b[p/8] |= 1 << (p % 8)
				}
			}
		}
		return enc<<6 | byte(n), b
	default:
		b := make([]byte, n)
		for i, r := range s {
			b[i] = byte(r)
		}
		return enc<<6 | byte(n), b
	}
}

// GetSensorReading: table 35-15; extra is the optional state bytes (1 or 2).
func GetSensorReading(v *ipmi.GetSensorReadingRsp, extra []byte) []byte {
	o := []byte{v.Reading, bit(v.EventMessagesEnabled, 7) | bit(v.ScanningEnabled, 6) | bit(v.ReadingUnavailable, 5)}
	return append(o, extra...)
}

func algPayload(typ, alg byte, wildcard bool) []byte {
	if wildcard {
		return []byte{typ, 0, 0, 0, 0, 0, 0, 0}
	}
	return []byte{typ, 0, 0, 8, alg & 0x3f, 0, 0, 0}
}

// OpenSessionRsp: table 13-10. form 36 (OK), 7 or 1 (error forms seen in the
// wild and documented by the library).
func OpenSessionRsp(v *ipmi.OpenSessionRsp, form int) []byte {
	switch form {
	case 1:
		return []byte{byte(v.Status)}
	case 7:
		o := []byte{v.Tag, byte(v.Status), 0}
		return append(o, le32(v.RemoteConsoleSessionID)...)
	}
	o := []byte{v.Tag, byte(v.Status), byte(v.MaxPrivilegeLevel), 0}
	o = append(o, le32(v.RemoteConsoleSessionID)...)
	o = append(o, le32(v.ManagedSystemSessionID)...)
	o = append(o, algPayload(0, byte(v.AuthenticationPayload.Algorithm), v.AuthenticationPayload.Wildcard)...)
	o = append(o, algPayload(1, byte(v.IntegrityPayload.Algorithm), v.IntegrityPayload.Wildcard)...)
	o = append(o, algPayload(2, byte(v.ConfidentialityPayload.Algorithm), v.ConfidentialityPayload.Wildcard)...)
	return o
}

// RAKPMessage2: table 13-12.
func RAKPMessage2(v *ipmi.RAKPMessage2) []byte {
	o := []byte{v.Tag, byte(v.Status), 0, 0}
	o = append(o, le32(v.RemoteConsoleSessionID)...)
	if v.Status != 0 {
		return o
	}
	o = append(o, v.ManagedSystemRandom[:]...)
	o = append(o, v.ManagedSystemGUID[:]...)
	return append(o, v.AuthCode...)
}

// RAKPMessage4: table 13-14.
func RAKPMessage4(v *ipmi.RAKPMessage4) []byte {
	o := []byte{v.Tag, byte(v.Status), 0, 0}
	o = append(o, le32(v.RemoteConsoleSessionID)...)
	if v.Status != 0 {
		return o
	}
	return append(o, v.ICV...)
}

// ---- DCMI (v1.0 / 1.1 / 1.5), all after the group extension byte ----

func dcmiHdr(major, minor, rev uint8) []byte { return []byte{major, minor, rev} }

// DCMISupportedCapabilities encodes parameter 1 and normalises v to what a
// decoder must report for that version (fields fixed to true from 1.1 on).
func DCMISupportedCapabilities(v *dcmi.GetDCMICapabilitiesInfoSupportedCapabilitiesRsp, noise byte) []byte {
	v10 := v.MajorVersion == 1 && v.MinorVersion == 0
	var b0, b2 byte
	if v10 {
		b0 = bit(v.TemperatureMonitor, 3) | bit(v.ChassisPower, 2) | bit(v.SELLogging, 1) | bit(v.Identification, 0)
		b2 = bit(v.VLANCapable, 5) | bit(v.SOLSupported, 4) | bit(v.OOBPrimaryLANChannelAvailable, 3) | bit(v.IBKCSChannelAvailable, 0)
		v.IBSystemInterfaceChannelAvailable = false
	} else {
		b0 = noise & 0x0f
		b2 = noise&0x38 | bit(v.IBSystemInterfaceChannelAvailable, 0)
		v.TemperatureMonitor, v.ChassisPower, v.SELLogging, v.Identification = true, true, true, true
		v.VLANCapable, v.SOLSupported, v.OOBPrimaryLANChannelAvailable, v.IBKCSChannelAvailable = true, true, true, true
	}
	b2 |= bit(v.OOBSecondaryLANChannelAvailable, 2) | bit(v.SerialTMODEAvailable, 1)
	o := dcmiHdr(v.MajorVersion, v.MinorVersion, v.Revision)
	return append(o, b0, bit(v.PowerManagement, 0), b2)
}

// DCMIMandatoryPlatformAttrs encodes parameter 2 (SEL entries: low nibble of
// the first byte is the least significant part, as the library documents).
func DCMIMandatoryPlatformAttrs(v *dcmi.GetDCMICapabilitiesInfoMandatoryPlatformAttrsRsp) []byte {
	v10 := v.MajorVersion == 1 && v.MinorVersion == 0
	b0 := bit(v.SELAutoRollover, 7) | byte(v.SELMaxEntries)&0x0f
	b1 := byte(v.SELMaxEntries >> 8)
	o := dcmiHdr(v.MajorVersion, v.MinorVersion, v.Revision)
	if v10 {
		v.SELFlushOnRollover, v.SELRecordLevelFlushOnRollover = false, false
		v.TemperatureSamplingFrequency = 0
		b2 := bit(v.AssetTagSupport, 2) | bit(v.DHCPHostNameSupport, 1) | bit(v.GUIDSupport, 0)
		b3 := bit(v.BaseboardTemperature, 2) | bit(v.ProcessorsTemperature, 1) | bit(v.InletTemperature, 0)
		return append(o, b0, b1, b2, b3)
	}
	b0 |= bit(v.SELFlushOnRollover, 6) | bit(v.SELRecordLevelFlushOnRollover, 5)
	v.AssetTagSupport, v.DHCPHostNameSupport, v.GUIDSupport = true, true, true
	v.BaseboardTemperature, v.ProcessorsTemperature, v.InletTemperature = true, true, true
	return append(o, b0, b1, 0x07, 0x07, byte(v.TemperatureSamplingFrequency/time.Second))
}

func DCMIOptionalPlatformAttrs(v *dcmi.GetDCMICapabilitiesInfoOptionalPlatformAttrsRsp, lowBit byte) []byte {
	o := dcmiHdr(v.MajorVersion, v.MinorVersion, v.Revision)
	return append(o, byte(v.PowerManagementSlaveAddress)<<1|lowBit&1, byte(v.PowerManagementChannel)<<4|v.PowerManagementRevision&0x0f)
}

func DCMIManageabilityAccessAttrs(v *dcmi.GetDCMICapabilitiesInfoManageabilityAccessAttrsRsp) []byte {
	o := dcmiHdr(v.MajorVersion, v.MinorVersion, v.Revision)
	return append(o, byte(v.PrimaryLANOOBChannel), byte(v.SecondaryLANOOBChannel), byte(v.SerialOOBChannel))
}

// PeriodByte encodes a canonical rolling average period (value 0..63 of unit).
func PeriodByte(unit, value byte) (byte, time.Duration) {
	mult := []time.Duration{time.Second, time.Minute, time.Hour, 24 * time.Hour}[unit&3]
	return unit<<6 | value&0x3f, time.Duration(value&0x3f) * mult
}

func DCMIEnhancedPowerAttrs(major, minor, rev uint8, periodBytes []byte) []byte {
	o := dcmiHdr(major, minor, rev)
	o = append(o, byte(len(periodBytes)))
	return append(o, periodBytes...)
}

// GetPowerReading: DCMI v1.5 table 6-16.
func GetPowerReading(v *dcmi.GetPowerReadingRsp, stateNoise byte) []byte {
	o := le16(v.Instantaneous)
	o = append(o, le16(v.Min)...)
	o = append(o, le16(v.Max)...)
	o = append(o, le16(v.Avg)...)
	o = append(o, le32(uint32(v.Timestamp.Unix()))...)
	o = append(o, le32(uint32(v.Period/time.Millisecond))...)
	return append(o, bit(v.Active, 6)|stateNoise&0xbf)
}

// GetDCMISensorInfo: DCMI v1.5 table 6-12.
func GetDCMISensorInfo(v *dcmi.GetDCMISensorInfoRsp) []byte {
	o := []byte{v.Instances, byte(len(v.RecordIDs))}
	for _, id := range v.RecordIDs {
		o = append(o, le16(uint16(id))...)
	}
	return o
}
