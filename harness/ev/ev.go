// Package ev is the verdict and evidence layer shared by every check: it
// counts what a run actually observed, matches violations against the committed
// known-findings file, writes replay files and the schema-valid evidence JSON,
// and turns the three-valued verdict into the exit status the MANIFEST
// interface prescribes.
package ev

import (
	"crypto/sha256"
	"encoding/hex"
	"encoding/json"
	"fmt"
	"os"
	"path/filepath"
	"sort"
	"strconv"
	"sync"
	"time"
)

// Root is the /verif directory (overridable for tests of the machinery).
var Root = func() string {
	if r := os.Getenv("VERIF_ROOT"); r != "" {
		return r
	}
	return "/verif"
}()

// Finding is one entry of known_findings.json.
type Finding struct {
	Property string `json:"property"`
	Key      string `json:"key"`
	Status   string `json:"status"` // "open" | "fixed"
	What     string `json:"what"`
	Commit   string `json:"commit,omitempty"`
}

// Case is the replayable identity of one explored case. Kind selects the
// executor inside the check, P carries its parameters.
type Case struct {
	Kind string          `json:"kind"`
	P    json.RawMessage `json:"p"`
}

func MkCase(kind string, p any) Case {
	b, err := json.Marshal(p)
	if err != nil {
		panic(err)
	}
	return Case{Kind: kind, P: b}
}

func (c Case) Decode(into any) {
	if err := json.Unmarshal(c.P, into); err != nil {
		panic(fmt.Sprintf("case %s: %v", c.Kind, err))
	}
}

type violation struct {
	Key    string `json:"key"`
	What   string `json:"what"`
	Replay string `json:"replay"`
}

// Run accumulates what one check execution observed.
type Run struct {
	ID    string
	Tier  string
	Seed  int64
	Level string
	Rule  string

	Exhaustive  bool
	Assumptions []string

	mu           sync.Mutex
	start        time.Time
	evals        int64
	distinct     map[string]struct{}
	samples      []any // never nil in the evidence
	maxSamples   int
	events       map[string]int64
	violations   []violation
	violKeys     map[string]int
	known        map[string]int
	knownWhat    map[string]string
	inconclusive []string
	observations map[string]int64
	extra        map[string]any
	maxima       map[string]float64
	findings     []Finding
	replayMode   bool
}

func NewRun(id, tier string, seed int64, level string) *Run {
	r := &Run{
		ID: id, Tier: tier, Seed: seed, Level: level,
		start:        time.Now(),
		distinct:     map[string]struct{}{},
		maxSamples:   12,
		events:       map[string]int64{},
		violKeys:     map[string]int{},
		known:        map[string]int{},
		knownWhat:    map[string]string{},
		observations: map[string]int64{},
		extra:        map[string]any{},
	}
	b, err := os.ReadFile(filepath.Join(Root, "known_findings.json"))
	if err == nil {
		var f struct {
			Findings []Finding `json:"findings"`
		}
		if err := json.Unmarshal(b, &f); err != nil {
			fmt.Fprintf(os.Stderr, "known_findings.json unreadable: %v\n", err)
			os.Exit(2)
		}
		r.findings = f.Findings
	}
	return r
}

func (r *Run) SetReplayMode() { r.replayMode = true }

// Eval counts n executed cases.
func (r *Run) Eval(n int) {
	r.mu.Lock()
	r.evals += int64(n)
	r.mu.Unlock()
}

// Nontrivial records the signature of a case that exercised the property's
// mechanism by the check's stated rule; only distinct signatures are counted.
func (r *Run) Nontrivial(sig string) {
	h := sha256.Sum256([]byte(sig))
	k := string(h[:12])
	r.mu.Lock()
	r.distinct[k] = struct{}{}
	r.mu.Unlock()
}

// Sample keeps up to maxSamples written-out cases, spread over the run by
// keeping the first few of each label.
func (r *Run) Sample(label string, v any) {
	r.mu.Lock()
	defer r.mu.Unlock()
	k := "sample:" + label
	if r.observations[k] >= 2 || len(r.samples) >= r.maxSamples {
		return
	}
	r.observations[k]++
	r.samples = append(r.samples, map[string]any{"label": label, "case": v})
}

// Event counts an observed event of the given kind (datagrams seen by the
// simulated BMC, decoder calls, panics recovered, ...).
func (r *Run) Event(kind string, n int) {
	r.mu.Lock()
	r.events[kind] += int64(n)
	r.mu.Unlock()
}

// Observe counts something worth reporting that is not a verdict.
func (r *Run) Observe(kind string, n int) {
	r.mu.Lock()
	r.observations[kind] += int64(n)
	r.mu.Unlock()
}

// Max keeps the maximum of a measured quantity (reported under "maxima").
func (r *Run) Max(key string, v float64) {
	r.mu.Lock()
	if r.maxima == nil {
		r.maxima = map[string]float64{}
	}
	if cur, ok := r.maxima[key]; !ok || v > cur {
		r.maxima[key] = v
	}
	r.mu.Unlock()
}

func (r *Run) Set(key string, v any) {
	r.mu.Lock()
	r.extra[key] = v
	r.mu.Unlock()
}

// Inconclusive records a case that could not be decided.
func (r *Run) Inconclusive(what string) {
	r.mu.Lock()
	if len(r.inconclusive) < 50 {
		r.inconclusive = append(r.inconclusive, what)
	}
	r.observations["inconclusive"]++
	r.mu.Unlock()
	fmt.Printf("INCONCLUSIVE property=%s %s\n", r.ID, what)
}

// Violation reports a refuting observation. key is the canonical identity of
// the failing case class; an open known finding with that key downgrades it
// to a KNOWN-FINDING line. c is the replayable case.
func (r *Run) Violation(key, what string, c Case, detail any) {
	r.mu.Lock()
	defer r.mu.Unlock()
	for _, f := range r.findings {
		if f.Property == r.ID && f.Status == "open" && f.Key == key {
			r.known[key]++
			r.knownWhat[key] = f.What
			return
		}
	}
	r.violKeys[key]++
	if r.violKeys[key] > 3 || len(r.violations) >= 40 {
		return // same class already reported with replay files
	}
	path := ""
	if !r.replayMode {
		path = r.writeReplay(key, what, c, detail)
	} else {
		path = "(replay)"
	}
	r.violations = append(r.violations, violation{Key: key, What: what, Replay: path})
	fmt.Printf("VIOLATION property=%s replay=%s key=%s :: %s\n", r.ID, path, key, trunc(what, 600))
}

func trunc(s string, n int) string {
	if len(s) > n {
		return s[:n] + "..."
	}
	return s
}

func (r *Run) writeReplay(key, what string, c Case, detail any) string {
	dir := filepath.Join(Root, "out", "replay")
	os.MkdirAll(dir, 0o755)
	body := map[string]any{
		"property": r.ID, "key": key, "what": what, "seed": r.Seed, "tier": r.Tier,
		"case": c, "detail": detail,
	}
	b, _ := json.MarshalIndent(body, "", " ")
	h := sha256.Sum256(b)
	p := filepath.Join(dir, fmt.Sprintf("%s-%s.json", r.ID, hex.EncodeToString(h[:6])))
	os.WriteFile(p, b, 0o644)
	return p
}

// LoadReplay reads the case out of a replay file.
func LoadReplay(path string) (Case, error) {
	b, err := os.ReadFile(path)
	if err != nil {
		return Case{}, err
	}
	var body struct {
		Case Case `json:"case"`
	}
	if err := json.Unmarshal(b, &body); err != nil {
		return Case{}, err
	}
	return body.Case, nil
}

func (r *Run) Violations() int {
	r.mu.Lock()
	defer r.mu.Unlock()
	return len(r.violations)
}

// Finish prints known findings, writes the evidence file and returns the exit
// status: 0 held on what was observed, 1 violated, 2 harness failure (nothing
// observed).
func (r *Run) Finish() int {
	r.mu.Lock()
	defer r.mu.Unlock()
	keys := make([]string, 0, len(r.known))
	for k := range r.known {
		keys = append(keys, k)
	}
	sort.Strings(keys)
	for _, k := range keys {
		fmt.Printf("KNOWN-FINDING: property=%s %s [key=%s, seen %d times]\n", r.ID, r.knownWhat[k], k, r.known[k])
	}
	wall := time.Since(r.start).Seconds()
	cov := map[string]any{
		"evaluations":         r.evals,
		"distinct_nontrivial": len(r.distinct),
		"rule":                r.Rule,
		"samples":             r.samples,
		"events":              r.events,
		"observations":        r.observations,
		"inconclusive":        r.inconclusive,
		"known_findings_seen": r.known,
	}
	if r.Exhaustive {
		cov["exhaustive"] = true
	}
	if len(r.maxima) > 0 {
		cov["maxima"] = r.maxima
	}
	for k, v := range r.extra {
		cov[k] = v
	}
	if len(r.violations) > 0 {
		cov["violation_list"] = r.violations
		vk := map[string]int{}
		for k, n := range r.violKeys {
			vk[k] = n
		}
		cov["violation_classes"] = vk
	}
	evd := map[string]any{
		"property_id": r.ID,
		"tier":        r.Tier,
		"seed":        r.Seed,
		"level":       r.Level,
		"coverage":    cov,
		"assumptions": r.Assumptions,
		"wall_s":      wall,
		"violations":  len(r.violations),
	}
	status := 0
	if len(r.violations) > 0 {
		status = 1
	}
	if !r.replayMode {
		if r.evals == 0 || len(r.distinct) < 2 || len(r.samples) == 0 {
			fmt.Printf("HARNESS-FAILURE property=%s observed nothing (evaluations=%d distinct=%d)\n", r.ID, r.evals, len(r.distinct))
			if status == 0 {
				status = 2
			}
		}
		b, _ := json.MarshalIndent(evd, "", " ")
		os.MkdirAll(filepath.Join(Root, "evidence"), 0o755)
		tmp := filepath.Join(Root, "evidence", r.ID+".json.tmp")
		os.WriteFile(tmp, b, 0o644)
		os.Rename(tmp, filepath.Join(Root, "evidence", r.ID+".json"))
	}
	total := 0
	for _, n := range r.violKeys {
		total += n
	}
	fmt.Printf("SUMMARY property=%s tier=%s seed=%d evaluations=%d distinct_nontrivial=%d violations=%d(classes %d) known=%d inconclusive=%d wall=%.1fs\n",
		r.ID, r.Tier, r.Seed, r.evals, len(r.distinct), total, len(r.violKeys), len(r.known), len(r.inconclusive), wall)
	return status
}

// SeedFromEnv returns VERIF_SEED or 1.
func SeedFromEnv() int64 {
	if s := os.Getenv("VERIF_SEED"); s != "" {
		if v, err := strconv.ParseInt(s, 10, 64); err == nil {
			return v
		}
	}
	return 1
}

// Hex is a convenience for samples.
func Hex(b []byte) string { return hex.EncodeToString(b) }

// LastViolation describes the most recent violation (used by the fuzz targets,
// whose worker processes have no visible standard output).
func (r *Run) LastViolation() string {
	r.mu.Lock()
	defer r.mu.Unlock()
	if len(r.violations) == 0 {
		return ""
	}
	v := r.violations[len(r.violations)-1]
	return fmt.Sprintf("VIOLATION property=%s replay=%s key=%s :: %s", r.ID, v.Replay, v.Key, trunc(v.What, 600))
}
