// Package refbmc is an independent implementation of the managed-system (BMC)
// side of IPMI v2.0 / RMCP+: RMCP and session-wrapper parsing, Open Session and
// RAKP 1-4 with its own HMAC code, SIK/K1/K2 derivation, per-packet integrity
// verification and generation, AES-128-CBC with pad validation, IPMI message
// checksums and command dispatch. It shares no code with github.com/gebn/bmc:
// it is written from the specification layouts, in the opposite direction
// (it parses what the library serialises and serialises what the library
// parses), so agreement between the two is meaningful.
//
// Every datagram it receives becomes an Event in its log before any acceptance
// decision is taken. It is strict: a datagram a conforming BMC would drop gets
// a Problem and no reply.
package refbmc

import (
	"bytes"
	"crypto/aes"
	"crypto/cipher"
	"crypto/hmac"
	"crypto/md5"
	"crypto/sha1"
	"crypto/sha256"
	"encoding/binary"
	"fmt"
	"hash"
	"sync"
)

// Suite is an (authentication, integrity, confidentiality) algorithm triple,
// as the 6-bit numbers of IPMI v2.0 tables 13-17..13-19.
type Suite struct{ Auth, Integ, Conf byte }

func (s Suite) String() string { return fmt.Sprintf("%d/%d/%d", s.Auth, s.Integ, s.Conf) }

// Config is the BMC's persistent configuration.
type Config struct {
	Username string
	Password []byte // up to 20 bytes; zero-padded to 20 as stored by a BMC
	KG       []byte // nil (two-key login disabled) or 20 bytes
	GUID     [16]byte
	Rc       [16]byte // managed system random number for the next handshake
	SID      uint32   // managed system session ID handed out
	Suites   []Suite  // proposals the BMC accepts in Open Session
	// MaxPriv is the privilege echoed in Open Session Response when the console
	// asks for "highest" (0).
	MaxPriv byte
	// XRC4 makes the BMC accept the xRC4 confidentiality algorithms (2, 3) in
	// Open Session; it cannot serve in-session traffic for them.
	XRC4 bool
	// RoleXor is XORed into the role byte of RAKP 1 before it enters any hash.
	RoleXor byte
}

// Event is one received datagram, as parsed by the BMC.
type Event struct {
	N        int
	Kind     string // "sessionless-ipmi", "open", "rakp1", "rakp3", "session-ipmi", "bad"
	Raw      []byte
	PType    byte
	Enc      bool
	Auth     bool
	SID      uint32
	Seq      uint32
	Payload  []byte // session payload as received (ciphertext for encrypted packets)
	IV       []byte
	Plain    []byte // decrypted/plain IPMI message
	RsAddr   byte
	NetFn    byte
	RsLUN    byte
	RqAddr   byte
	RqSeq    byte
	RqLUN    byte
	Cmd      byte
	Data     []byte // bytes after the command byte, before checksum 2
	Problem  string // non-empty: a conforming BMC would drop this datagram
	Accepted bool
	Reply    []byte
}

// Session is the BMC's view of one RMCP+ session.
type Session struct {
	ConsoleSID  uint32
	BMCSID      uint32
	Suite       Suite
	Rm          [16]byte
	Rc          [16]byte
	Role        byte
	User        []byte
	SIK, K1, K2 []byte
	Active      bool
	OutSeq      uint32
	ReqPriv     byte
	ivCtr       uint32
	seenSeq     map[uint32]bool // inbound session sequence numbers accepted so far
}

// Handler produces the completion code and response data for an accepted IPMI
// request. ok=false means "not mine" (used by Chain).
type Handler func(ev *Event) (cc byte, rsp []byte, ok bool)

// BMC is one simulated managed system.
type BMC struct {
	mu      sync.Mutex
	Cfg     Config
	Sess    *Session
	Log     []Event
	Handler Handler
	// NoReply, when set, is consulted after an IPMI request was accepted and
	// its reply built; returning true drops the reply.
	KeepLog bool
	nEvents int
	// Counters by kind (kept even when the log is trimmed).
	Counts map[string]int
}

// ForgetSequenceNumbers empties the duplicate window of the active session (a
// window that has slid past everything seen so far).
func (b *BMC) ForgetSequenceNumbers() {
	b.mu.Lock()
	if b.Sess != nil {
		b.Sess.seenSeq = nil
	}
	b.mu.Unlock()
}

func New(cfg Config) *BMC {
	return &BMC{Cfg: cfg, KeepLog: true, Counts: map[string]int{}}
}

func HashFor(auth byte) func() hash.Hash {
	switch auth {
	case 1:
		return sha1.New
	case 2:
		return md5.New
	case 3:
		return sha256.New
	}
	return nil
}

// IntegFor returns the hash constructor and truncated AuthCode length of an
// integrity algorithm.
func IntegFor(integ byte) (func() hash.Hash, int) {
	switch integ {
	case 1:
		return sha1.New, 12
	case 2:
		return md5.New, 16
	case 4:
		return sha256.New, 16
	}
	return nil, 0
}

// ICVLen is the length of the RAKP 4 integrity check value per authentication
// algorithm (HMAC-SHA1-96, HMAC-MD5-128, HMAC-SHA256-128).
func ICVLen(auth byte) int {
	switch auth {
	case 1:
		return 12
	case 2:
		return 16
	case 3:
		return 16
	}
	return 0
}

func pad20(b []byte) []byte { o := make([]byte, 20); copy(o, b); return o }

// Mac is HMAC over the concatenation of parts.
func Mac(h func() hash.Hash, key []byte, parts ...[]byte) []byte {
	m := hmac.New(h, key)
	for _, p := range parts {
		m.Write(p)
	}
	return m.Sum(nil)
}

func LE32(v uint32) []byte { b := make([]byte, 4); binary.LittleEndian.PutUint32(b, v); return b }
func LE16(v uint16) []byte { return []byte{byte(v), byte(v >> 8)} }

// Csum is the IPMI two's complement checksum.
func Csum(b []byte) byte {
	var s int
	for _, x := range b {
		s += int(x)
	}
	return byte((256 - s%256) % 256)
}

// RMCP prefixes the RMCP header (version 6, reserved, no-ACK sequence, class IPMI).
func RMCP(payload []byte) []byte { return append([]byte{6, 0, 0xff, 7}, payload...) }

// SessHdr builds an RMCP+ session header + payload without trailer.
func SessHdr(ptype byte, sid, seq uint32, payload []byte) []byte {
	h := []byte{6, ptype}
	h = append(h, LE32(sid)...)
	h = append(h, LE32(seq)...)
	h = append(h, byte(len(payload)), byte(len(payload)>>8))
	return append(h, payload...)
}

// Handle processes one datagram and returns the reply (nil = no reply).
func (b *BMC) Handle(pkt []byte) []byte {
	b.mu.Lock()
	defer b.mu.Unlock()
	ev := Event{Raw: append([]byte(nil), pkt...), N: b.nEvents}
	b.nEvents++
	reply := b.handle(&ev, ev.Raw)
	ev.Reply = reply
	b.Counts[ev.Kind]++
	if ev.Problem != "" {
		b.Counts["problem"]++
	}
	if b.KeepLog {
		b.Log = append(b.Log, ev)
	}
	return reply
}

// Events returns a copy of the log.
func (b *BMC) Events() []Event {
	b.mu.Lock()
	defer b.mu.Unlock()
	return append([]Event(nil), b.Log...)
}

// Last returns a copy of the most recent event (nil if none).
func (b *BMC) Last() *Event {
	b.mu.Lock()
	defer b.mu.Unlock()
	if len(b.Log) == 0 {
		return nil
	}
	e := b.Log[len(b.Log)-1]
	return &e
}

// Len is the number of logged events.
func (b *BMC) Len() int {
	b.mu.Lock()
	defer b.mu.Unlock()
	return len(b.Log)
}

// Since returns a copy of the events from index i on.
func (b *BMC) Since(i int) []Event {
	b.mu.Lock()
	defer b.mu.Unlock()
	if i > len(b.Log) {
		i = len(b.Log)
	}
	return append([]Event(nil), b.Log[i:]...)
}

func (b *BMC) ResetLog() {
	b.mu.Lock()
	b.Log = nil
	b.mu.Unlock()
}

func (b *BMC) handle(ev *Event, pkt []byte) []byte {
	if len(pkt) < 4 || pkt[0] != 6 || pkt[1] != 0 || pkt[2] != 0xff || pkt[3] != 7 {
		ev.Kind, ev.Problem = "bad", "rmcp header"
		return nil
	}
	s := pkt[4:]
	if len(s) < 12 || s[0] != 6 {
		ev.Kind, ev.Problem = "bad", "not an RMCP+ session header"
		return nil
	}
	ptype := s[1] & 0x3f
	ev.PType = ptype
	ev.Enc, ev.Auth = s[1]&0x80 != 0, s[1]&0x40 != 0
	if ptype == 2 {
		ev.Kind, ev.Problem = "bad", "OEM payload not supported"
		return nil
	}
	sid := binary.LittleEndian.Uint32(s[2:6])
	seq := binary.LittleEndian.Uint32(s[6:10])
	plen := int(binary.LittleEndian.Uint16(s[10:12]))
	ev.SID, ev.Seq = sid, seq
	if len(s) < 12+plen {
		ev.Kind, ev.Problem = "bad", "payload length exceeds datagram"
		return nil
	}
	payload := s[12 : 12+plen]
	ev.Payload = payload
	setup := func(kind string) bool {
		ev.Kind = kind
		if sid != 0 || seq != 0 || ev.Enc || ev.Auth || len(s) != 12+plen {
			ev.Problem = "session setup payload must be unprotected with SID 0, sequence 0 and no trailer"
			return false
		}
		return true
	}
	switch {
	case ptype == 0 && sid == 0:
		ev.Kind = "sessionless-ipmi"
		if ev.Enc || ev.Auth || seq != 0 || len(s) != 12+plen {
			ev.Problem = "sessionless packet with flags, sequence or trailer"
			return nil
		}
		ev.Plain = payload
		return b.ipmi(ev, payload, func(m []byte) []byte { return RMCP(SessHdr(0, 0, 0, m)) })
	case ptype == 0x10:
		if !setup("open") {
			return nil
		}
		return b.open(ev, payload)
	case ptype == 0x12:
		if !setup("rakp1") {
			return nil
		}
		return b.rakp1(ev, payload)
	case ptype == 0x14:
		if !setup("rakp3") {
			return nil
		}
		return b.rakp3(ev, payload)
	case ptype == 0:
		ev.Kind = "session-ipmi"
		return b.inSession(ev, s, plen)
	}
	ev.Kind, ev.Problem = "bad", fmt.Sprintf("unexpected payload type %#x", ptype)
	return nil
}

func algPayload(p []byte, typ byte) (byte, string) {
	if p[0] != typ || p[1] != 0 || p[2] != 0 || p[3] != 8 || p[5] != 0 || p[6] != 0 || p[7] != 0 {
		return 0, fmt.Sprintf("algorithm payload %d malformed: % x", typ, p)
	}
	if p[4]&0xc0 != 0 {
		return 0, "algorithm number has reserved bits set"
	}
	return p[4], ""
}

func (b *BMC) open(ev *Event, p []byte) []byte {
	if len(p) != 32 {
		ev.Problem = fmt.Sprintf("open session request is 32 bytes, got %d", len(p))
		return nil
	}
	tag, priv := p[0], p[1]
	if priv&0xf0 != 0 || p[2] != 0 || p[3] != 0 {
		ev.Problem = "open session request reserved bits set"
		return nil
	}
	csid := binary.LittleEndian.Uint32(p[4:8])
	var su Suite
	var prob string
	if su.Auth, prob = algPayload(p[8:16], 0); prob != "" {
		ev.Problem = prob
		return nil
	}
	if su.Integ, prob = algPayload(p[16:24], 1); prob != "" {
		ev.Problem = prob
		return nil
	}
	if su.Conf, prob = algPayload(p[24:32], 2); prob != "" {
		ev.Problem = prob
		return nil
	}
	ev.Accepted = true
	ok := false
	for _, x := range b.Cfg.Suites {
		if x == su {
			ok = true
		}
	}
	if !ok {
		// status 0x11: no cipher suite match
		return RMCP(SessHdr(0x11, 0, 0, append([]byte{tag, 0x11, 0, 0}, LE32(csid)...)))
	}
	errRsp := func(status byte) []byte {
		return RMCP(SessHdr(0x11, 0, 0, append([]byte{tag, status, 0, 0}, LE32(csid)...)))
	}
	if su.Auth != 0 && HashFor(su.Auth) == nil {
		return errRsp(0x04) // invalid authentication algorithm
	}
	if _, n := IntegFor(su.Integ); su.Integ != 0 && n == 0 {
		return errRsp(0x05) // invalid integrity algorithm
	}
	if su.Conf > 1 && !(b.Cfg.XRC4 && su.Conf <= 3) {
		return errRsp(0x10) // invalid confidentiality algorithm
	}
	if priv == 0 {
		priv = b.Cfg.MaxPriv
		if priv == 0 {
			priv = 4
		}
	}
	b.Sess = &Session{ConsoleSID: csid, BMCSID: b.Cfg.SID, Suite: su, Rc: b.Cfg.Rc, ReqPriv: priv}
	return RMCP(SessHdr(0x11, 0, 0, OpenRsp(tag, 0, priv, csid, b.Cfg.SID, su)))
}

// OpenRsp encodes a successful RMCP+ Open Session Response.
func OpenRsp(tag, status, priv byte, csid, bsid uint32, su Suite) []byte {
	r := []byte{tag, status, priv, 0}
	r = append(r, LE32(csid)...)
	r = append(r, LE32(bsid)...)
	r = append(r, 0, 0, 0, 8, su.Auth, 0, 0, 0)
	r = append(r, 1, 0, 0, 8, su.Integ, 0, 0, 0)
	r = append(r, 2, 0, 0, 8, su.Conf, 0, 0, 0)
	return r
}

func (b *BMC) rakp1(ev *Event, p []byte) []byte {
	se := b.Sess
	if se == nil {
		ev.Problem = "rakp1 without open session"
		return nil
	}
	if len(p) < 28 || len(p) != 28+int(p[27]) || p[27] > 16 {
		ev.Problem = fmt.Sprintf("rakp1 length %d inconsistent", len(p))
		return nil
	}
	if p[1] != 0 || p[2] != 0 || p[3] != 0 || p[25] != 0 || p[26] != 0 || p[24]&0xe0 != 0 {
		ev.Problem = "rakp1 reserved bits set"
		return nil
	}
	tag := p[0]
	if binary.LittleEndian.Uint32(p[4:8]) != se.BMCSID {
		ev.Problem = "rakp1 managed system session ID unknown"
		return nil
	}
	if se.Active {
		// the ID belongs to a session whose establishment has completed (RAKP 3 was accepted): it no
		// longer names an exchange in progress, and a new one starts with an Open Session Request
		ev.Problem = "rakp1 for a session ID whose establishment has already completed"
		return RMCP(SessHdr(0x13, 0, 0, append([]byte{tag, 0x02, 0, 0}, LE32(se.ConsoleSID)...)))
	}
	ev.Accepted = true
	copy(se.Rm[:], p[8:24])
	// RoleXor models a peer that hashes another role byte than the one it was sent
	se.Role = p[24] ^ b.Cfg.RoleXor
	se.User = append([]byte(nil), p[28:]...)
	if string(se.User) != b.Cfg.Username {
		return RMCP(SessHdr(0x13, 0, 0, append([]byte{tag, 0x0d, 0, 0}, LE32(se.ConsoleSID)...)))
	}
	if se.Suite.Auth == 0 {
		r := append([]byte{tag, 0, 0, 0}, LE32(se.ConsoleSID)...)
		r = append(r, se.Rc[:]...)
		r = append(r, b.Cfg.GUID[:]...)
		return RMCP(SessHdr(0x13, 0, 0, r))
	}
	h := HashFor(se.Suite.Auth)
	r := []byte{tag, 0, 0, 0}
	r = append(r, LE32(se.ConsoleSID)...)
	r = append(r, se.Rc[:]...)
	r = append(r, b.Cfg.GUID[:]...)
	ac := Mac(h, pad20(b.Cfg.Password), LE32(se.ConsoleSID), LE32(se.BMCSID), se.Rm[:], se.Rc[:], b.Cfg.GUID[:], []byte{se.Role, byte(len(se.User))}, se.User)
	r = append(r, ac...)
	return RMCP(SessHdr(0x13, 0, 0, r))
}

func (b *BMC) rakp3(ev *Event, p []byte) []byte {
	se := b.Sess
	if se == nil || len(p) < 8 {
		ev.Problem = "rakp3 too short or no session"
		return nil
	}
	if p[2] != 0 || p[3] != 0 {
		ev.Problem = "rakp3 reserved bytes set"
		return nil
	}
	tag := p[0]
	if binary.LittleEndian.Uint32(p[4:8]) != se.BMCSID {
		ev.Problem = "rakp3 managed system session ID unknown"
		return nil
	}
	fail := func(status byte, why string) []byte {
		ev.Problem = why
		b.Sess = nil
		return RMCP(SessHdr(0x15, 0, 0, append([]byte{tag, status, 0, 0}, LE32(se.ConsoleSID)...)))
	}
	if p[1] != 0 {
		return fail(p[1], "rakp3 carries error status")
	}
	if se.Suite.Auth == 0 {
		if len(p) != 8 {
			return fail(0x0f, "rakp3 authcode with RAKP-none")
		}
		se.Active = true
		ev.Accepted = true
		return RMCP(SessHdr(0x15, 0, 0, append([]byte{tag, 0, 0, 0}, LE32(se.ConsoleSID)...)))
	}
	h := HashFor(se.Suite.Auth)
	want := Mac(h, pad20(b.Cfg.Password), se.Rc[:], LE32(se.ConsoleSID), []byte{se.Role, byte(len(se.User))}, se.User)
	if !bytes.Equal(p[8:], want) {
		return fail(0x0f, "rakp3 key exchange authentication code wrong")
	}
	ev.Accepted = true
	kg := b.Cfg.KG
	if len(kg) == 0 {
		kg = pad20(b.Cfg.Password)
	}
	se.SIK = Mac(h, kg, se.Rm[:], se.Rc[:], []byte{se.Role, byte(len(se.User))}, se.User)
	se.K1 = Mac(h, se.SIK, bytes.Repeat([]byte{1}, 20))
	se.K2 = Mac(h, se.SIK, bytes.Repeat([]byte{2}, 20))
	icv := Mac(h, se.SIK, se.Rm[:], LE32(se.BMCSID), b.Cfg.GUID[:])[:ICVLen(se.Suite.Auth)]
	se.Active = true
	r := append([]byte{tag, 0, 0, 0}, LE32(se.ConsoleSID)...)
	return RMCP(SessHdr(0x15, 0, 0, append(r, icv...)))
}

// VerifySession checks one in-session datagram (starting at the session
// header, RMCP removed) the way a strict BMC does and returns the plain IPMI
// message, or a problem description.
func (se *Session) VerifySession(s []byte) (plain, iv []byte, problem string) {
	if len(s) < 12 {
		return nil, nil, "short"
	}
	enc, auth := s[1]&0x80 != 0, s[1]&0x40 != 0
	plen := int(binary.LittleEndian.Uint16(s[10:12]))
	if len(s) < 12+plen {
		return nil, nil, "payload length exceeds datagram"
	}
	payload := s[12 : 12+plen]
	ih, il := IntegFor(se.Suite.Integ)
	if se.Suite.Integ != 0 {
		if ih == nil {
			return nil, nil, "unsupported integrity algorithm in simulated BMC"
		}
		if !auth {
			return nil, nil, "packet not authenticated in a session with integrity"
		}
		rest := s[12+plen:]
		pad := (4 - (12+plen+2)%4) % 4
		if len(rest) != pad+2+il {
			return nil, nil, fmt.Sprintf("session trailer is %d bytes, want %d pad + 2 + %d authcode", len(rest), pad, il)
		}
		for i := 0; i < pad; i++ {
			if rest[i] != 0xff {
				return nil, nil, "integrity pad byte is not 0xFF"
			}
		}
		if int(rest[pad]) != pad {
			return nil, nil, "pad length byte wrong"
		}
		if rest[pad+1] != 7 {
			return nil, nil, "next header byte is not 0x07"
		}
		want := Mac(ih, se.K1, s[:12+plen+pad+2])[:il]
		if !bytes.Equal(want, rest[pad+2:]) {
			return nil, nil, "authcode does not verify under K1"
		}
	} else {
		if auth {
			return nil, nil, "authenticated flag set without integrity algorithm"
		}
		if len(s) != 12+plen {
			return nil, nil, "trailer present on unauthenticated packet"
		}
	}
	if se.Suite.Conf == 1 {
		if !enc {
			return nil, nil, "packet not encrypted in a session with confidentiality"
		}
		if plen < 32 || plen%16 != 0 {
			return nil, nil, fmt.Sprintf("encrypted payload length %d is not IV + a positive multiple of 16", plen)
		}
		c, _ := aes.NewCipher(se.K2[:16])
		iv = append([]byte(nil), payload[:16]...)
		pt := make([]byte, plen-16)
		cipher.NewCBCDecrypter(c, payload[:16]).CryptBlocks(pt, payload[16:])
		n := int(pt[len(pt)-1])
		if n > 15 || n+1 > len(pt) {
			return nil, iv, fmt.Sprintf("confidentiality pad length %d invalid (decryption failed or bad pad)", n)
		}
		for i := 0; i < n; i++ {
			if pt[len(pt)-1-n+i] != byte(i+1) {
				return nil, iv, "confidentiality pad bytes are not 01,02,..."
			}
		}
		return pt[:len(pt)-1-n], iv, ""
	}
	if se.Suite.Conf != 0 {
		return nil, nil, "unsupported confidentiality algorithm in simulated BMC"
	}
	if enc {
		return nil, nil, "encrypted flag set without confidentiality algorithm"
	}
	return payload, nil, ""
}

func (b *BMC) inSession(ev *Event, s []byte, plen int) []byte {
	se := b.Sess
	if se == nil || !se.Active || ev.SID != se.BMCSID {
		ev.Problem = fmt.Sprintf("no active session with ID %#x", ev.SID)
		return nil
	}
	plain, iv, prob := se.VerifySession(s)
	ev.IV = iv
	if prob != "" {
		ev.Problem = prob
		return nil
	}
	// sliding window (6.12.13): a sequence number that was already accepted is a
	// duplicate and is silently dropped
	if se.seenSeq == nil {
		se.seenSeq = map[uint32]bool{}
	}
	if se.seenSeq[ev.Seq] {
		ev.Problem = fmt.Sprintf("session sequence number %d was already used on this session: duplicate dropped", ev.Seq)
		return nil
	}
	se.seenSeq[ev.Seq] = true
	ev.Plain = plain
	return b.ipmi(ev, plain, func(m []byte) []byte { return se.Wrap(m, WrapOpts{}) })
}

// WrapOpts lets a check forge deviations of an authentic in-session reply.
type WrapOpts struct {
	SID         *uint32 // override the session ID the packet is addressed to
	Seq         *uint32
	NoAuthFlag  bool   // clear the authenticated flag, keep the trailer
	DropTrailer bool   // remove pad/next-header/authcode entirely
	NoEncrypt   bool   // send the message in the clear (flag cleared)
	EncFlagOnly bool   // set the encrypted flag but do not encrypt
	Key1        []byte // sign with this key instead of K1
	AuthCode    []byte // use these bytes as the AuthCode
	AuthCodeSet bool
	RawPlain    []byte // plaintext block(s) to encrypt verbatim (no padding added); len%16==0
	IV          []byte
	PadByte     byte // integrity pad byte value (default 0xFF)
	PadByteSet  bool
}

// Wrap builds an in-session datagram (RMCP included) from the BMC to the console.
func (se *Session) Wrap(m []byte, o WrapOpts) []byte {
	se.OutSeq++
	seq := se.OutSeq
	if o.Seq != nil {
		seq = *o.Seq
	}
	sid := se.ConsoleSID
	if o.SID != nil {
		sid = *o.SID
	}
	ptype := byte(0)
	payload := m
	if (se.Suite.Conf == 1 && !o.NoEncrypt) || o.RawPlain != nil {
		ptype |= 0x80
		if !o.EncFlagOnly {
			var pt []byte
			if o.RawPlain != nil {
				pt = o.RawPlain
			} else {
				n := (16 - (len(m)+1)%16) % 16
				pt = append([]byte(nil), m...)
				for i := 0; i < n; i++ {
					pt = append(pt, byte(i+1))
				}
				pt = append(pt, byte(n))
			}
			iv := o.IV
			if iv == nil {
				se.ivCtr++
				iv = Mac(sha256.New, se.K2, []byte("refbmc-iv"), LE32(se.ivCtr), LE32(seq))[:16]
			}
			c, _ := aes.NewCipher(se.K2[:16])
			ct := make([]byte, len(pt))
			cipher.NewCBCEncrypter(c, iv).CryptBlocks(ct, pt)
			payload = append(append([]byte(nil), iv...), ct...)
		}
	}
	ih, il := IntegFor(se.Suite.Integ)
	if ih != nil && !o.NoAuthFlag {
		ptype |= 0x40
	}
	s := SessHdr(ptype, sid, seq, payload)
	if ih != nil && !o.DropTrailer {
		pad := (4 - (len(s)+2)%4) % 4
		pb := byte(0xff)
		if o.PadByteSet {
			pb = o.PadByte
		}
		for i := 0; i < pad; i++ {
			s = append(s, pb)
		}
		s = append(s, byte(pad), 7)
		key := se.K1
		if o.Key1 != nil {
			key = o.Key1
		}
		ac := Mac(ih, key, s)[:il]
		if o.AuthCodeSet {
			ac = o.AuthCode
		}
		s = append(s, ac...)
	}
	return RMCP(s)
}

// ParseMsg splits an IPMI request message; ok=false if it is not checksum-valid.
func ParseMsg(ev *Event, m []byte) string {
	if len(m) < 7 {
		return fmt.Sprintf("IPMI message is %d bytes, minimum 7", len(m))
	}
	if Csum(m[:2]) != m[2] {
		return "IPMI message checksum 1 wrong"
	}
	if Csum(m[3:len(m)-1]) != m[len(m)-1] {
		return "IPMI message checksum 2 wrong"
	}
	ev.RsAddr, ev.NetFn, ev.RsLUN = m[0], m[1]>>2, m[1]&3
	ev.RqAddr, ev.RqSeq, ev.RqLUN = m[3], m[4]>>2, m[4]&3
	ev.Cmd = m[5]
	ev.Data = append([]byte(nil), m[6:len(m)-1]...)
	return ""
}

// RespMsg builds the response message for a request event.
func RespMsg(ev *Event, cc byte, rsp []byte) []byte {
	return BuildRsp(ev.RqAddr, ev.NetFn+1, ev.RqLUN, ev.RsAddr, ev.RqSeq, ev.RsLUN, ev.Cmd, cc, rsp)
}

// BuildRsp encodes an IPMI response message with both checksums.
func BuildRsp(rqAddr, netfn, rqLUN, rsAddr, rqSeq, rsLUN, cmd, cc byte, rsp []byte) []byte {
	r := []byte{rqAddr, netfn<<2 | rqLUN&3, 0, rsAddr, rqSeq<<2 | rsLUN&3, cmd, cc}
	r[2] = Csum(r[:2])
	r = append(r, rsp...)
	return append(r, Csum(r[3:]))
}

func (b *BMC) ipmi(ev *Event, m []byte, wrap func([]byte) []byte) []byte {
	if prob := ParseMsg(ev, m); prob != "" {
		ev.Problem = prob
		return nil
	}
	if ev.RsAddr != 0x20 {
		ev.Problem = fmt.Sprintf("responder address %#x is not the BMC (0x20)", ev.RsAddr)
		return nil
	}
	if ev.NetFn&1 != 0 {
		ev.Problem = fmt.Sprintf("network function %#x is a response", ev.NetFn)
		return nil
	}
	if ev.RqAddr != 0x81 {
		ev.Problem = fmt.Sprintf("requester address %#x is not remote console software ID 0x81", ev.RqAddr)
		return nil
	}
	ev.Accepted = true
	cc, rsp := byte(0xc1), []byte(nil)
	if b.Handler != nil {
		if c, r, ok := b.Handler(ev); ok {
			cc, rsp = c, r
		}
	}
	// Close Session inside the session takes effect after the reply is built.
	reply := wrap(RespMsg(ev, cc, rsp))
	if ev.Kind == "session-ipmi" && ev.NetFn == 6 && ev.Cmd == 0x3c && cc == 0 && b.Sess != nil {
		b.Sess.Active = false
	}
	return reply
}

// Chain tries handlers in order.
func Chain(hs ...Handler) Handler {
	return func(ev *Event) (byte, []byte, bool) {
		for _, h := range hs {
			if h == nil {
				continue
			}
			if cc, r, ok := h(ev); ok {
				return cc, r, true
			}
		}
		return 0, nil, false
	}
}

// Fixed answers one (netfn, cmd) with a fixed completion code and body.
func Fixed(netfn, cmd, cc byte, body []byte) Handler {
	return func(ev *Event) (byte, []byte, bool) {
		if ev.NetFn == netfn && ev.Cmd == cmd {
			return cc, body, true
		}
		return 0, nil, false
	}
}
