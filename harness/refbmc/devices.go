package refbmc

import (
	"encoding/binary"
	"sync"
)

// SDRRecord is one record of the simulated repository. Body is everything
// after the 5-byte header (record key + record body).
type SDRRecord struct {
	ID   uint16
	Type byte
	Body []byte
}

// Full returns header + body as stored in the repository.
func (r SDRRecord) Full() []byte {
	o := []byte{byte(r.ID), byte(r.ID >> 8), 0x51, r.Type, byte(len(r.Body))}
	return append(o, r.Body...)
}

// RepoReq is one request served by the repository device, with the repository
// version and reservation in force when it was served.
type RepoReq struct {
	Kind     string // "info", "reserve", "getsdr"
	Version  int
	Resv     uint16 // reservation in force
	ReqResv  uint16
	RecID    uint16
	ServedID uint16
	Off, Len byte
	CC       byte
	NthGet   int
	// AddTS, EraseTS: the timestamps reported (info requests only)
	AddTS, EraseTS uint32
}

// Repo is a stateful, versioned SDR repository device (IPMI v2.0 section 33).
type Repo struct {
	mu         sync.Mutex
	Recs       []SDRRecord
	Resv       uint16
	AddTS      uint32
	EraseTS    uint32
	Version    int
	History    map[int][]SDRRecord
	ResvVer    map[uint16]int // reservation -> version it was issued in
	Log        []RepoReq
	nGet       int
	nInfo      int
	BeforeGet  func(nth int, r *Repo) // called (locked) before serving the nth Get SDR
	BeforeInfo func(nth int, r *Repo) // called (locked) before serving the nth Get SDR Repository Info
	// OpSupport (when OpSupportSet) is the operation support byte of Get SDR Repository Info.
	OpSupport    byte
	OpSupportSet bool
	// KeepStamps: modifications leave both timestamps as they are.
	KeepStamps bool
	// StampFn, when set, gives the timestamp a modification is stamped with
	// (from the stamp it replaces); default: a few seconds later.
	StampFn func(old uint32) uint32
	// LenientLength makes over-long reads return what is there instead of 0xCA.
	LenientLength bool
	// ReservationOnPartialOnly: the reservation ID is checked for reads at a non-zero offset only
	// (all the specification requires); by default every partial read is checked.
	ReservationOnPartialOnly bool
}

func NewRepo(recs []SDRRecord, ts uint32) *Repo {
	r := &Repo{Recs: recs, AddTS: ts, EraseTS: ts - 1000, History: map[int][]SDRRecord{}, ResvVer: map[uint16]int{}, Resv: 0x1000}
	r.History[0] = append([]SDRRecord(nil), recs...)
	return r
}

// Modify installs new contents as a new version: bumps the addition (or erase)
// timestamp and, as a conforming BMC does, cancels the reservation.
func (r *Repo) ModifyLocked(recs []SDRRecord, erase, cancelResv bool) {
	r.Version++
	r.Recs = recs
	r.History[r.Version] = append([]SDRRecord(nil), recs...)
	if r.KeepStamps {
		// a BMC that renumbers or rewrites records without touching its timestamps: only the
		// cancelled reservation tells the console
		if cancelResv {
			r.Resv += 0x101
		}
		return
	}
	stamp := func(old uint32) uint32 {
		if r.StampFn != nil {
			return r.StampFn(old)
		}
		return old + 1 + uint32(r.Version%3)
	}
	if erase {
		r.EraseTS = stamp(r.EraseTS)
	} else {
		r.AddTS = stamp(r.AddTS)
	}
	if cancelResv {
		r.Resv += 0x101
	}
}

// CancelLocked invalidates the current reservation without changing contents.
func (r *Repo) CancelLocked() { r.Resv += 0x101 }

func (r *Repo) Requests() []RepoReq {
	r.mu.Lock()
	defer r.mu.Unlock()
	return append([]RepoReq(nil), r.Log...)
}

func (r *Repo) Handle(ev *Event) (byte, []byte, bool) {
	if ev.NetFn != 0x0a {
		return 0, nil, false
	}
	r.mu.Lock()
	defer r.mu.Unlock()
	d := ev.Data
	switch ev.Cmd {
	case 0x20:
		r.nInfo++
		if r.BeforeInfo != nil {
			r.BeforeInfo(r.nInfo, r)
		}
		o := make([]byte, 14)
		o[0] = 0x51
		binary.LittleEndian.PutUint16(o[1:], uint16(len(r.Recs)))
		binary.LittleEndian.PutUint16(o[3:], 0x0123)
		binary.LittleEndian.PutUint32(o[5:], r.AddTS)
		binary.LittleEndian.PutUint32(o[9:], r.EraseTS)
		o[13] = 0x2a // non-modal update, delete, reserve supported
		if r.OpSupportSet {
			o[13] = r.OpSupport
		}
		r.Log = append(r.Log, RepoReq{Kind: "info", Version: r.Version, Resv: r.Resv, AddTS: r.AddTS, EraseTS: r.EraseTS})
		return 0, o, true
	case 0x22:
		r.Resv++
		if r.Resv == 0 {
			r.Resv = 1
		}
		r.ResvVer[r.Resv] = r.Version
		r.Log = append(r.Log, RepoReq{Kind: "reserve", Version: r.Version, Resv: r.Resv})
		return 0, []byte{byte(r.Resv), byte(r.Resv >> 8)}, true
	case 0x23:
		r.nGet++
		if r.BeforeGet != nil {
			r.BeforeGet(r.nGet, r)
		}
		rq := RepoReq{Kind: "getsdr", Version: r.Version, Resv: r.Resv, NthGet: r.nGet}
		fin := func(cc byte, rsp []byte) (byte, []byte, bool) {
			rq.CC = cc
			r.Log = append(r.Log, rq)
			return cc, rsp, true
		}
		if len(d) != 6 {
			return fin(0xc7, nil)
		}
		resv := binary.LittleEndian.Uint16(d[0:])
		id := binary.LittleEndian.Uint16(d[2:])
		off, n := int(d[4]), int(d[5])
		rq.ReqResv, rq.RecID, rq.Off, rq.Len = resv, id, d[4], d[5]
		partial := off != 0 || n != 0xff
		if r.ReservationOnPartialOnly {
			// the reservation ID is only required for reads at a non-zero offset (33.12): this BMC
			// ignores it otherwise
			partial = off != 0
		}
		if partial && resv != r.Resv {
			return fin(0xc5, nil)
		}
		idx := -1
		switch {
		case len(r.Recs) == 0:
		case id == 0:
			idx = 0
		case id == 0xffff:
			idx = len(r.Recs) - 1
		default:
			for i, x := range r.Recs {
				if x.ID == id {
					idx = i
				}
			}
		}
		if idx < 0 {
			return fin(0xcb, nil)
		}
		x := r.Recs[idx]
		rq.ServedID = x.ID
		full := x.Full()
		next := uint16(0xffff)
		if idx+1 < len(r.Recs) {
			next = r.Recs[idx+1].ID
		}
		if off >= len(full) {
			return fin(0xc9, nil)
		}
		end := off + n
		if n == 0xff {
			end = len(full)
		}
		if end > len(full) {
			if !r.LenientLength {
				return fin(0xca, nil)
			}
			end = len(full)
		}
		return fin(0, append([]byte{byte(next), byte(next >> 8)}, full[off:end]...))
	}
	return 0, nil, false
}

// CipherSuiteServer serves Get Channel Cipher Suites from raw record bytes in
// 16-byte chunks addressed by list index.
type CipherSuiteServer struct {
	mu       sync.Mutex
	Data     []byte
	Channel  byte
	Requests []byte // list indices requested, in order
	Bad      int    // requests that were malformed
}

func (c *CipherSuiteServer) Handle(ev *Event) (byte, []byte, bool) {
	if ev.NetFn != 6 || ev.Cmd != 0x54 {
		return 0, nil, false
	}
	c.mu.Lock()
	defer c.mu.Unlock()
	d := ev.Data
	if len(d) != 3 || d[0]&0xf0 != 0 || d[1]&0xc0 != 0 || d[2]&0x40 != 0 {
		c.Bad++
		return 0xcc, nil, true
	}
	if d[2]&0x80 == 0 {
		// list supported algorithms instead of suites: not modelled
		c.Bad++
		return 0xcc, nil, true
	}
	idx := int(d[2] & 0x3f)
	c.Requests = append(c.Requests, byte(idx))
	ch := c.Channel
	if d[0] != 0x0e {
		ch = d[0]
	}
	lo, hi := idx*16, idx*16+16
	if lo > len(c.Data) {
		lo = len(c.Data)
	}
	if hi > len(c.Data) {
		hi = len(c.Data)
	}
	return 0, append([]byte{ch}, c.Data[lo:hi]...), true
}

// EncodeSuiteRecords encodes cipher suite records (table 22-19).
type SuiteRecord struct {
	ID     byte
	OEM    bool
	IANA   uint32
	Auth   byte
	Integs []byte
	Confs  []byte
}

func EncodeSuiteRecords(rs []SuiteRecord) []byte {
	var o []byte
	for _, r := range rs {
		if r.OEM {
			o = append(o, 0xc1, r.ID, byte(r.IANA), byte(r.IANA>>8), byte(r.IANA>>16))
		} else {
			o = append(o, 0xc0, r.ID)
		}
		o = append(o, r.Auth&0x3f)
		for _, i := range r.Integs {
			o = append(o, 0x40|i&0x3f)
		}
		for _, c := range r.Confs {
			o = append(o, 0x80|c&0x3f)
		}
	}
	return o
}

// SensorDevice serves Get Sensor Reading.
type SensorDevice struct {
	mu        sync.Mutex
	Readings  map[[2]byte][]byte // (LUN, number) -> response bytes (reading, flags, states...)
	Requests  [][2]byte
	failNext  byte
	failArmed bool
	failBody  []byte
}

func (s *SensorDevice) Set(lun, num byte, rsp []byte) {
	s.mu.Lock()
	if s.Readings == nil {
		s.Readings = map[[2]byte][]byte{}
	}
	s.Readings[[2]byte{lun, num}] = rsp
	s.mu.Unlock()
}

// FailNext makes the next Get Sensor Reading end with this completion code and no
// reading bytes (code 0: a normal completion with an empty body).
func (s *SensorDevice) FailNext(code byte) {
	s.mu.Lock()
	s.failNext, s.failArmed, s.failBody = code, true, nil
	s.mu.Unlock()
}

// FailNextWithBody is FailNext with response data left behind the error completion code
// (a BMC that does not cut its response short when it fails a command).
func (s *SensorDevice) FailNextWithBody(code byte, body []byte) {
	s.mu.Lock()
	s.failNext, s.failArmed, s.failBody = code, true, body
	s.mu.Unlock()
}

func (s *SensorDevice) Handle(ev *Event) (byte, []byte, bool) {
	if ev.NetFn != 4 || ev.Cmd != 0x2d {
		return 0, nil, false
	}
	s.mu.Lock()
	defer s.mu.Unlock()
	if s.failArmed {
		s.failArmed = false
		return s.failNext, s.failBody, true
	}
	if len(ev.Data) != 1 {
		return 0xc7, nil, true
	}
	k := [2]byte{ev.RsLUN, ev.Data[0]}
	s.Requests = append(s.Requests, k)
	r, ok := s.Readings[k]
	if !ok {
		return 0xcb, nil, true
	}
	return 0, r, true
}

// DCMISensorInfo serves DCMI Get DCMI Sensor Info (DCMI v1.5 6.5.2).
type DCMISensorInfo struct {
	mu sync.Mutex
	// IDs per (sensor type, entity ID): record IDs of instances 1..n.
	IDs      map[[2]byte][]uint16
	PageSize int           // record IDs per response, 1..8
	ErrFor   map[byte]byte // entity ID -> completion code to return instead
	// Overclaim: the total number of instances reported exceeds the record IDs the BMC
	// ever returns by this much (pages beyond the real ones come back empty)
	Overclaim int
	// ErrFrom: entity ID -> first instance start from which requests fail with 0xCE
	// (earlier pages are answered)
	ErrFrom  map[byte]int
	Requests []DCMIReq
}

type DCMIReq struct {
	Type, Entity, Instance, Start byte
}

func (d *DCMISensorInfo) Handle(ev *Event) (byte, []byte, bool) {
	if ev.NetFn != 0x2c || ev.Cmd != 0x07 {
		return 0, nil, false
	}
	d.mu.Lock()
	defer d.mu.Unlock()
	p := ev.Data
	if len(p) != 5 || p[0] != 0xdc {
		return 0xc7, []byte{0xdc}, true
	}
	rq := DCMIReq{p[1], p[2], p[3], p[4]}
	d.Requests = append(d.Requests, rq)
	if cc, ok := d.ErrFor[rq.Entity]; ok {
		return cc, []byte{0xdc}, true
	}
	if from, ok := d.ErrFrom[rq.Entity]; ok && rq.Instance == 0 && int(rq.Start) >= from {
		return 0xce, []byte{0xdc}, true
	}
	ids := d.IDs[[2]byte{rq.Type, rq.Entity}]
	total := len(ids)
	var page []uint16
	if rq.Instance != 0 {
		if int(rq.Instance) <= total {
			page = ids[rq.Instance-1 : rq.Instance]
		}
	} else {
		start := int(rq.Start)
		if start == 0 {
			// instance start is 1-based; 0 is out of range
			return 0xc9, []byte{0xdc}, true
		}
		ps := d.PageSize
		if ps <= 0 || ps > 200 {
			ps = 8
		}
		if start <= total {
			end := start - 1 + ps
			if end > total {
				end = total
			}
			page = ids[start-1 : end]
		}
	}
	claimed := total + d.Overclaim
	if claimed > 255 {
		claimed = 255
	}
	o := []byte{0xdc, byte(claimed), byte(len(page))}
	for _, id := range page {
		o = append(o, byte(id), byte(id>>8))
	}
	return 0, o, true
}
