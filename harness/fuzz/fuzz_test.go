//go:build verif

// Package fuzz holds the coverage-guided fuzz targets of C05's thorough tier
// (go test -fuzz). Each target hands its input to the oracle used by the
// enumerated rings of C05 (verifharness/checks) and fails on a violation.
package fuzz

import (
	"testing"

	"verifharness/checks"
)

func FuzzLayers(f *testing.F) {
	sels, datas := checks.FuzzSeedLayers()
	for i := range sels {
		f.Add(sels[i], datas[i])
	}
	f.Fuzz(func(t *testing.T, sel uint8, data []byte) {
		if v := checks.FuzzLayer(sel, data); v != "" {
			t.Fatal(v)
		}
	})
}

func FuzzPackets(f *testing.F) {
	_, datas := checks.FuzzSeedLayers()
	for i, d := range datas {
		f.Add(uint8(i%checks.FuzzPacketCount()), d)
	}
	// an RMCP + session-less wrapper + message, and the head of an authenticated wrapper
	f.Add(uint8(3), []byte{6, 0, 0xff, 7, 6, 0, 0, 0, 0, 0, 0, 0, 0, 0, 8, 0, 0x81, 0x1c, 0x63, 0x20, 4, 0x37, 0, 0xa5})
	f.Add(uint8(3), []byte{6, 0, 0xff, 7, 6, 0xc0, 1, 0, 0, 0, 1, 0, 0, 0, 0x20, 0})
	f.Fuzz(func(t *testing.T, sel uint8, data []byte) {
		if v := checks.FuzzPacket(sel, data); v != "" {
			t.Fatal(v)
		}
	})
}

func FuzzSuiteData(f *testing.F) {
	f.Add([]byte{0xc0, 0x03, 0x01, 0x41, 0x81})
	f.Add([]byte{0xc0, 0x11, 0x03, 0x44, 0x81, 0xc1, 0x90, 1, 2, 3, 0x01, 0x41, 0x42, 0x81, 0x82, 0xc0, 0x01, 0x00})
	f.Add([]byte{})
	f.Fuzz(func(t *testing.T, data []byte) {
		if v := checks.FuzzSuiteData(data); v != "" {
			t.Fatal(v)
		}
	})
}

func FuzzStrings(f *testing.F) {
	f.Add(uint8(4), []byte{0x29, 0xdc, 0xa6})
	f.Add(uint8(0), []byte{})
	f.Add(uint8(31), []byte("0123456789abcdef0123456789abcdef"))
	f.Fuzz(func(t *testing.T, c uint8, data []byte) {
		if v := checks.FuzzString(c, data); v != "" {
			t.Fatal(v)
		}
	})
}
