// Package udpbmc puts a refbmc behind a real UDP socket on loopback, with
// fault modes, so that the library's production transport (bmc.DialV2, the
// reused receive buffer, socket deadlines) is what is being observed.
package udpbmc

import (
	"fmt"
	"net"
	"os"
	"sync"
	"sync/atomic"
	"time"

	"verifharness/refbmc"
)

// Fault decides what happens to the reply of the n-th datagram received
// (1-based). It may return several datagrams (duplicates), none (black hole),
// and a delay before sending.
type Fault func(n int, req, reply []byte) (out [][]byte, delay time.Duration)

type Server struct {
	BMC    *refbmc.BMC
	Conn   *net.UDPConn
	mu     sync.Mutex
	fault  Fault
	n      int
	closed atomic.Bool
	wg     sync.WaitGroup
	// Received counts datagrams received.
	Received atomic.Int64
	jitter   func() time.Duration
	last     *net.UDPAddr
}

// Trickle sends the datagrams of out to the most recent client, one every gap,
// in the background (a BMC or a middlebox emitting stray datagrams over time).
func (s *Server) Trickle(out [][]byte, gap time.Duration) {
	s.mu.Lock()
	addr := s.last
	s.mu.Unlock()
	if addr == nil {
		return
	}
	s.wg.Add(1)
	go func() {
		defer s.wg.Done()
		for _, o := range out {
			time.Sleep(gap)
			if s.closed.Load() {
				return
			}
			s.Conn.WriteToUDP(o, addr)
		}
	}()
}

// SetJitter installs a function returning an extra delay per reply.
func (s *Server) SetJitter(f func() time.Duration) {
	s.mu.Lock()
	s.jitter = f
	s.mu.Unlock()
}

func Listen(b *refbmc.BMC) (*Server, error) {
	c, err := net.ListenUDP("udp4", &net.UDPAddr{IP: net.IPv4(127, 0, 0, 1)})
	if err != nil {
		return nil, err
	}
	s := &Server{BMC: b, Conn: c}
	s.wg.Add(1)
	go s.loop()
	return s, nil
}

// ListenV6 is Listen on the IPv6 loopback address ([::1]); it falls back to IPv4 when the
// host has no IPv6 loopback.
func ListenV6(b *refbmc.BMC) (*Server, error) {
	c, err := net.ListenUDP("udp6", &net.UDPAddr{IP: net.IPv6loopback})
	if err != nil {
		return Listen(b)
	}
	s := &Server{BMC: b, Conn: c}
	s.wg.Add(1)
	go s.loop()
	return s, nil
}

// ListenOutsideEphemeral is Listen (or ListenV6) on an explicitly chosen port below the kernel's
// ephemeral range. A case that closes its server to make the port dead must not find the port
// handed, moments later, to another server of this harness (same or another process) by a bind to
// port 0: ports outside ip_local_port_range are never handed out that way. A process walks the
// range from a starting point of its own (pid and start time), so that concurrent harness
// processes are unlikely to pick each other's dead ports either (callers still have to allow for
// it). Falls back to an ephemeral port when the range cannot be read.
func ListenOutsideEphemeral(b *refbmc.BMC, v6 bool) (*Server, bool, error) {
	lo := 0
	if raw, err := os.ReadFile("/proc/sys/net/ipv4/ip_local_port_range"); err == nil {
		fmt.Sscanf(string(raw), "%d", &lo)
	}
	const first = 10000
	if lo < first+5000 {
		s, err := pick(v6)(b)
		return s, false, err
	}
	size := int64(lo - first)
	reservedOnce.Do(func() {
		reservedStart = (int64(os.Getpid())*7919 + time.Now().UnixNano()/1000) % size
	})
	for try := 0; try < 60; try++ {
		port := first + int((reservedStart+reservedNext.Add(1))%size)
		var c *net.UDPConn
		var err error
		if v6 {
			c, err = net.ListenUDP("udp6", &net.UDPAddr{IP: net.IPv6loopback, Port: port})
		} else {
			c, err = net.ListenUDP("udp4", &net.UDPAddr{IP: net.IPv4(127, 0, 0, 1), Port: port})
		}
		if err != nil {
			continue
		}
		s := &Server{BMC: b, Conn: c}
		s.wg.Add(1)
		go s.loop()
		return s, true, nil
	}
	s, err := pick(v6)(b)
	return s, false, err
}

var (
	reservedNext  atomic.Int64
	reservedOnce  sync.Once
	reservedStart int64
)

func pick(v6 bool) func(*refbmc.BMC) (*Server, error) {
	if v6 {
		return ListenV6
	}
	return Listen
}

func (s *Server) Addr() string { return s.Conn.LocalAddr().String() }

func (s *Server) SetFault(f Fault) {
	s.mu.Lock()
	s.fault = f
	s.mu.Unlock()
}

func (s *Server) Close() {
	s.closed.Store(true)
	s.Conn.Close()
	s.wg.Wait()
}

func (s *Server) loop() {
	defer s.wg.Done()
	buf := make([]byte, 2048)
	for {
		n, addr, err := s.Conn.ReadFromUDP(buf)
		if err != nil {
			return
		}
		s.Received.Add(1)
		req := append([]byte(nil), buf[:n]...)
		reply := s.BMC.Handle(req)
		s.mu.Lock()
		s.last = addr
		s.n++
		k := s.n
		f := s.fault
		jit := s.jitter
		s.mu.Unlock()
		out := [][]byte{reply}
		var delay time.Duration
		if f != nil {
			out, delay = f(k, req, reply)
		}
		if jit != nil {
			delay += jit()
		}
		send := func() {
			for _, o := range out {
				if o != nil && !s.closed.Load() {
					s.Conn.WriteToUDP(o, addr)
				}
			}
		}
		if delay > 0 {
			s.wg.Add(1)
			go func() {
				defer s.wg.Done()
				time.Sleep(delay)
				send()
			}()
		} else {
			send()
		}
	}
}
