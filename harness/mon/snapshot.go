// Package mon holds the monitors shared by several checks.
package mon

import (
	"fmt"
	"net"
	"reflect"
	"sort"
	"strings"
	"time"
)

// Snapshot renders every exported field of v (recursively, including embedded
// structs such as layers.BaseLayer) into a canonical string. Slices and arrays
// are rendered by value; a nil slice and an empty slice render identically
// (they are the same observable value); unexported fields, funcs, channels and
// interface-typed key material are skipped.
func Snapshot(v any) string {
	var sb strings.Builder
	snap(&sb, reflect.ValueOf(v), 0)
	return sb.String()
}

// Fields returns a map from exported field path to rendered value, for
// reporting which field differs.
func Fields(v any) map[string]string {
	out := map[string]string{}
	fields(out, "", reflect.ValueOf(v))
	return out
}

// Diff lists the field paths whose rendered values differ.
func Diff(a, b any) []string {
	fa, fb := Fields(a), Fields(b)
	var d []string
	for k, va := range fa {
		if vb, ok := fb[k]; !ok || va != vb {
			d = append(d, fmt.Sprintf("%s: %s != %s", k, va, fb[k]))
		}
	}
	for k := range fb {
		if _, ok := fa[k]; !ok {
			d = append(d, fmt.Sprintf("%s: <absent> != %s", k, fb[k]))
		}
	}
	sort.Strings(d)
	return d
}

func fields(out map[string]string, path string, v reflect.Value) {
	for v.Kind() == reflect.Ptr || v.Kind() == reflect.Interface {
		if v.IsNil() {
			out[path] = "nil"
			return
		}
		v = v.Elem()
	}
	if v.Kind() == reflect.Struct && !isLeafStruct(v) {
		t := v.Type()
		for i := 0; i < t.NumField(); i++ {
			f := t.Field(i)
			if f.PkgPath != "" && !f.Anonymous {
				continue
			}
			if f.PkgPath != "" && f.Anonymous && f.Type.Kind() != reflect.Struct {
				continue
			}
			if skipType(f.Type) {
				continue
			}
			p := f.Name
			if path != "" {
				p = path + "." + f.Name
			}
			fields(out, p, v.Field(i))
		}
		return
	}
	var sb strings.Builder
	snap(&sb, v, 0)
	out[path] = sb.String()
}

func isLeafStruct(v reflect.Value) bool {
	switch v.Type() {
	case reflect.TypeOf(time.Time{}):
		return true
	}
	return false
}

func skipType(t reflect.Type) bool {
	switch t.Kind() {
	case reflect.Func, reflect.Chan, reflect.UnsafePointer:
		return true
	case reflect.Interface:
		// hash.Hash, cipher.Block, gopacket.LayerType carriers etc. are
		// configuration / key material, not decoded values
		return true
	}
	return false
}

func snap(sb *strings.Builder, v reflect.Value, depth int) {
	if depth > 8 {
		sb.WriteString("...")
		return
	}
	if !v.IsValid() {
		sb.WriteString("invalid")
		return
	}
	switch v.Kind() {
	case reflect.Ptr, reflect.Interface:
		if v.IsNil() {
			sb.WriteString("nil")
			return
		}
		snap(sb, v.Elem(), depth+1)
	case reflect.Struct:
		if v.Type() == reflect.TypeOf(time.Time{}) {
			if v.CanInterface() {
				t := v.Interface().(time.Time)
				fmt.Fprintf(sb, "time(%d)", t.UnixNano())
			} else {
				sb.WriteString("time(?)")
			}
			return
		}
		t := v.Type()
		sb.WriteString("{")
		for i := 0; i < t.NumField(); i++ {
			f := t.Field(i)
			if f.PkgPath != "" && !(f.Anonymous && f.Type.Kind() == reflect.Struct) {
				continue
			}
			if skipType(f.Type) {
				continue
			}
			sb.WriteString(f.Name)
			sb.WriteString(":")
			snap(sb, v.Field(i), depth+1)
			sb.WriteString(" ")
		}
		sb.WriteString("}")
	case reflect.Slice, reflect.Array:
		if v.Kind() == reflect.Slice && v.Type() == reflect.TypeOf(net.IP{}) && v.Len() > 0 {
			// IPs are compared by value of their 16-byte form
		}
		if v.Type().Elem().Kind() == reflect.Uint8 {
			sb.WriteString("x'")
			for i := 0; i < v.Len(); i++ {
				fmt.Fprintf(sb, "%02x", v.Index(i).Uint())
			}
			sb.WriteString("'")
			return
		}
		sb.WriteString("[")
		for i := 0; i < v.Len(); i++ {
			snap(sb, v.Index(i), depth+1)
			sb.WriteString(",")
		}
		sb.WriteString("]")
	case reflect.Map:
		keys := v.MapKeys()
		strs := make([]string, 0, len(keys))
		for _, k := range keys {
			var ks, vs strings.Builder
			snap(&ks, k, depth+1)
			snap(&vs, v.MapIndex(k), depth+1)
			strs = append(strs, ks.String()+"=>"+vs.String())
		}
		sort.Strings(strs)
		sb.WriteString("map[" + strings.Join(strs, ";") + "]")
	case reflect.Bool:
		fmt.Fprintf(sb, "%v", v.Bool())
	case reflect.Int, reflect.Int8, reflect.Int16, reflect.Int32, reflect.Int64:
		fmt.Fprintf(sb, "%d", v.Int())
	case reflect.Uint, reflect.Uint8, reflect.Uint16, reflect.Uint32, reflect.Uint64, reflect.Uintptr:
		fmt.Fprintf(sb, "%d", v.Uint())
	case reflect.Float32, reflect.Float64:
		fmt.Fprintf(sb, "%g", v.Float())
	case reflect.String:
		fmt.Fprintf(sb, "%q", v.String())
	default:
		sb.WriteString("?" + v.Kind().String())
	}
}
