package checks

import (
	"bytes"
	"context"
	"errors"
	"fmt"
	"sync"
	"time"

	"verifharness/ev"
	"verifharness/memtr"
	"verifharness/refbmc"
	"verifharness/refcodec"

	"github.com/cenkalti/backoff/v4"
	"github.com/gebn/bmc"
	"github.com/gebn/bmc/pkg/ipmi"
)

type c03Sess struct {
	Suite   int
	Seed    int64
	N       int    // commands in the history
	Order   string // "ascending" | "shuffled" | "random"
	Class   string // raw class for the length sweep, or "mixed"
	UDP     bool
	Retries bool
}

func init() {
	register(&Check{
		ID:    "C03",
		Level: "exploration",
		Rule: "histories of commands are sent on real sessions for all nine authentication x integrity suites with AES; every datagram the simulated BMC receives is checked online: addressed to the BMC's session ID, flags per suite, " +
			"exact length field, 0xFF integrity pad to a 4-byte multiple with correct pad-length and next-header bytes, AuthCode = negotiated HMAC under the BMC's own K1 over auth-type..next-header, payload = IV + AES-128-CBC under K2[:16] with 01,02,.. pad, " +
			"decrypted payload = checksum-valid IPMI message whose NetFn/LUN/command/body equal the caller's command (independent request tables), and no IV is ever repeated (global set) or all-zero; " +
			"opaque-body commands sweep every body length 0..200 in every NetFn class in ascending and shuffled order on fresh and long-lived connections; non-trivial = datagram verified in session; distinct = distinct (suite, NetFn class/command, message length mod 16 and mod 4, retransmission or not)",
		Assumptions: []string{"refbmc's verification of the RMCP+ session trailer and AES-CBC framing follows IPMI v2.0 13.28.4-13.29; retransmissions are provoked by node-busy answers"},
		Gen:         c03Gen,
		Exec:        c03Exec,
		Post: func(r *ev.Run, tier string, seed int64) {
			n := 0
			c03IVs.Range(func(k, v any) bool { n++; return true })
			r.Set("distinct_ivs_seen", n)
		},
		Anchors: []string{"V2Session).buildAndSend", "V2Session).SerializeTo", "AES128CBC).SerializeTo", "Message).SerializeTo", "truncatedHash"},
	})
}

var c03IVs sync.Map

// envOf lets the per-session code reach the in-memory environment of a BMC (nil for UDP).
var envOf = map[*refbmc.BMC]*Env{}
var envOfMu sync.Mutex

func c03Gen(tier string, seed int64) []ev.Case {
	var cs []ev.Case
	mult := 1
	if tier == "thorough" {
		mult = 20
	}
	for m := 0; m < mult; m++ {
		for su := 0; su < 9; su++ {
			for _, class := range []string{"raw-normal", "raw-group", "raw-oem"} {
				for _, order := range []string{"ascending", "shuffled"} {
					cs = append(cs, ev.MkCase("sess", c03Sess{Suite: su, Seed: seed*100 + int64(m), N: 201, Order: order, Class: class, Retries: order == "shuffled"}))
				}
			}
			cs = append(cs, ev.MkCase("sess", c03Sess{Suite: su, Seed: seed*100 + int64(m), N: 600, Order: "random", Class: "mixed", Retries: true}))
			// many short sessions on fresh connections
			for k := 0; k < 12; k++ {
				cs = append(cs, ev.MkCase("sess", c03Sess{Suite: su, Seed: seed*100 + int64(m*50+k), N: 1 + k%4, Order: "random", Class: "mixed"}))
			}
		}
	}
	if tier == "thorough" {
		for su := 0; su < 9; su++ {
			cs = append(cs, ev.MkCase("sess", c03Sess{Suite: su, Seed: seed, N: 2000, Order: "random", Class: "mixed", Retries: true}))
			cs = append(cs, ev.MkCase("sess", c03Sess{Suite: su, Seed: seed, N: 100, Order: "random", Class: "mixed", Retries: true, UDP: true}))
		}
	} else {
		cs = append(cs, ev.MkCase("sess", c03Sess{Suite: int(seed % 9), Seed: seed, N: 40, Order: "random", Class: "mixed", Retries: true, UDP: true}))
	}
	for _, su := range []int{int(seed % 9), int((seed + 4) % 9)} {
		cs = append(cs, ev.MkCase("rngfail", c03Sess{Suite: su, Seed: seed}))
	}
	return cs
}

func c03Exec(run *ev.Run, c ev.Case) {
	var s c03Sess
	c.Decode(&s)
	if c.Kind == "rngfail" {
		c03RNG(run, s.Suite, c)
		return
	}
	r := rng(s.Seed+int64(s.Suite)*17, "c03"+s.Order+s.Class)
	cfg := defaultCfg(r)
	if (s.Seed+int64(s.Suite)+int64(len(s.Order)))%3 == 0 {
		// two-key login: the BMC holds a K_G that is not the user's password
		cfg.KG = rbytes(r, 20)
	}
	su := stdSuites()[s.Suite%9]
	var b *refbmc.BMC
	var st *bmc.V2SessionlessTransport
	if s.UDP {
		u, err := newUDPEnv(cfg)
		if err != nil {
			run.Inconclusive("udp setup: " + err.Error())
			return
		}
		defer u.Close()
		b, st = u.BMC, u.ST
	} else {
		e := NewEnv(cfg, memtr.Window)
		if s.Retries {
			// a short per-attempt timeout that really elapses when a reply is lost
			e.T.BlockOnLoss = true
			e.ST = bmc.VerifNewV2SessionlessTransport(e.T, 200*time.Millisecond, &backoff.ZeroBackOff{})
		}
		b, st = e.BMC, e.ST
		envOfMu.Lock()
		envOf[b] = e
		envOfMu.Unlock()
		defer func() { envOfMu.Lock(); delete(envOf, b); envOfMu.Unlock() }()
	}
	// the handler answers with the body prepared for the current command;
	// optionally node busy on the first attempt of some commands
	var cur *genCmd
	attempt := 0
	faultKind := 0
	lostThis := false
	lostCount := 0
	envOfMu.Lock()
	me, ok := envOf[b]
	envOfMu.Unlock()
	if ok {
		// replies to first attempts of some commands are damaged on the way back
		me.Filter = func(n int, req, reply []byte) ([]byte, error) {
			if !s.Retries || cur == nil || attempt != 1 || reply == nil || b.Sess == nil || !b.Sess.Active {
				return reply, nil
			}
			last := b.Last()
			if last == nil || last.Kind != "session-ipmi" || (len(last.Data)+int(last.Cmd))%7 != 3 {
				return reply, nil
			}
			faultKind++
			m := append([]byte(nil), reply...)
			switch faultKind % 6 {
			case 5: // the reply is lost: the transport reports a timeout once the attempt's time is up
				if lostCount >= 3 {
					return reply, nil
				}
				lostCount++
				lostThis = true
				return nil, nil
			case 0: // wrong AuthCode
				m[len(m)-1] ^= 0x40
				return m, nil
			case 1: // corrupted ciphertext (signature then fails too)
				m[20] ^= 0x01
				return m, nil
			case 2: // unauthenticated plaintext copy
				return b.Sess.Wrap(refbmc.RespMsg(last, 0, cur.OkBody), refbmc.WrapOpts{NoAuthFlag: true, DropTrailer: true, NoEncrypt: true}), nil
			case 3: // authentic reply for another command
				return b.Sess.Wrap(refbmc.BuildRsp(0x81, 0x07, 0, 0x20, last.RqSeq, 0, 0x3f, 0, []byte{1, 2, 3}), refbmc.WrapOpts{}), nil
			default: // truncated inside the AuthCode
				return m[:len(m)-3], nil
			}
		}
	}
	b.Handler = func(e *refbmc.Event) (byte, []byte, bool) {
		attempt++
		if cur == nil {
			return 0xc1, nil, true
		}
		if s.Retries && attempt == 1 && (len(e.Data)+int(e.Cmd))%5 == 0 {
			if e.NetFn == 0x2c || e.NetFn == 0x2e {
				n := 1
				if e.NetFn == 0x2e {
					n = 3
				}
				if len(cur.OkBody) >= n {
					return 0xc0, cur.OkBody[:n], true
				}
			}
			return 0xc0, nil, true
		}
		return 0, cur.OkBody, true
	}
	ctx, cancel := context.WithTimeout(context.Background(), 60*time.Second)
	defer cancel()
	sess, err := st.NewV2Session(ctx, &bmc.V2SessionOpts{
		SessionOpts:  bmc.SessionOpts{Username: cfg.Username, Password: cfg.Password, MaxPrivilegeLevel: ipmi.PrivilegeLevelAdministrator},
		KG:           cfg.KG,
		CipherSuites: []ipmi.CipherSuite{libSuite(su)},
	})
	if err != nil {
		run.Violation("C03:handshake-failed", err.Error(), c, nil)
		return
	}
	lengths := make([]int, s.N)
	for i := range lengths {
		lengths[i] = i % 201
	}
	if s.Order == "shuffled" {
		r.Shuffle(len(lengths), func(i, j int) { lengths[i], lengths[j] = lengths[j], lengths[i] })
	}
	bmcSess := b.Sess
	for i := 0; i < s.N; i++ {
		kind := s.Class
		if kind == "mixed" {
			kind = cmdKinds[r.Intn(len(cmdKinds))]
			if kind == "close" {
				kind = "devid" // closing is exercised at the end
			}
		}
		l := lengths[i]
		if s.Order == "random" {
			l = r.Intn(201)
		}
		if i%6 == 1 {
			// the connection under the session is still used for session-less commands (twice
			// running, as a poller asking for the GUID does): nothing of that may be addressed
			// to the session, or repeat anything that was
			for k := 0; k < 2; k++ {
				cur = nil
				f0 := b.Len()
				safe(func() { st.GetSystemGUID(ctx) })
				for _, e := range b.Since(f0) {
					run.Event("sessionless-datagrams-between", 1)
					if e.Kind != "sessionless-ipmi" || e.SID != 0 {
						detail := ""
						if e.IV != nil {
							if _, dup := c03IVs.LoadOrStore(string(e.IV), true); dup {
								detail = fmt.Sprintf(" (its IV %x was used before)", e.IV)
							}
						}
						run.Violation("C03:session-datagram-from-sessionless-call", fmt.Sprintf("suite %v: a session-less Get System GUID between in-session commands put a %s datagram addressed to session %#x on the wire%s: %x", su, e.Kind, e.SID, detail, e.Raw), c, nil)
						return
					}
				}
			}
		}
		g := genCommand(r, kind, l)
		run.Eval(1)
		cur, attempt = &g, 0
		lostThis = false
		first := b.Len()
		var code ipmi.CompletionCode
		viaMethod := false
		pv, stk := safe(func() {
			if i%3 == 2 {
				// the same request through the session's own method for it: what a method of a
				// session sends is a session datagram like any other
				viaMethod = true
				switch g.Label {
				case "guid":
					_, err = sess.GetSystemGUID(ctx)
				case "devid":
					_, err = sess.GetDeviceID(ctx)
				case "chassisstatus":
					_, err = sess.GetChassisStatus(ctx)
				case "repoinfo":
					_, err = sess.GetSDRRepositoryInfo(ctx)
				case "reserve":
					_, err = sess.ReserveSDRRepository(ctx)
				case "sensorreading":
					// through a sensor reader built from a Full Sensor Record that names the sensor's
					// owner (any IPMB address, any LUN): over a LAN session the request still goes to the BMC
					sc := g.Cmd.(*ipmi.GetSensorReadingCmd)
					rec := &ipmi.FullSensorRecord{}
					rec.OwnerAddress, rec.OwnerLUN, rec.Number = ipmi.Address(r.Intn(256)), sc.OwnerLUN, sc.Req.Number
					rec.AnalogDataFormat, rec.M = ipmi.AnalogDataFormatUnsigned, 1
					rd, rerr := bmc.NewSensorReader(rec)
					if rerr != nil {
						viaMethod = false
						break
					}
					_, err = rd.Read(ctx, sess)
					if errors.Is(err, bmc.ErrSensorReadingUnavailable) || errors.Is(err, bmc.ErrSensorScanningDisabled) {
						err = nil // the (random) response body may carry either flag
					}
				case "authcaps":
					_, err = sess.GetChannelAuthenticationCapabilities(ctx, &g.Cmd.(*ipmi.GetChannelAuthenticationCapabilitiesCmd).Req)
				default:
					viaMethod = false
				}
				if viaMethod {
					return
				}
			}
			code, err = sess.SendCommand(ctx, g.Cmd)
		})
		desc := fmt.Sprintf("suite %v command %d (%s, body %d bytes, through the session's method: %v)", su, i, g.Label, len(g.RawData), viaMethod)
		if pv != nil {
			run.Violation("C03:panic:"+panicSite(stk), fmt.Sprintf("%s: panic %v\n%s", desc, pv, trimStack(stk)), c, nil)
			return
		}
		evs := b.Since(first)
		if g.SerFail {
			if err == nil || len(evs) != 0 {
				run.Violation("C03:unserialisable-request-sent", fmt.Sprintf("%s: err=%v, %d datagrams seen", desc, err, len(evs)), c, nil)
				return
			}
			continue
		}
		if len(evs) == 0 {
			run.Violation("C03:nothing-transmitted", fmt.Sprintf("%s: no datagram reached the BMC (err=%v)", desc, err), c, nil)
			return
		}
		for k, e := range evs {
			run.Event("session-datagrams", 1)
			if !c03Datagram(run, c, desc, bmcSess, &g, &e, k > 0) {
				return
			}
		}
		if lostThis {
			// a transport failure inside a session ends the command: whatever was sent had to be
			// a valid datagram of its own (fresh IV and sequence number), and nothing may follow
			run.Event("replies-lost", 1)
			if len(evs) != 1 {
				run.Violation("C03:datagrams-after-lost-reply", fmt.Sprintf("%s: %d datagrams were transmitted around a lost reply, expected the 1 whose reply was lost (err=%v)", desc, len(evs), err), c, nil)
				return
			}
			continue
		}
		if err != nil || code != 0 {
			run.Violation("C03:command-failed", fmt.Sprintf("%s: code=%v err=%v although every datagram verified", desc, code, err), c, nil)
			return
		}
		if i%97 == 3 {
			e := evs[0]
			run.Sample(su.String(), map[string]any{"suite": su.String(), "command": g.Label, "datagram": ev.Hex(e.Raw), "iv": ev.Hex(e.IV), "plain_message": ev.Hex(e.Plain), "sequence": e.Seq})
		}
	}
}

// c03Datagram is the online wire monitor for one in-session datagram.
func c03Datagram(run *ev.Run, c ev.Case, desc string, se *refbmc.Session, g *genCmd, e *refbmc.Event, retx bool) bool {
	viol := func(key, what string) bool {
		run.Violation("C03:"+key, fmt.Sprintf("%s: %s; datagram %x", desc, what, e.Raw), c, nil)
		return false
	}
	if e.Kind != "session-ipmi" {
		return viol("not-a-session-packet", fmt.Sprintf("packet kind %s (payload type %#x, SID %#x)", e.Kind, e.PType, e.SID))
	}
	if e.SID != se.BMCSID {
		return viol("wrong-session-id", fmt.Sprintf("addressed to %#x, BMC's session is %#x", e.SID, se.BMCSID))
	}
	if e.Problem != "" {
		key := "rejected-by-bmc"
		switch {
		case bytes.Contains([]byte(e.Problem), []byte("pad")) && bytes.Contains([]byte(e.Problem), []byte("confidentiality")):
			key = "confidentiality-framing"
			if len(g.RawData) >= 8 && bytes.Contains(e.Raw, g.RawData) {
				key = "plaintext-on-wire"
			}
		case bytes.Contains([]byte(e.Problem), []byte("authcode")):
			key = "authcode"
		case bytes.Contains([]byte(e.Problem), []byte("trailer")), bytes.Contains([]byte(e.Problem), []byte("pad")), bytes.Contains([]byte(e.Problem), []byte("next header")):
			key = "integrity-trailer"
		case bytes.Contains([]byte(e.Problem), []byte("not encrypted")), bytes.Contains([]byte(e.Problem), []byte("not authenticated")):
			key = "flags"
		case bytes.Contains([]byte(e.Problem), []byte("checksum")):
			key = "message-checksum"
		}
		return viol(key, "BMC rejects the packet: "+e.Problem)
	}
	if len(g.RawData) >= 8 && bytes.Contains(e.Raw, g.RawData) {
		return viol("plaintext-on-wire", "the caller's request body appears in the clear inside the datagram")
	}
	// IV freshness
	if e.IV != nil {
		if bytes.Equal(e.IV, make([]byte, 16)) {
			return viol("iv-zero", "all-zero IV")
		}
		if _, dup := c03IVs.LoadOrStore(string(e.IV), true); dup {
			return viol("iv-reused", fmt.Sprintf("IV %x was used before", e.IV))
		}
	} else if se.Suite.Conf == 1 {
		return viol("no-iv", "no IV on an encrypted session")
	}
	// semantic equality with the caller's command
	if e.NetFn != g.NetFn || e.Cmd != g.CmdNo || e.RsLUN != g.LUN {
		return viol("wrong-command", fmt.Sprintf("decrypted message is NetFn %#x LUN %d cmd %#x, caller sent NetFn %#x LUN %d cmd %#x", e.NetFn, e.RsLUN, e.Cmd, g.NetFn, g.LUN, g.CmdNo))
	}
	if g.RawData != nil {
		if !bytes.Equal(e.Data, g.RawData) {
			return viol("wrong-body", fmt.Sprintf("decrypted body %x, caller's %x", e.Data, g.RawData))
		}
	} else {
		f, err := refcodec.ParseRequest(e.NetFn, e.Cmd, e.Data)
		if err != nil {
			return viol("request-body-malformed", err.Error())
		}
		if d := f.Diff(g.Want); len(d) > 0 {
			return viol("request-fields", fmt.Sprintf("request fields differ: %v", d))
		}
	}
	class := g.Label
	run.Nontrivial(fmt.Sprintf("%v|%s|%d|%d|%v", se.Suite, class, len(e.Plain)%16, len(e.Plain)%4, retx))
	return true
}
