package checks

import (
	"bytes"
	"context"
	"fmt"
	"math/rand"
	"net"
	"time"

	"verifharness/ev"
	"verifharness/memtr"
	"verifharness/refbmc"
	"verifharness/udpbmc"

	"github.com/cenkalti/backoff/v4"
	"github.com/gebn/bmc"
	"github.com/gebn/bmc/pkg/dcmi"
	"github.com/gebn/bmc/pkg/ipmi"
	"github.com/google/gopacket"
)

type c13P struct {
	Step     string // sessionless | discovery | open | rakp1 | rakp3 | insession | close | sdr-info | sdr-reserve | sdr-get1 | sdr-get3 | sdr-final
	Fault    string // blackhole | late | garbage | tempcode | trunc
	Timeout  int    // per-attempt timeout, ms
	Deadline int    // caller deadline, ms from the start of the call; <= 0: already expired
	Seed     int64
}

type c13L struct {
	Step  string
	Fault string // lost | garbage | busy | expired
	Seed  int64
}

func init() {
	steps := []string{"sessionless", "discovery", "open", "rakp1", "rakp3", "insession", "close", "sdr-info", "sdr-reserve", "sdr-get1", "sdr-get2", "sdr-get3", "sdr-get4", "sdr-final", "wrongpw", "close2", "after-expired", "suites-idx1", "suites-idx2", "sensor-read", "dcmi-enum", "suites-again", "after-long-ctx", "after-cancelled"}
	faults := []string{"blackhole", "late", "garbage", "tempcode", "trunc", "ffrun", "drop-once", "repo-modified", "runts", "close-inflight", "duplicate"}
	register(&Check{
		ID:      "C13",
		Level:   "fault_enumeration",
		Workers: 48,
		Rule: "wall-clock half (hook-free, real DialV2 over loopback UDP): fault in {black hole, reply after the per-attempt timeout, garbage on every attempt, temporary code forever, truncated replies} applied from a given step on {session-less command, cipher-suite discovery, Open Session, RAKP 1, RAKP 3, in-session command, Close, SDR info / reserve / 1st and 3rd Get SDR / final info} " +
			"x three per-attempt-timeout : deadline ratios chosen so that ignoring the context overshoots by >= 1 s, plus already-expired contexts; overshoot of the return past the deadline must stay within 250 ms (a canary goroutine measures scheduler lateness; > 100 ms makes the case inconclusive and it is repeated) and success is only accepted if the BMC sent a valid response. " +
			"logical half (in-memory transport): every attempt context must carry a deadline no later than the caller's and no later than now + per-attempt timeout, and nothing is transmitted with an expired context. " +
			"non-trivial = the call was still blocked when the fault started; distinct = distinct (step, fault, ratio)",
		Assumptions: []string{"250 ms allowance for scheduling on a loaded 16-core machine; wall-clock verdicts are guarded by the canary, never by the check's own speed"},
		Exhaustive:  func(tier string) bool { return tier == "thorough" },
		Gen: func(tier string, seed int64) []ev.Case {
			var cs []ev.Case
			ratios := [][2]int{{2000, 350}, {5000, 600}, {100, 1000}}
			for _, st := range steps {
				for fi, f := range faults {
					for ri, rt := range ratios {
						if f == "repo-modified" && (len(st) != 8 || st[:7] != "sdr-get") {
							continue // the repository can only change under a retrieval
						}
						if tier == "quick" && (fi+ri+len(st))%3 != int(seed%3+3)%3 && !(f == "repo-modified" && ri != 2 && st == "sdr-get3") && !(st == "wrongpw" && f == "blackhole" && ri < 2) && !(f == "drop-once" && ri == 2 && (st == "sdr-get2" || st == "sdr-get4" || st == "discovery")) &&
							!((st == "suites-idx1" || st == "suites-idx2" || st == "suites-again" || st == "after-long-ctx" || st == "after-cancelled") && (f == "blackhole" && ri != 1 || f == "tempcode" && ri == 2 || f == "garbage" && ri == 2)) {
							continue
						}
						cs = append(cs, ev.MkCase("udp", c13P{Step: st, Fault: f, Timeout: rt[0], Deadline: rt[1], Seed: seed}))
					}
				}
				cs = append(cs, ev.MkCase("udp", c13P{Step: st, Fault: "blackhole", Timeout: 2000, Deadline: -50, Seed: seed}))
				for _, f := range []string{"lost", "garbage", "busy", "expired", "ffrun"} {
					cs = append(cs, ev.MkCase("mem", c13L{Step: st, Fault: f, Seed: seed}))
				}
			}
			// the BMC answers every Open Session Request with a status that says "try again later"
			// (0x01 insufficient resources): whatever the library makes of that, it is back by the deadline
			for _, rt := range [][2]int{{100, 500}, {300, 700}, {100, 1000}, {2000, 350}, {600, 900}} {
				cs = append(cs, ev.MkCase("udp", c13P{Step: "open", Fault: "open-status-temp", Timeout: rt[0], Deadline: rt[1], Seed: seed}))
			}
			// a zero per-request timeout (legal, if useless): nothing can be received in it, and the call is
			// still back by its deadline with an error
			for _, st := range []string{"sessionless", "open", "discovery", "suites-idx1"} {
				cs = append(cs, ev.MkCase("udp", c13P{Step: st, Fault: "blackhole", Timeout: 0, Deadline: 400, Seed: seed}))
				cs = append(cs, ev.MkCase("udp", c13P{Step: st, Fault: "garbage", Timeout: 0, Deadline: 700, Seed: seed}))
			}
			// steps that carry their own fault: the BMC's port is gone (ICMP errors instead of silence), the
			// repository holds a Full Sensor Record longer than the library reads (the walk can never complete)
			for _, st := range []string{"dead-port-sessionless", "dead-port-open", "sdr-oversize"} {
				for _, rt := range ratios {
					cs = append(cs, ev.MkCase("udp", c13P{Step: st, Fault: "own", Timeout: rt[0], Deadline: rt[1], Seed: seed}))
				}
				cs = append(cs, ev.MkCase("udp", c13P{Step: st, Fault: "own", Timeout: 2000, Deadline: -50, Seed: seed}))
			}
			if tier == "thorough" {
				for k := 1; k <= 4; k++ {
					for _, st := range steps {
						for _, f := range faults {
							cs = append(cs, ev.MkCase("udp", c13P{Step: st, Fault: f, Timeout: 1500 + 300*k, Deadline: 200 + 150*k, Seed: seed + int64(k)}))
							cs = append(cs, ev.MkCase("udp", c13P{Step: st, Fault: f, Timeout: 60 + 20*k, Deadline: 700 + 100*k, Seed: seed + int64(k)}))
						}
					}
				}
			}
			return cs
		},
		Exec:    c13Exec,
		Anchors: []string{"transport).Send", "buildAndSendCommand", "buildAndSendPayload", "V2Session).buildAndSend", "RetrieveSDRRepository"},
	})
}

func c13Exec(run *ev.Run, c ev.Case) {
	switch c.Kind {
	case "udp":
		var p c13P
		c.Decode(&p)
		// A wall-clock overshoot only counts if it reproduces: a call that ignores its
		// context overshoots every time, a scheduling stall on a loaded machine does not.
		overshoots, inconclusive := 0, 0
		var last func()
		for try := 0; try < 5 && inconclusive < 3; try++ {
			verdict, report := c13UDP(run, p, c)
			switch verdict {
			case "inconclusive":
				inconclusive++
				continue
			case "overshoot":
				overshoots++
				last = report
				if overshoots < 3 {
					continue
				}
				last()
				return
			}
			if overshoots > 0 {
				run.Observe("overshoot-not-reproduced", overshoots)
			}
			return
		}
		if overshoots > 0 {
			run.Inconclusive(fmt.Sprintf("step %s fault %s: %d overshoot(s) that could not be re-examined because of scheduler lateness", p.Step, p.Fault, overshoots))
			return
		}
		run.Inconclusive(fmt.Sprintf("step %s fault %s: scheduler lateness above 100 ms in three runs", p.Step, p.Fault))
	case "mem":
		var l c13L
		c.Decode(&l)
		c13Mem(run, l, c)
	}
}

// c13Repo is a three-record repository so that the walk has at least 5 Get SDR requests.
func c13Repo(r *rand.Rand) *refbmc.Repo {
	f1, _, _ := genFSR(r, 3, 5)
	f2, _, _ := genFSR(r, 3, 8)
	f3, _, _ := genFSR(r, 2, 6)
	return refbmc.NewRepo([]refbmc.SDRRecord{{ID: 1, Type: 1, Body: f1}, {ID: 2, Type: 1, Body: f2}, {ID: 7, Type: 1, Body: f3}}, 70000)
}

// c13Match reports whether a request datagram belongs to the step under fault.
func c13Match(step string, b *refbmc.BMC, getCount *int) bool {
	e := b.Last()
	if e == nil {
		return false
	}
	switch step {
	case "sessionless", "after-expired", "after-cancelled":
		return e.Kind == "sessionless-ipmi" && e.Cmd == 0x37
	case "discovery":
		return e.Kind == "sessionless-ipmi" && e.Cmd == 0x54
	case "after-long-ctx":
		// an earlier call on this connection was made under a context that is still alive (getCount
		// is set past 1000 once it has returned); the measured call has its own, shorter one
		return e.Kind == "sessionless-ipmi" && e.Cmd == 0x37 && *getCount >= 1000
	case "suites-again":
		// an enumeration has completed on this connection before (getCount is set past 1000 then);
		// every request of the next one meets the fault
		return e.Kind == "sessionless-ipmi" && e.Cmd == 0x54 && *getCount >= 1000
	case "suites-idx1", "suites-idx2":
		// the enumeration has already been answered for the earlier list indices, whose chunks end on a record boundary
		return e.Kind == "sessionless-ipmi" && e.Cmd == 0x54 && len(e.Data) == 3 && int(e.Data[2]&0x3f) >= int(step[len(step)-1]-'0')
	case "open":
		return e.Kind == "open"
	case "rakp1":
		return e.Kind == "rakp1"
	case "rakp3", "wrongpw":
		// wrongpw: the caller's password is wrong, so RAKP 2 does not verify;
		// anything the library sends after that meets the fault
		return e.Kind == "rakp3"
	case "insession":
		return e.Kind == "session-ipmi" && e.NetFn == 6 && e.Cmd == 0x01
	case "close", "close2":
		return e.Kind == "session-ipmi" && e.Cmd == 0x3c
	case "sensor-read":
		return e.Kind == "session-ipmi" && e.NetFn == 0x04 && e.Cmd == 0x2d
	case "dcmi-enum":
		// the enumeration is under way: the fault starts with its third request
		if e.Kind == "session-ipmi" && e.NetFn == 0x2c && e.Cmd == 0x07 {
			*getCount++
			return *getCount >= 3
		}
	case "sdr-info":
		return e.Kind == "session-ipmi" && e.NetFn == 0x0a && e.Cmd == 0x20
	case "sdr-reserve":
		return e.Kind == "session-ipmi" && e.NetFn == 0x0a && e.Cmd == 0x22
	case "sdr-get1", "sdr-get2", "sdr-get3", "sdr-get4":
		if e.Kind == "session-ipmi" && e.NetFn == 0x0a && e.Cmd == 0x23 {
			*getCount++
			want := int(step[len(step)-1] - '0')
			return *getCount >= want
		}
	case "sdr-final":
		if e.Kind == "session-ipmi" && e.NetFn == 0x0a && e.Cmd == 0x23 {
			*getCount++
		}
		return e.Kind == "session-ipmi" && e.NetFn == 0x0a && e.Cmd == 0x20 && *getCount >= 6
	}
	return false
}

func c13UDP(run *ev.Run, p c13P, cs ev.Case) (string, func()) {
	r := rng(p.Seed, "c13"+p.Step+p.Fault)
	cfg := defaultCfg(r)
	b := refbmc.New(cfg)
	repo := c13Repo(r)
	cssrv := &refbmc.CipherSuiteServer{Channel: 1, Data: refbmc.EncodeSuiteRecords([]refbmc.SuiteRecord{{ID: 0x81, OEM: true, IANA: 0x00b4e2, Auth: 1, Integs: []byte{1, 2}, Confs: []byte{1}}, {ID: 3, Auth: 1, Integs: []byte{1}, Confs: []byte{1}},
		{ID: 0xff, Auth: 2, Integs: []byte{2}, Confs: []byte{1}}, {ID: 17, Auth: 3, Integs: []byte{4}, Confs: []byte{1}}, {ID: 0xc0, OEM: true, IANA: 0x000157, Auth: 3, Integs: []byte{4}, Confs: []byte{1, 2, 3}}})}
	if p.Step == "suites-idx1" || p.Step == "suites-idx2" {
		cssrv.Data = c13AlignedSuites()
	}
	sensorRec, sensorDev, dcmiDev := c13Devices(r)
	ownGUID := rbytes(r, 16)
	b.Handler = refbmc.Chain(repo.Handle, cssrv.Handle, sensorDev.Handle, dcmiDev.Handle, refbmc.Fixed(6, 0x37, 0, ownGUID),
		refbmc.Fixed(6, 0x01, 0, []byte{0x20, 0x81, 0x03, 0x15, 0x02, 0xbf, 0x57, 0x01, 0x00, 0x34, 0x12}), refbmc.Fixed(6, 0x3c, 0, nil))
	listen := udpbmc.Listen
	if (p.Seed+int64(len(p.Step)*3+len(p.Fault)))%5 == 0 {
		listen = udpbmc.ListenV6 // a fifth of the cases run over the IPv6 loopback
	}
	srv, err := listen(b)
	if p.Step == "dead-port-sessionless" || p.Step == "dead-port-open" {
		// the port has to stay dead once this server is closed: nothing that binds to port 0 -
		// another case of this run, another check running next to it - may be handed it
		if err == nil {
			srv.Close()
		}
		var reserved bool
		srv, reserved, err = udpbmc.ListenOutsideEphemeral(b, (p.Seed+int64(len(p.Step)*3+len(p.Fault)))%5 == 0)
		if reserved {
			run.Observe("c13.dead-port-outside-ephemeral-range", 1)
		}
	}
	if err != nil {
		return "inconclusive", nil
	}
	defer srv.Close()
	deadAddr := srv.Conn.LocalAddr().(*net.UDPAddr)
	timeout := time.Duration(p.Timeout) * time.Millisecond
	var st *bmc.V2SessionlessTransport
	if (p.Seed+int64(len(p.Step)+len(p.Fault)))%2 == 0 {
		// the per-request timeout is configured after dialling
		if st, err = bmc.DialV2(srv.Addr()); err == nil {
			st.SetTimeout(timeout)
		}
	} else {
		st, err = bmc.DialV2(srv.Addr(), bmc.WithTimeout(timeout))
	}
	if err != nil {
		return "inconclusive", nil
	}
	defer st.Close()
	if p.Step == "sdr-oversize" {
		// the second record announces 65..255 bytes: more than the library is prepared to read
		f1, _, _ := genFSR(r, 3, 5)
		big := append(rbytes(r, 43), 0xc0)
		big = append(big, rbytes(r, 22+r.Intn(190))...)
		big[42] = 0xc0
		repo.ModifyLocked([]refbmc.SDRRecord{{ID: 1, Type: 1, Body: f1}, {ID: 2, Type: 1, Body: big}, {ID: 3, Type: 1, Body: f1}}, false, true)
	}
	faultOn := false
	getCount := 0
	validSent := 0
	dropped := 0
	closing := false
	if p.Fault == "repo-modified" {
		// no reply is lost or damaged: the repository's addition timestamp moves during the walk
		want := int(p.Step[len(p.Step)-1] - '0')
		repo.BeforeGet = func(nth int, rp *refbmc.Repo) {
			if nth == want && !faultOn {
				faultOn = true
				rp.ModifyLocked(rp.Recs, false, false)
			}
		}
	}
	srv.SetFault(func(n int, req, reply []byte) ([][]byte, time.Duration) {
		if p.Fault == "repo-modified" {
			if reply != nil {
				validSent++
			}
			return [][]byte{reply}, 0
		}
		if !faultOn && c13Match(p.Step, b, &getCount) {
			faultOn = true
		}
		if !faultOn {
			if reply != nil {
				validSent++
			}
			return [][]byte{reply}, 0
		}
		switch p.Fault {
		case "drop-once":
			// exactly one reply is lost; everything afterwards is answered
			dropped++
			if dropped == 1 {
				return nil, 0
			}
			if reply != nil {
				validSent++
			}
			return [][]byte{reply}, 0
		case "blackhole":
			return nil, 0
		case "duplicate":
			// the network delivers every reply twice: each call finds its predecessor's second copy first
			if reply != nil {
				validSent++
				return [][]byte{reply, reply}, 0
			}
			return nil, 0
		case "late":
			if reply != nil {
				validSent++
			}
			return [][]byte{reply}, timeout + 60*time.Millisecond
		case "garbage":
			return [][]byte{rbytes(r, 1+r.Intn(60))}, 0
		case "ffrun":
			return [][]byte{c13FFRun(b, r)}, 0
		case "runts":
			// no answer, but datagrams too short to be anything (0..3 bytes) keep arriving
			var runts [][]byte
			for i := 0; i < 60; i++ {
				runts = append(runts, rbytes(r, r.Intn(4)))
			}
			srv.Trickle(runts, time.Duration(20+r.Intn(60))*time.Millisecond)
			return nil, 0
		case "close-inflight":
			// no answer; the caller (another goroutine) closes the connection while the call waits
			if !closing {
				closing = true
				time.AfterFunc(time.Duration(p.Deadline/3+20)*time.Millisecond, func() { st.Close() })
			}
			return nil, 0
		case "open-status-temp":
			if e := b.Last(); e != nil && e.Kind == "open" && len(e.Payload) >= 8 {
				return [][]byte{refbmc.RMCP(refbmc.SessHdr(0x11, 0, 0, append([]byte{e.Payload[0], 0x01, 0, 0}, e.Payload[4:8]...)))}, 0
			}
			return [][]byte{reply}, 0
		case "trunc":
			if len(reply) > 4 {
				return [][]byte{reply[:len(reply)/2]}, 0
			}
			return nil, 0
		case "tempcode":
			if e := b.Last(); e != nil && (e.Kind == "session-ipmi" || e.Kind == "sessionless-ipmi") && e.Problem == "" {
				m := refbmc.RespMsg(e, 0xc0, nil)
				if e.NetFn == 0x2c {
					m = refbmc.RespMsg(e, 0xc0, []byte{0xdc})
				}
				if e.Kind == "session-ipmi" && b.Sess != nil {
					return [][]byte{b.Sess.Wrap(m, refbmc.WrapOpts{})}, 0
				}
				return [][]byte{refbmc.RMCP(refbmc.SessHdr(0, 0, 0, m))}, 0
			}
			return [][]byte{rbytes(r, 20)}, 0 // handshake payloads have no temporary code: noise instead
		}
		return [][]byte{reply}, 0
	})
	opts := &bmc.V2SessionOpts{SessionOpts: bmc.SessionOpts{Username: cfg.Username, Password: cfg.Password, MaxPrivilegeLevel: ipmi.PrivilegeLevelAdministrator}, CipherSuites: []ipmi.CipherSuite{ipmi.CipherSuite3}}
	if p.Step == "discovery" {
		opts.CipherSuites = nil
	}
	if p.Step == "wrongpw" {
		opts.Password = append(append([]byte(nil), opts.Password...), 0x78)
	}
	var sess *bmc.V2Session
	needSession := p.Step == "sdr-oversize" || p.Step == "insession" || p.Step == "close" || p.Step == "close2" || p.Step == "sensor-read" || p.Step == "dcmi-enum" || len(p.Step) > 4 && p.Step[:4] == "sdr-"
	if needSession {
		sctx, scancel := context.WithTimeout(context.Background(), 15*time.Second)
		sess, err = st.NewV2Session(sctx, opts)
		scancel()
		if err != nil {
			run.Violation("C13:setup", fmt.Sprintf("fault-free session setup failed: %v", err), cs, nil)
			return "violated", nil
		}
	}
	if p.Step == "after-expired" {
		// an earlier call on this connection was made with a context that had already expired
		// (it fails at once); the measured call is the next one
		c0, cancel0 := context.WithDeadline(context.Background(), time.Now().Add(-time.Second))
		safe(func() { st.GetSystemGUID(c0) })
		cancel0()
	}
	if p.Step == "close2" {
		// a first Close that meets the fault (and, for most faults, fails); the measured call is the caller trying again
		c0, cancel0 := context.WithTimeout(context.Background(), 150*time.Millisecond)
		safe(func() { sess.Close(c0) })
		cancel0()
	}
	if p.Step == "suites-again" {
		c0, cancel0 := context.WithTimeout(context.Background(), 15*time.Second)
		_, err0 := bmc.RetrieveSupportedCipherSuites(c0, st)
		cancel0()
		if err0 != nil {
			run.Violation("C13:setup", fmt.Sprintf("fault-free cipher suite enumeration failed: %v", err0), cs, nil)
			return "violated", nil
		}
		getCount = 1000
	}
	if p.Step == "after-cancelled" {
		// an earlier call on this connection met the same fault and was given up by its caller (an
		// explicit cancel, well before any deadline); the measured call is the next one
		c0, cancel0 := context.WithCancel(context.Background())
		time.AfterFunc(40*time.Millisecond, cancel0)
		gave := make(chan struct{})
		go func() { safe(func() { st.GetSystemGUID(c0) }); close(gave) }()
		select {
		case <-gave:
		case <-time.After(time.Duration(p.Timeout)*time.Millisecond + 3*time.Second):
			run.Violation("C13:cancelled-call-never-returned", fmt.Sprintf("a Get System GUID cancelled after 40 ms (per-attempt timeout %d ms, fault %s) had not returned %d ms later", p.Timeout, p.Fault, p.Timeout+3000), cs, nil)
			return "violated", nil
		}
	}
	if p.Step == "after-long-ctx" {
		c0, cancel0 := context.WithTimeout(context.Background(), 90*time.Second)
		defer cancel0() // stays alive for the whole case
		if _, err0 := st.GetSystemGUID(c0); err0 != nil {
			run.Violation("C13:setup", fmt.Sprintf("fault-free Get System GUID failed: %v", err0), cs, nil)
			return "violated", nil
		}
		getCount = 1000
	}
	validBefore := validSent
	if p.Step == "dead-port-sessionless" || p.Step == "dead-port-open" {
		srv.Close() // from here on the kernel answers the console's datagrams with ICMP port unreachable
		faultOn = true
	}
	if p.Step == "sdr-oversize" {
		faultOn = true
	}
	deadline := time.Now().Add(time.Duration(p.Deadline) * time.Millisecond)
	ctx, cancel := context.WithDeadline(context.Background(), deadline)
	defer cancel()
	canary := make(chan time.Duration, 1)
	go func() {
		d := time.Until(deadline)
		if d > 0 {
			time.Sleep(d)
		}
		canary <- time.Since(deadline)
	}()
	start := time.Now()
	var callErr error
	var gotGUID []byte
	sdrCount := -1
	done := make(chan struct{})
	var pv any
	var stk string
	go func() {
		defer close(done)
		pv, stk = safe(func() {
			switch p.Step {
			case "sessionless", "after-expired", "dead-port-sessionless", "after-long-ctx", "after-cancelled":
				var g [16]byte
				g, callErr = st.GetSystemGUID(ctx)
				gotGUID = g[:]
			case "discovery", "open", "rakp1", "rakp3", "wrongpw", "dead-port-open":
				_, callErr = st.NewV2Session(ctx, opts)
			case "suites-idx1", "suites-idx2", "suites-again":
				_, callErr = bmc.RetrieveSupportedCipherSuites(ctx, st)
			case "insession":
				_, callErr = sess.GetDeviceID(ctx)
			case "close", "close2":
				callErr = sess.Close(ctx)
			case "sensor-read":
				var rd bmc.SensorReader
				if rd, callErr = bmc.NewSensorReader(sensorRec); callErr == nil {
					_, callErr = rd.Read(ctx, sess)
				}
			case "dcmi-enum":
				_, callErr = dcmi.GetSensorInfo(ctx, sess)
			default:
				var m bmc.SDRRepository
				m, callErr = bmc.RetrieveSDRRepository(ctx, sess)
				sdrCount = len(m)
			}
		})
	}()
	watchdog := time.Duration(p.Timeout)*time.Millisecond + time.Duration(abs(p.Deadline))*time.Millisecond + 8*time.Second
	var ret time.Time
	select {
	case <-done:
		ret = time.Now()
	case <-time.After(watchdog):
		run.Eval(1)
		run.Violation("C13:never-returned:"+p.Step, fmt.Sprintf("step %s fault %s timeout %dms deadline %dms: call still blocked %v after its deadline", p.Step, p.Fault, p.Timeout, p.Deadline, time.Since(deadline)), cs, nil)
		return "violated", nil
	}
	late := <-canary
	if p.Deadline <= 0 {
		late = 0
	}
	overshoot := ret.Sub(deadline)
	if p.Deadline <= 0 {
		overshoot = ret.Sub(start)
	}
	desc := fmt.Sprintf("step %s fault %s per-attempt timeout %dms deadline %dms", p.Step, p.Fault, p.Timeout, p.Deadline)
	if pv != nil {
		run.Eval(1)
		run.Violation("C13:panic:"+panicSite(stk), fmt.Sprintf("%s: %v\n%s", desc, pv, trimStack(stk)), cs, nil)
		return "violated", nil
	}
	if late > 100*time.Millisecond {
		return "inconclusive", nil
	}
	run.Eval(1)
	run.Event("datagrams-received-by-bmc", int(srv.Received.Load()))
	if p.Step == "wrongpw" && callErr == nil {
		run.Violation("C13:success-without-valid-response:wrongpw", fmt.Sprintf("%s: a session was returned although the password is wrong", desc), cs, nil)
		return "violated", nil
	}
	if faultOn || p.Deadline <= 0 || p.Step == "wrongpw" {
		run.Nontrivial(fmt.Sprintf("%s|%s|%d:%d", p.Step, p.Fault, p.Timeout, p.Deadline))
	} else {
		run.Observe("fault-step-never-reached:"+p.Step, 1)
	}
	if overshoot > 250*time.Millisecond {
		key := "C13:overshoot:" + p.Step
		if p.Deadline <= 0 {
			key = "C13:expired-context-not-prompt:" + p.Step
		}
		msg := fmt.Sprintf("%s: returned %v after the deadline in three runs out of three (allowance 250ms; canary lateness %v; err=%v)", desc, overshoot, late, callErr)
		return "overshoot", func() { run.Violation(key, msg, cs, nil) }
	}
	// (with duplicated replies the second copy of an earlier answer to the same command is received -
	// authentic and matching - during a later call: which call a delivery belongs to cannot be told from
	// the sending side, so that fault is left out here; the stale same-command reply itself is the open
	// finding recorded under C11)
	if callErr == nil && (p.Step == "dead-port-sessionless" || p.Step == "dead-port-open") {
		// answered although this case's BMC is gone: before that is held against the library, make
		// sure no other responder has taken the port over in the meantime (a server of another
		// harness process bound to the same explicit port) - it holds the port now, or the GUID
		// returned is neither this BMC's nor empty
		probe, perr := net.ListenUDP("udp", deadAddr)
		if perr == nil {
			probe.Close()
		}
		foreign := perr != nil
		if p.Step == "dead-port-sessionless" && !bytes.Equal(gotGUID, ownGUID) && !bytes.Equal(gotGUID, make([]byte, 16)) {
			foreign = true
		}
		if foreign {
			run.Observe("c13.dead-port-taken-over", 1)
			return "inconclusive", nil
		}
	}
	if callErr == nil && validSent == validBefore && p.Fault != "late" && p.Fault != "duplicate" {
		run.Violation("C13:success-without-valid-response:"+p.Step, fmt.Sprintf("%s: call reported success although the BMC sent no valid response while it ran (datagrams received by the BMC: %d)", desc, srv.Received.Load()), cs, nil)
		return "violated", nil
	}
	if callErr == nil && sdrCount >= 0 && sdrCount != 3 {
		run.Violation("C13:success-without-valid-response:"+p.Step, fmt.Sprintf("%s: retrieval reported success with %d of the 3 records although a reply was lost on the way", desc, sdrCount), cs, nil)
		return "violated", nil
	}
	if callErr == nil && (p.Deadline <= 0 || (faultOn && p.Fault != "late" && p.Fault != "drop-once" && p.Fault != "repo-modified" && p.Fault != "duplicate")) {
		run.Violation("C13:success-without-valid-response:"+p.Step, fmt.Sprintf("%s: call reported success although no valid response could have been obtained", desc), cs, nil)
		return "violated", nil
	}
	run.Max("overshoot_ms", float64(overshoot)/1e6)
	run.Max("canary_lateness_ms", float64(late)/1e6)
	run.Sample(p.Step+":"+p.Fault, map[string]any{"step": p.Step, "fault": p.Fault, "timeout_ms": p.Timeout, "deadline_ms": p.Deadline, "overshoot_ms": float64(overshoot) / 1e6, "canary_late_ms": float64(late) / 1e6, "err": errStr(callErr)})
	return "held", nil
}

// c13Mem is the load-independent half: attempt contexts observed at the transport.
func c13Mem(run *ev.Run, l c13L, cs ev.Case) {
	run.Eval(1)
	r := rng(l.Seed, "c13mem"+l.Step+l.Fault)
	cfg := defaultCfg(r)
	b := refbmc.New(cfg)
	repo := c13Repo(r)
	cssrv := &refbmc.CipherSuiteServer{Channel: 1, Data: refbmc.EncodeSuiteRecords([]refbmc.SuiteRecord{{ID: 3, Auth: 1, Integs: []byte{1}, Confs: []byte{1}}})}
	sensorRec, sensorDev, dcmiDev := c13Devices(r)
	b.Handler = refbmc.Chain(repo.Handle, cssrv.Handle, sensorDev.Handle, dcmiDev.Handle, refbmc.Fixed(6, 0x37, 0, rbytes(r, 16)),
		refbmc.Fixed(6, 0x01, 0, []byte{0x20, 0x81, 0x03, 0x15, 0x02, 0xbf, 0x57, 0x01, 0x00, 0x34, 0x12}), refbmc.Fixed(6, 0x3c, 0, nil))
	faultOn := false
	getCount := 0
	var cancelCaller context.CancelFunc
	afterFault := 0
	validReplies := 0
	t := memtr.New(func(n int, req []byte) ([]byte, error) {
		reply := b.Handle(req)
		if !faultOn && c13Match(l.Step, b, &getCount) {
			faultOn = true
		}
		if !faultOn {
			if reply != nil {
				validReplies++
			}
			return reply, nil
		}
		afterFault++
		if afterFault >= 4 && cancelCaller != nil {
			cancelCaller() // logical bound: end the call after four faulty attempts
		}
		switch l.Fault {
		case "lost":
			return nil, nil
		case "garbage":
			return []byte{6, 0, 0xff, 7, 6, 0x55, 1}, nil
		case "ffrun":
			return c13FFRun(b, r), nil
		case "busy":
			if e := b.Last(); e != nil && (e.Kind == "session-ipmi" || e.Kind == "sessionless-ipmi") && e.Problem == "" {
				m := refbmc.RespMsg(e, 0xc0, nil)
				if e.Kind == "session-ipmi" && b.Sess != nil {
					return b.Sess.Wrap(m, refbmc.WrapOpts{}), nil
				}
				return refbmc.RMCP(refbmc.SessHdr(0, 0, 0, m)), nil
			}
			return nil, nil
		}
		return reply, nil
	})
	t.Mode = memtr.Window
	timeout := 700 * time.Millisecond
	st := bmc.VerifNewV2SessionlessTransport(t, timeout, &backoff.ZeroBackOff{})
	if (l.Seed+int64(len(l.Step)+len(l.Fault)))%2 == 0 {
		// a connection made with another per-request timeout and reconfigured before use
		st = bmc.VerifNewV2SessionlessTransport(t, 9*time.Second, &backoff.ZeroBackOff{})
		st.SetTimeout(timeout)
	}
	opts := &bmc.V2SessionOpts{SessionOpts: bmc.SessionOpts{Username: cfg.Username, Password: cfg.Password, MaxPrivilegeLevel: ipmi.PrivilegeLevelAdministrator}, CipherSuites: []ipmi.CipherSuite{ipmi.CipherSuite3}}
	if l.Step == "discovery" {
		opts.CipherSuites = nil
		cssrv.Data = refbmc.EncodeSuiteRecords([]refbmc.SuiteRecord{{ID: 0x81, OEM: true, IANA: 0x00b4e2, Auth: 1, Integs: []byte{1, 2}, Confs: []byte{1}}, {ID: 3, Auth: 1, Integs: []byte{1}, Confs: []byte{1}},
			{ID: 0xff, Auth: 2, Integs: []byte{2}, Confs: []byte{1}}, {ID: 17, Auth: 3, Integs: []byte{4}, Confs: []byte{1}}})
	}
	if l.Step == "suites-idx1" || l.Step == "suites-idx2" {
		cssrv.Data = c13AlignedSuites()
	}
	if l.Step == "wrongpw" {
		opts.Password = append(append([]byte(nil), opts.Password...), 0x78)
	}
	var sess *bmc.V2Session
	var err error
	needSession := l.Step == "insession" || l.Step == "close" || l.Step == "close2" || l.Step == "sensor-read" || l.Step == "dcmi-enum" || len(l.Step) > 4 && l.Step[:4] == "sdr-"
	if needSession {
		sctx, scancel := context.WithTimeout(context.Background(), 15*time.Second)
		sess, err = st.NewV2Session(sctx, opts)
		scancel()
		if err != nil {
			run.Violation("C13:setup", fmt.Sprintf("fault-free session setup failed: %v", err), cs, nil)
			return
		}
	}
	if l.Step == "suites-again" {
		c0, cancel0 := context.WithTimeout(context.Background(), 15*time.Second)
		_, err0 := bmc.RetrieveSupportedCipherSuites(c0, st)
		cancel0()
		if err0 != nil {
			run.Violation("C13:setup", fmt.Sprintf("fault-free cipher suite enumeration failed: %v", err0), cs, nil)
			return
		}
		getCount = 1000
	}
	if l.Step == "after-long-ctx" {
		c0, cancel0 := context.WithTimeout(context.Background(), 25*time.Second)
		defer cancel0()
		if _, err0 := st.GetSystemGUID(c0); err0 != nil {
			run.Violation("C13:setup", fmt.Sprintf("fault-free Get System GUID failed: %v", err0), cs, nil)
			return
		}
		getCount = 1000
	}
	validBefore := validReplies
	callerDeadline := time.Now().Add(20 * time.Second)
	if l.Fault == "expired" {
		callerDeadline = time.Now().Add(-time.Second)
	}
	ctx, cancel := context.WithDeadline(context.Background(), callerDeadline)
	cancelCaller = cancel
	defer cancel()
	first := t.Len()
	start := time.Now()
	var callErr error
	pv, stk := safe(func() {
		switch l.Step {
		case "sessionless", "after-expired", "after-long-ctx", "after-cancelled":
			_, callErr = st.GetSystemGUID(ctx)
		case "discovery", "open", "rakp1", "rakp3", "wrongpw":
			_, callErr = st.NewV2Session(ctx, opts)
		case "suites-idx1", "suites-idx2", "suites-again":
			_, callErr = bmc.RetrieveSupportedCipherSuites(ctx, st)
		case "insession":
			_, callErr = sess.GetDeviceID(ctx)
		case "close", "close2":
			callErr = sess.Close(ctx)
		case "sensor-read":
			var rd bmc.SensorReader
			if rd, callErr = bmc.NewSensorReader(sensorRec); callErr == nil {
				_, callErr = rd.Read(ctx, sess)
			}
		case "dcmi-enum":
			_, callErr = dcmi.GetSensorInfo(ctx, sess)
		default:
			_, callErr = bmc.RetrieveSDRRepository(ctx, sess)
		}
	})
	desc := fmt.Sprintf("logical monitor: step %s fault %s", l.Step, l.Fault)
	if pv != nil {
		run.Violation("C13:panic:"+panicSite(stk), fmt.Sprintf("%s: %v\n%s", desc, pv, trimStack(stk)), cs, nil)
		return
	}
	recs := t.Since(first)
	run.Event("attempt-contexts-observed", len(recs))
	run.Nontrivial(fmt.Sprintf("mem|%s|%s", l.Step, l.Fault))
	for i, s := range recs {
		if !s.HasDeadline {
			run.Violation("C13:attempt-without-deadline:"+l.Step, fmt.Sprintf("%s: attempt %d was sent with a context that has no deadline", desc, i+1), cs, nil)
			return
		}
		if s.Deadline.After(callerDeadline) {
			run.Violation("C13:attempt-outlives-caller:"+l.Step, fmt.Sprintf("%s: attempt %d deadline is %v after the caller's", desc, i+1, s.Deadline.Sub(callerDeadline)), cs, nil)
			return
		}
		if s.Deadline.After(s.At.Add(timeout + 100*time.Millisecond)) {
			run.Violation("C13:attempt-exceeds-timeout:"+l.Step, fmt.Sprintf("%s: attempt %d may block %v, per-attempt timeout is %v", desc, i+1, s.Deadline.Sub(s.At), timeout), cs, nil)
			return
		}
		if l.Fault == "expired" && !s.CtxDone {
			run.Violation("C13:transmission-with-expired-context:"+l.Step, fmt.Sprintf("%s: attempt %d transmitted although the caller's context had expired", desc, i+1), cs, nil)
			return
		}
	}
	if l.Fault == "expired" {
		if callErr == nil {
			run.Violation("C13:success-with-expired-context:"+l.Step, desc+": call succeeded", cs, nil)
			return
		}
		if el := time.Since(start); el > 2*time.Second {
			run.Inconclusive(fmt.Sprintf("%s: expired-context call took %v", desc, el))
		}
		return
	}
	if faultOn && callErr == nil {
		run.Violation("C13:success-without-valid-response:"+l.Step, desc+": call reported success although every reply from the fault on was invalid", cs, nil)
		return
	}
	if callErr == nil && validReplies == validBefore {
		run.Violation("C13:success-without-valid-response:"+l.Step, fmt.Sprintf("%s: call reported success although no valid response was delivered while it ran (%d transmissions)", desc, len(recs)), cs, nil)
		return
	}
	// after the caller's context ended nothing more may be transmitted
	ended := false
	for _, s := range recs {
		if s.CtxDone {
			ended = true
		} else if ended {
			run.Violation("C13:transmission-after-context-ended:"+l.Step, desc+": a datagram was transmitted after an attempt had already found the context done", cs, nil)
			return
		}
	}
}

// c13Devices: a linear sensor (record, device answering its number) and a DCMI sensor-info pager whose
// enumeration takes several requests per entity.
func c13Devices(r *rand.Rand) (*ipmi.FullSensorRecord, *refbmc.SensorDevice, *refbmc.DCMISensorInfo) {
	body, _, _ := genFSR(r, 3, 6)
	body[18], body[15] = 0, body[15]&0x3f|0x80 // linear, two's complement
	rec := &ipmi.FullSensorRecord{}
	if err := rec.DecodeFromBytes(body, gopacket.NilDecodeFeedback); err != nil {
		panic("c13: generated record does not decode: " + err.Error())
	}
	sd := &refbmc.SensorDevice{}
	sd.Set(body[1]&3, body[2], []byte{0x55, 0x40, 0})
	dc := &refbmc.DCMISensorInfo{PageSize: 2, IDs: map[[2]byte][]uint16{{1, 0x37}: {1, 2, 3, 4, 5}, {1, 0x03}: {9, 8, 7}, {1, 0x07}: {0x20},
		{1, 0x40}: {1, 2, 3, 4, 5}, {1, 0x41}: {9, 8, 7}, {1, 0x42}: {0x20}}}
	return rec, sd, dc
}

// c13AlignedSuites is an advertisement of 16+16+13 bytes whose first and second 16-byte chunks
// each end on a record boundary (5+5+6 and 6+10), so that a prefix of whole chunks parses.
func c13AlignedSuites() []byte {
	return refbmc.EncodeSuiteRecords([]refbmc.SuiteRecord{
		{ID: 1, Auth: 1, Integs: []byte{0}, Confs: []byte{0}}, {ID: 2, Auth: 1, Integs: []byte{1}, Confs: []byte{0}}, {ID: 3, Auth: 1, Integs: []byte{1, 2}, Confs: []byte{1}},
		{ID: 8, Auth: 2, Integs: []byte{2}, Confs: []byte{1, 2}}, {ID: 0x81, OEM: true, IANA: 0x00b4e2, Auth: 1, Integs: []byte{1, 2}, Confs: []byte{1, 2}},
		{ID: 17, Auth: 3, Integs: []byte{4}, Confs: []byte{1}}, {ID: 0xc0, OEM: true, IANA: 0x000157, Auth: 3, Integs: []byte{4}, Confs: []byte{1}}})
}

// c13FFRun is a datagram that claims to be authenticated and ends in a long
// run of 0xFF bytes, the value of the integrity pad: more of them than a pad
// length byte can count.
func c13FFRun(b *refbmc.BMC, r *rand.Rand) []byte {
	var sid uint32
	if b.Sess != nil {
		sid = b.Sess.ConsoleSID
	}
	n := 16 * r.Intn(3)
	d := []byte{6, 0, 0xff, 7, 6, []byte{0x40, 0xc0}[r.Intn(2)]}
	d = append(d, refbmc.LE32(sid)...)
	d = append(d, refbmc.LE32(uint32(1+r.Intn(100)))...)
	d = append(d, byte(n), 0)
	d = append(d, rbytes(r, n)...)
	for i := 255 + r.Intn(200); i > 0; i-- {
		d = append(d, 0xff)
	}
	if r.Intn(2) == 0 {
		d = append(d, 2, 7)
		d = append(d, rbytes(r, 12)...)
	}
	return d
}
