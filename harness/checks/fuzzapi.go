package checks

import (
	"math/rand"
	"sort"
	"sync"

	"verifharness/ev"
)

// The functions in this file expose C05's ring-1 oracles (exact-capacity
// decode, poisoned-tail differential, hang guard, the cipher-suite retrieval
// over record data) to Go's coverage-guided fuzzer (harness/fuzz). The fuzzer
// only chooses the inputs; what counts as a violation is decided by the same
// code as in the enumerated rings, and a violation leaves the same replay file.

var fuzzState struct {
	once  sync.Once
	run   *ev.Run
	specs []layerSpec
	pkts  []string
}

func fuzzInit() {
	fuzzState.once.Do(func() {
		fuzzState.run = ev.NewRun("C05", "fuzz", 0, "fault_enumeration")
		fuzzState.specs = specs()
		for k := range packetTypes {
			fuzzState.pkts = append(fuzzState.pkts, k)
		}
		sort.Strings(fuzzState.pkts)
	})
}

func fuzzVerdict(before int) string {
	if fuzzState.run.Violations() > before {
		return fuzzState.run.LastViolation()
	}
	return ""
}

// FuzzLayer decodes data with the sel-th layer decoder under C05's oracle.
func FuzzLayer(sel uint8, data []byte) string {
	fuzzInit()
	before := fuzzState.run.Violations()
	sp := &fuzzState.specs[int(sel)%len(fuzzState.specs)]
	c05Decode(fuzzState.run, sp, data, "fuzz")
	return fuzzVerdict(before)
}

// FuzzPacket runs data through the registered gopacket decoders starting at the sel-th layer type.
func FuzzPacket(sel uint8, data []byte) string {
	fuzzInit()
	before := fuzzState.run.Violations()
	if len(data) > 512 {
		data = data[:512]
	}
	c05Packet(fuzzState.run, fuzzState.pkts[int(sel)%len(fuzzState.pkts)], data)
	return fuzzVerdict(before)
}

// FuzzSuiteData serves data as cipher suite record data to a real RetrieveSupportedCipherSuites call.
func FuzzSuiteData(data []byte) string {
	fuzzInit()
	before := fuzzState.run.Violations()
	if len(data) > 1023 {
		data = data[:1023]
	}
	c05SuiteData(fuzzState.run, data, "fuzz")
	return fuzzVerdict(before)
}

// FuzzString decodes data as an ID string of c characters in all four encodings.
func FuzzString(c uint8, data []byte) string {
	fuzzInit()
	before := fuzzState.run.Violations()
	if len(data) > 64 {
		data = data[:64]
	}
	c05String(fuzzState.run, int(c)%40, data)
	return fuzzVerdict(before)
}

// FuzzSeedLayers returns one valid encoding per layer (selector, bytes) as the seed corpus.
func FuzzSeedLayers() (sels []uint8, datas [][]byte) {
	fuzzInit()
	r := rand.New(rand.NewSource(1))
	for i := range fuzzState.specs {
		for k := 0; k < 3; k++ {
			b, _, _ := fuzzState.specs[i].Gen(r)
			sels, datas = append(sels, uint8(i)), append(datas, b)
		}
	}
	return
}

// FuzzPacketCount is the number of packet entry layer types.
func FuzzPacketCount() int { fuzzInit(); return len(fuzzState.pkts) }
