package checks

import (
	"fmt"
	"math/rand"
	"time"

	"verifharness/ev"
	"verifharness/memtr"
	"verifharness/refbmc"

	"github.com/gebn/bmc"
	"github.com/gebn/bmc/pkg/dcmi"
	"github.com/gebn/bmc/pkg/ipmi"
)

type c16Suites struct {
	Hex string // raw cipher suite record data served by the BMC
	// Prior lists the record data of earlier retrievals on the same connection
	Prior []string `json:",omitempty"`
}

// c16Conn is a connection that serves several retrievals, one after another.
type c16Conn struct {
	e      *Env
	server *refbmc.CipherSuiteServer
	prior  []string
}

type c16SuitesFault struct {
	Hex     string
	K       int
	Variant int
}

type c16DCMI struct {
	Counts   [3]int
	PageSize int
	Mode     string // standard | standard-empty | standard-error | standard-error-first | both-empty
	Seed     int64
}

type c16Batch struct {
	What     string
	From, To int
	Seed     int64
}

func init() {
	register(&Check{
		ID:    "C16",
		Level: "exploration",
		Rule: "cipher suites: record lists of 0..20 standard/OEM records with 0..3 integrity and confidentiality algorithms each are encoded (table 22-19) and served in 16-byte chunks; total lengths are steered onto exact multiples of 16 and +-1 and 1..5+ chunks; the result must equal the in-order cross-product expansion computed by an independent grammar, " +
			"and malformed data (bad start tag, record cut at every byte, stray tags, reserved tag 11) must give an error and no list; at most 65 requests. " +
			"DCMI: instance counts 0..255 (every value) x page sizes 1..8 x per-entity counts x {standard IDs answered, empty, error on first/any entity, both families empty}: result must be exactly the BMC's record IDs per entity in order, from the family the model selects, with bounded requests. " +
			"non-trivial = enumeration needed more than one request or exercised the fallback/malformed path; distinct = distinct (total length mod 16, chunks, record shape) / (count, page size, mode)",
		Assumptions: []string{"standard entity IDs 0x37/0x03/0x07 and DCMI-specific 0x40/0x41/0x42 (checked against the library's constants at start-up)"},
		Gen: func(tier string, seed int64) []ev.Case {
			var cs []ev.Case
			n := 5000
			if tier == "thorough" {
				n = 200000
			}
			for f := 0; f < n; f += 500 {
				cs = append(cs, ev.MkCase("batch", c16Batch{What: "suites", From: f, To: f + 500, Seed: seed}))
			}
			cs = append(cs, ev.MkCase("batch", c16Batch{What: "malformed", Seed: seed}))
			cs = append(cs, ev.MkCase("batch", c16Batch{What: "endless", Seed: seed}))
			for f := 0; f < 256; f += 8 {
				cs = append(cs, ev.MkCase("batch", c16Batch{What: "dcmi", From: f, To: f + 8, Seed: seed}))
			}
			if tier == "thorough" {
				for k := 1; k < 8; k++ {
					for f := 0; f < 256; f += 8 {
						cs = append(cs, ev.MkCase("batch", c16Batch{What: "dcmi-full", From: f, To: f + 8, Seed: seed + int64(k)}))
					}
				}
			}
			return cs
		},
		Exec:    c16Exec,
		Anchors: []string{"RetrieveSupportedCipherSuites", "parseCipherSuiteRecordData", "GetSensorInfo", "getSensorMap", "getEntityInstances"},
	})
}

type c16Entry struct {
	ID                byte
	Auth, Integ, Conf byte
	Enterprise        uint32
}

// c16RefParse is the independent grammar for cipher suite record data.
func c16RefParse(d []byte) ([]c16Entry, bool) {
	var out []c16Entry
	i := 0
	for i < len(d) {
		if d[i] != 0xc0 && d[i] != 0xc1 {
			return nil, false
		}
		oem := d[i] == 0xc1
		i++
		if i >= len(d) {
			return nil, false
		}
		e := c16Entry{ID: d[i]}
		i++
		if oem {
			if i+3 > len(d) {
				return nil, false
			}
			e.Enterprise = uint32(d[i]) | uint32(d[i+1])<<8 | uint32(d[i+2])<<16
			i += 3
		}
		if i >= len(d) || d[i]>>6 != 0 {
			return nil, false
		}
		e.Auth = d[i] & 0x3f
		i++
		var integs, confs []byte
		for i < len(d) && d[i]>>6 == 1 {
			integs = append(integs, d[i]&0x3f)
			i++
		}
		for i < len(d) && d[i]>>6 == 2 {
			confs = append(confs, d[i]&0x3f)
			i++
		}
		if len(integs) == 0 {
			integs = []byte{0}
		}
		if len(confs) == 0 {
			confs = []byte{0}
		}
		for _, a := range integs {
			for _, b := range confs {
				x := e
				x.Integ, x.Conf = a, b
				out = append(out, x)
			}
		}
	}
	return out, true
}

func c16RandRecords(r *rand.Rand, n int) []refbmc.SuiteRecord {
	var recs []refbmc.SuiteRecord
	for i := 0; i < n; i++ {
		rec := refbmc.SuiteRecord{ID: byte(r.Intn(256)), Auth: byte(r.Intn(64)), OEM: r.Intn(3) == 0}
		if rec.OEM {
			rec.IANA = uint32(r.Intn(1 << 24))
		}
		for k := r.Intn(4); k > 0; k-- {
			rec.Integs = append(rec.Integs, byte(r.Intn(64)))
		}
		for k := r.Intn(4); k > 0; k-- {
			rec.Confs = append(rec.Confs, byte(r.Intn(64)))
		}
		recs = append(recs, rec)
	}
	return recs
}

func c16Exec(run *ev.Run, c ev.Case) {
	switch c.Kind {
	case "suites":
		var s c16Suites
		c.Decode(&s)
		if len(s.Prior) > 0 {
			conn := &c16Conn{}
			for _, h := range s.Prior {
				c16RunSuitesOn(run, unhex(h), "replay-prior", conn)
			}
			c16RunSuitesOn(run, unhex(s.Hex), "replay", conn)
			return
		}
		c16RunSuites(run, unhex(s.Hex), "replay")
	case "suites-fault":
		var f c16SuitesFault
		c.Decode(&f)
		c16RunSuitesFault(run, unhex(f.Hex), f.K, f.Variant)
	case "dcmi":
		var d c16DCMI
		c.Decode(&d)
		c16RunDCMI(run, d)
	case "batch":
		var b c16Batch
		c.Decode(&b)
		r := rng(b.Seed+int64(b.From), "c16"+b.What)
		switch b.What {
		case "suites":
			var shared *c16Conn
			for i := b.From; i < b.To; i++ {
				n := r.Intn(21)
				if i%25 == 7 {
					// long lists: 16..64 chunks (the list index is 6 bits wide: at most 1024 bytes)
					n = 50 + r.Intn(150)
				}
				recs := c16RandRecords(r, n)
				data := refbmc.EncodeSuiteRecords(recs)
				for len(data) > 1023 {
					recs = recs[:len(recs)-1]
					data = refbmc.EncodeSuiteRecords(recs)
				}
				if i%25 == 7 && i%50 == 7 {
					// exact multiples of 256 bytes and their neighbours
					for len(data) > 256*(1+i%3)+i%2 && len(recs) > 0 {
						recs = recs[:len(recs)-1]
						data = refbmc.EncodeSuiteRecords(recs)
					}
				}
				// steer the total length onto chunk boundaries and their neighbours
				target := []int{0, 15, 16, 17, 31, 32, 33, 47, 48, 49, 63, 64, 65, 79, 80, 81}[i%16]
				if i%3 != 0 && i%25 != 7 {
					for tries := 0; tries < 200 && len(data) != target; tries++ {
						if len(data) > target {
							if len(recs) == 0 {
								break
							}
							recs = recs[:len(recs)-1]
						} else {
							gap := target - len(data)
							rec := refbmc.SuiteRecord{ID: byte(r.Intn(256)), Auth: byte(r.Intn(64))}
							switch {
							case gap >= 6 && r.Intn(2) == 0:
								rec.OEM, rec.IANA = true, uint32(r.Intn(1<<24))
								gap -= 6
							case gap >= 3:
								gap -= 3
							default:
								// cannot fit a record: grow an algorithm list of the last record
								if len(recs) > 0 {
									recs[len(recs)-1].Confs = append(recs[len(recs)-1].Confs, byte(r.Intn(64)))
									data = refbmc.EncodeSuiteRecords(recs)
								}
								continue
							}
							for k := 0; k < gap && k < 6; k++ {
								if k%2 == 0 {
									rec.Integs = append(rec.Integs, byte(r.Intn(64)))
								} else {
									rec.Confs = append(rec.Confs, byte(r.Intn(64)))
								}
							}
							recs = append(recs, rec)
						}
						data = refbmc.EncodeSuiteRecords(recs)
					}
				}
				c16RunSuites(run, data, "valid")
				if i%5 == 1 && len(data) > 16 {
					// the enumeration fails part-way: a list index that still has data behind it is refused, or
					// every reply to it is lost (a refusal of the empty chunk after an exact multiple of 16
					// bytes is left out: the list is complete by then, and the property does not say which
					// of error and list is right)
					c16RunSuitesFault(run, data, 1+r.Intn((len(data)-1)/16), i/5)
				}
				if i%2 == 0 {
					// the same retrieval on a connection that has done retrievals before
					if shared == nil || len(shared.prior) > 40 {
						shared = &c16Conn{}
					}
					c16RunSuitesOn(run, data, "valid-used-connection", shared)
				}
			}
		case "endless":
			// a BMC that answers every list index with a full 16-byte chunk: the enumeration must still stop
			for _, variant := range []int{0, 1, 2, 3} {
				c16Endless(run, variant, b.Seed)
			}
		case "malformed":
			for i := 0; i < 300; i++ {
				recs := c16RandRecords(r, 1+r.Intn(6))
				data := refbmc.EncodeSuiteRecords(recs)
				for cut := 0; cut <= len(data); cut++ {
					c16RunSuites(run, data[:cut], "cut")
				}
				for k := 0; k < 12 && len(data) > 0; k++ {
					m := append([]byte(nil), data...)
					p := r.Intn(len(m))
					m[p] = []byte{0xc0, 0xc1, 0xc2, 0xff, 0x00, 0x41, 0x81, 0x3f}[r.Intn(8)]
					c16RunSuites(run, m, "mutated")
				}
				// stray tag: integrity algorithm after the confidentiality list
				c16RunSuites(run, append(append([]byte(nil), data...), 0x41), "stray")
			}
		case "dcmi", "dcmi-full":
			modes := []string{"standard", "standard-empty", "standard-error", "standard-error-first", "both-empty", "standard-error-later-page", "overclaim"}
			for n := b.From; n < b.To; n++ {
				pageSizes := []int{1, 2, 3, 4, 5, 6, 7, 8}
				if n%16 == 0 || n >= 250 || (n >= 126 && n <= 130) {
					// pages larger than the specification's 8 (the library does not enforce that limit)
					pageSizes = append(pageSizes, 9, 16, 64, 127, 128, 129, 200)
				}
				for _, ps := range pageSizes {
					if b.What == "dcmi" && (n+ps)%3 != 0 && n > 16 && n < 250 && ps <= 8 {
						continue
					}
					for mi, m := range modes {
						if b.What == "dcmi" && (n+ps+mi)%2 != 0 && n > 16 && n < 250 {
							continue
						}
						c16RunDCMI(run, c16DCMI{Counts: [3]int{n, (n*7 + ps) % 256, (255 - n + mi) % 256}, PageSize: ps, Mode: m, Seed: b.Seed})
					}
				}
			}
		}
	}
}

func c16RunSuites(run *ev.Run, data []byte, class string) { c16RunSuitesOn(run, data, class, nil) }

func c16RunSuitesOn(run *ev.Run, data []byte, class string, conn *c16Conn) {
	run.Eval(1)
	cs := ev.MkCase("suites", c16Suites{Hex: ev.Hex(data)})
	if conn == nil {
		conn = &c16Conn{}
	} else {
		cs = ev.MkCase("suites", c16Suites{Hex: ev.Hex(data), Prior: append([]string(nil), conn.prior...)})
	}
	if conn.e == nil {
		cfg := defaultCfg(rng(int64(len(data)), "c16cfg"))
		conn.e = NewEnv(cfg, memtr.Window)
		conn.server = &refbmc.CipherSuiteServer{Channel: 2}
		conn.e.BMC.Handler = conn.server.Handle
	}
	e, server := conn.e, conn.server
	server.Data, server.Requests = data, nil
	conn.prior = append(conn.prior, ev.Hex(data))
	ctx, cancel := e.LimitCtx(80)
	defer cancel()
	var got []ipmi.CipherSuiteRecord
	var err error
	pv, st := safe(func() { got, err = bmc.RetrieveSupportedCipherSuites(ctx, e.ST) })
	desc := fmt.Sprintf("cipher suite data (%d bytes, %s) %x", len(data), class, data)
	if pv != nil {
		run.Violation("C16:suites:panic:"+panicSite(st), fmt.Sprintf("%s: %v\n%s", desc, pv, trimStack(st)), cs, nil)
		return
	}
	want, ok := c16RefParse(data)
	chunks := len(server.Requests)
	if chunks > 1 || !ok {
		run.Nontrivial(fmt.Sprintf("suites|%d|%d|%v|%s", len(data)%16, chunks, ok, class))
	}
	run.Event("cipher-suite-requests", chunks)
	wantChunks := len(data)/16 + 1
	if wantChunks > 65 {
		wantChunks = 65
	}
	for i, idx := range server.Requests {
		if int(idx) != i {
			run.Violation("C16:suites:list-index-order", fmt.Sprintf("%s: request %d asked for list index %d", desc, i, idx), cs, nil)
			return
		}
	}
	if chunks != wantChunks {
		run.Violation("C16:suites:request-count", fmt.Sprintf("%s: %d Get Channel Cipher Suites requests, expected %d", desc, chunks, wantChunks), cs, nil)
		return
	}
	if !ok {
		if err == nil {
			run.Violation("C16:suites:malformed-accepted", fmt.Sprintf("%s: malformed record data returned %d entries and no error", desc, len(got)), cs, nil)
		} else if len(got) != 0 {
			run.Violation("C16:suites:partial-list-with-error", fmt.Sprintf("%s: error %v together with %d entries", desc, err, len(got)), cs, nil)
		}
		return
	}
	if err != nil {
		run.Violation("C16:suites:valid-data-rejected", fmt.Sprintf("%s: %v", desc, err), cs, nil)
		return
	}
	if len(got) != len(want) {
		run.Violation("C16:suites:entry-count", fmt.Sprintf("%s: %d entries, expected %d", desc, len(got), len(want)), cs, nil)
		return
	}
	for i := range want {
		g := got[i]
		if byte(g.CipherSuiteID) != want[i].ID || byte(g.AuthenticationAlgorithm) != want[i].Auth || byte(g.IntegrityAlgorithm) != want[i].Integ ||
			byte(g.ConfidentialityAlgorithm) != want[i].Conf || uint32(g.Enterprise) != want[i].Enterprise {
			run.Violation("C16:suites:entry-mismatch", fmt.Sprintf("%s: entry %d is %+v, expected %+v", desc, i, g, want[i]), cs, nil)
			return
		}
	}
	if len(data)%16 == 0 && len(data) > 16 && len(data) < 70 {
		run.Sample("suites", map[string]any{"record_data": ev.Hex(data), "chunks_requested": chunks, "entries": len(want)})
	}
}

// c16RunSuitesFault serves valid record data up to list index k-1 and fails every request for
// index k and later: with a permanent completion code, or by never delivering a usable reply
// until the (logically bounded) context ends. Whatever prefix was gathered, the result must be an
// error and no list.
func c16RunSuitesFault(run *ev.Run, data []byte, k int, variant int) {
	run.Eval(1)
	modes := []string{"cc:c1", "lost", "cc:cc", "garbage", "cc:d4", "cc:ff", "cc:c9", "cc:80"}
	mode := modes[variant%len(modes)]
	cs := ev.MkCase("suites-fault", c16SuitesFault{Hex: ev.Hex(data), K: k, Variant: variant})
	cfg := defaultCfg(rng(int64(len(data)), "c16cfg"))
	e := NewEnv(cfg, memtr.Window)
	server := &refbmc.CipherSuiteServer{Channel: 2, Data: data}
	failing := false
	e.BMC.Handler = func(evn *refbmc.Event) (byte, []byte, bool) {
		failing = false
		if evn.NetFn == 6 && evn.Cmd == 0x54 && len(evn.Data) == 3 && int(evn.Data[2]&0x3f) >= k {
			failing = true
			if len(mode) > 3 && mode[:3] == "cc:" {
				return unhex(mode[3:])[0], nil, true
			}
		}
		return server.Handle(evn)
	}
	e.Filter = func(n int, req, reply []byte) ([]byte, error) {
		if failing && mode == "lost" {
			return nil, nil
		}
		if failing && mode == "garbage" {
			return []byte{6, 0, 0xff, 7, 6, 0x55, 1}, nil
		}
		return reply, nil
	}
	ctx, cancel := e.LimitCtx(k + 6)
	defer cancel()
	var got []ipmi.CipherSuiteRecord
	var err error
	pv, st := safe(func() { got, err = bmc.RetrieveSupportedCipherSuites(ctx, e.ST) })
	desc := fmt.Sprintf("cipher suite data (%d bytes) %x with list index %d and later failing (%s)", len(data), data, k, mode)
	if pv != nil {
		run.Violation("C16:suites:panic:"+panicSite(st), fmt.Sprintf("%s: %v\n%s", desc, pv, trimStack(st)), cs, nil)
		return
	}
	_, prefixParses := c16RefParse(data[:16*k])
	run.Nontrivial(fmt.Sprintf("suites-fault|%s|%v|%d", mode, prefixParses, k))
	run.Event("cipher-suite-requests", len(server.Requests))
	if err == nil {
		run.Violation("C16:suites:partial-list-after-failure", fmt.Sprintf("%s: %d entries and no error although the enumeration never got past list index %d (the chunks before it parse on their own: %v)", desc, len(got), k, prefixParses), cs, nil)
	} else if len(got) != 0 {
		run.Violation("C16:suites:partial-list-with-error", fmt.Sprintf("%s: error %v together with %d entries", desc, err, len(got)), cs, nil)
	}
}

func c16RunDCMI(run *ev.Run, d c16DCMI) {
	run.Eval(1)
	cs := ev.MkCase("dcmi", d)
	if byte(ipmi.EntityIDAirInlet) != 0x37 || byte(ipmi.EntityIDProcessor) != 0x03 || byte(ipmi.EntityIDSystemBoard) != 0x07 ||
		byte(ipmi.EntityIDDCMIAirInlet) != 0x40 || byte(ipmi.EntityIDDCMIProcessor) != 0x41 || byte(ipmi.EntityIDDCMISystemBoard) != 0x42 {
		run.Violation("C16:dcmi:entity-id-constants", "the library's entity ID constants differ from the specification values 0x37/0x03/0x07 and 0x40/0x41/0x42", cs, nil)
		return
	}
	r := rng(d.Seed+int64(d.Counts[0]*8+d.PageSize), "c16dcmi"+d.Mode)
	cfg := defaultCfg(r)
	e := NewEnv(cfg, memtr.Window)
	e.BMC.KeepLog = false
	std := [3]byte{0x37, 0x03, 0x07}
	dc := [3]byte{0x40, 0x41, 0x42}
	srv := &refbmc.DCMISensorInfo{PageSize: d.PageSize, IDs: map[[2]byte][]uint16{}, ErrFor: map[byte]byte{}}
	mkIDs := func(n int) []uint16 {
		ids := make([]uint16, n)
		for i := range ids {
			ids[i] = uint16(r.Intn(65536))
		}
		return ids
	}
	var wantFamily [3][]uint16
	stdIDs := [3][]uint16{mkIDs(d.Counts[0]), mkIDs(d.Counts[1]), mkIDs(d.Counts[2])}
	dcIDs := [3][]uint16{mkIDs(d.Counts[2]), mkIDs(d.Counts[0]), mkIDs(d.Counts[1])}
	useStd := false
	wantErr := false
	switch d.Mode {
	case "standard":
		useStd = d.Counts[0]+d.Counts[1]+d.Counts[2] > 0
	case "standard-empty":
		stdIDs = [3][]uint16{nil, nil, nil}
	case "standard-error":
		srv.ErrFor[std[1+d.PageSize%2]] = 0xcc
	case "standard-error-first":
		srv.ErrFor[std[0]] = 0xc1
	case "both-empty":
		stdIDs = [3][]uint16{nil, nil, nil}
		dcIDs = [3][]uint16{nil, nil, nil}
	case "overclaim":
		// the BMC reports more instances than it returns record IDs for: pages past the real
		// ones are empty, and the enumeration has to stop there
		srv.Overclaim = 1 + (d.Counts[0]+d.PageSize)%7
		useStd = d.Counts[0]+d.Counts[1]+d.Counts[2] > 0
	case "standard-error-later-page":
		// the first page(s) of one standard entity are answered, a later one fails
		k := (d.Counts[0] + d.PageSize) % 3
		from := d.PageSize*(1+d.Counts[1]%2) + 1
		srv.ErrFrom = map[byte]int{std[k]: from}
		useStd = d.Counts[0]+d.Counts[1]+d.Counts[2] > 0 && len(stdIDs[k]) < from
	}
	for i := 0; i < 3; i++ {
		srv.IDs[[2]byte{1, std[i]}] = stdIDs[i]
		srv.IDs[[2]byte{1, dc[i]}] = dcIDs[i]
	}
	if useStd {
		wantFamily = stdIDs
	} else {
		wantFamily = dcIDs
	}
	e.BMC.Handler = srv.Handle
	ctx, cancel := bg(30 * time.Second)
	defer cancel()
	sess, err := e.OpenSession(ctx, stdSuites()[(d.Counts[0]+d.PageSize)%9])
	if err != nil {
		run.Violation("C16:dcmi:handshake-failed", err.Error(), cs, nil)
		return
	}
	lctx, lcancel := e.LimitCtx(3*2*260 + 10)
	defer lcancel()
	var info *dcmi.SensorInfo
	pv, st := safe(func() { info, err = dcmi.GetSensorInfo(lctx, sess) })
	desc := fmt.Sprintf("DCMI sensor info counts %v page size %d mode %s", d.Counts, d.PageSize, d.Mode)
	if pv != nil {
		run.Violation("C16:dcmi:panic:"+panicSite(st), fmt.Sprintf("%s: %v\n%s", desc, pv, trimStack(st)), cs, nil)
		return
	}
	run.Event("dcmi-sensor-info-requests", len(srv.Requests))
	if len(srv.Requests) > 3 || d.Mode != "standard" {
		run.Nontrivial(fmt.Sprintf("dcmi|%v|%d|%s", d.Counts, d.PageSize, d.Mode))
	}
	if len(srv.Requests) > 3*2*257 {
		run.Violation("C16:dcmi:unbounded", fmt.Sprintf("%s: %d requests", desc, len(srv.Requests)), cs, nil)
		return
	}
	if wantErr != (err != nil) {
		run.Violation("C16:dcmi:error", fmt.Sprintf("%s: err=%v", desc, err), cs, nil)
		return
	}
	got := [3][]ipmi.RecordID{info.Inlet, info.CPU, info.Baseboard}
	for i := 0; i < 3; i++ {
		if len(got[i]) != len(wantFamily[i]) {
			key := "C16:dcmi:record-id-count"
			if !useStd && len(got[i]) == len(stdIDs[i]) && d.Mode == "standard" {
				key = "C16:dcmi:wrong-family"
			}
			run.Violation(key, fmt.Sprintf("%s: entity %d returned %d record IDs, expected %d (standard family expected: %v)", desc, i, len(got[i]), len(wantFamily[i]), useStd), cs, nil)
			return
		}
		for k := range wantFamily[i] {
			if uint16(got[i][k]) != wantFamily[i][k] {
				run.Violation("C16:dcmi:record-id-mismatch", fmt.Sprintf("%s: entity %d record %d is %#x, expected %#x", desc, i, k, got[i][k], wantFamily[i][k]), cs, nil)
				return
			}
		}
	}
	// paging discipline seen by the BMC: instance 0 and 1-based, strictly advancing starts per entity
	last := map[byte]int{}
	for _, rq := range srv.Requests {
		if rq.Type != 1 || rq.Instance != 0 {
			run.Violation("C16:dcmi:request-fields", fmt.Sprintf("%s: request %+v", desc, rq), cs, nil)
			return
		}
		if prev, ok := last[rq.Entity]; ok && int(rq.Start) <= prev {
			run.Violation("C16:dcmi:paging-not-advancing", fmt.Sprintf("%s: entity %#x asked for start %d after %d", desc, rq.Entity, rq.Start, prev), cs, nil)
			return
		}
		last[rq.Entity] = int(rq.Start)
	}
	// a second enumeration over the same session after the BMC has recovered (its standard entity
	// IDs now answer, with other record IDs): what the first one had to do says nothing about this one
	if d.Mode != "standard" && d.Mode != "overclaim" && (d.Counts[0]+d.PageSize)%2 == 0 {
		srv.ErrFor, srv.ErrFrom, srv.Overclaim = map[byte]byte{}, nil, 0
		std2 := [3][]uint16{mkIDs(d.Counts[1]), mkIDs(d.Counts[2]), mkIDs(d.Counts[0])}
		for i := 0; i < 3; i++ {
			srv.IDs[[2]byte{1, std[i]}] = std2[i]
		}
		want2 := std2
		if d.Counts[0]+d.Counts[1]+d.Counts[2] == 0 {
			want2 = dcIDs
		}
		srv.Requests = nil
		l2, c2 := e.LimitCtx(3*2*260 + 10)
		var info2 *dcmi.SensorInfo
		var err2 error
		pv2, st2 := safe(func() { info2, err2 = dcmi.GetSensorInfo(l2, sess) })
		c2()
		if pv2 != nil {
			run.Violation("C16:dcmi:panic:"+panicSite(st2), fmt.Sprintf("%s, second enumeration: %v\n%s", desc, pv2, trimStack(st2)), cs, nil)
			return
		}
		run.Nontrivial(fmt.Sprintf("dcmi-again|%v|%d|%s", d.Counts, d.PageSize, d.Mode))
		if err2 != nil || info2 == nil {
			run.Violation("C16:dcmi:second-enumeration", fmt.Sprintf("%s: a second enumeration on the same session, against the recovered BMC, failed: %v", desc, err2), cs, nil)
			return
		}
		got2 := [3][]ipmi.RecordID{info2.Inlet, info2.CPU, info2.Baseboard}
		for i := 0; i < 3; i++ {
			same := len(got2[i]) == len(want2[i])
			for k := 0; same && k < len(want2[i]); k++ {
				same = uint16(got2[i][k]) == want2[i][k]
			}
			if !same {
				run.Violation("C16:dcmi:second-enumeration", fmt.Sprintf("%s: a second enumeration on the same session, against the recovered BMC, returned %d record IDs for entity %d, expected the %d of the standard entity ID (requests: %d)", desc, len(got2[i]), i, len(want2[i]), len(srv.Requests)), cs, nil)
				return
			}
		}
	}
	if d.Counts[0] == 9 {
		run.Sample("dcmi-"+d.Mode, map[string]any{"counts": d.Counts, "page_size": d.PageSize, "mode": d.Mode, "requests": len(srv.Requests), "inlet_ids": len(info.Inlet)})
	}
}

// c16Endless serves a full chunk for every list index (variant selects the
// content) and requires the enumeration to stop within 66 requests.
func c16Endless(run *ev.Run, variant int, seed int64) {
	run.Eval(1)
	cs := ev.MkCase("batch", c16Batch{What: "endless", Seed: seed})
	cfg := defaultCfg(rng(seed, "c16endless"))
	e := NewEnv(cfg, memtr.Window)
	requests := 0
	chunk := []byte{0xc0, 0x01, 0x01, 0x41, 0x81, 0xc0, 0x02, 0x02, 0x42, 0x81, 0xc0, 0x03, 0x03, 0x44, 0x81, 0x82}
	e.BMC.Handler = func(evn *refbmc.Event) (byte, []byte, bool) {
		if evn.NetFn != 6 || evn.Cmd != 0x54 {
			return 0xc1, nil, true
		}
		requests++
		c := append([]byte(nil), chunk...)
		switch variant {
		case 1:
			for i := range c {
				c[i] = 0xc0 // only start-of-record tags
			}
		case 2:
			c[15] = byte(requests)
		case 3:
			c = append(c, 0xff, 0xff) // over-long reply: only 16 bytes belong to the chunk
		}
		return 0, append([]byte{1}, c...), true
	}
	ctx, cancel := e.LimitCtx(400)
	defer cancel()
	var err error
	pv, st := safe(func() { _, err = bmc.RetrieveSupportedCipherSuites(ctx, e.ST) })
	run.Nontrivial(fmt.Sprintf("endless|%d", variant))
	run.Event("cipher-suite-requests", requests)
	if pv != nil {
		run.Violation("C16:suites:panic:"+panicSite(st), fmt.Sprintf("endless full chunks (variant %d): %v\n%s", variant, pv, trimStack(st)), cs, nil)
		return
	}
	if requests > 66 {
		run.Violation("C16:suites:unbounded", fmt.Sprintf("a BMC answering every list index with a full chunk (variant %d) was asked %d times (call ended only because the harness cancelled it; err=%v)", variant, requests, err), cs, nil)
	}
}
