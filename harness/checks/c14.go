package checks

import (
	"fmt"
	"math/rand"
	"sort"
	"time"

	"verifharness/ev"
	"verifharness/memtr"
	"verifharness/refbmc"

	"github.com/gebn/bmc"
	"github.com/gebn/bmc/pkg/ipmi"
)

type c14P struct {
	Seed    int64
	NRecs   int
	FirstID int    // -1 random, else the first record's ID
	Fault   string // none | cancel | modify-add | modify-erase | modify-replace | ts-only | double | info-modify
	At      int    // inject before the At-th Get SDR (1-based); for info-modify: before the At-th repository info
	At2     int
	Suite   int
	// TS selects the timestamp regime: 0 ordinary; 1 modifications are stamped
	// 0xffffffff ("unspecified", also the largest stamp); 2 stamps cross
	// 0x7fffffff/0x80000000; 3 stamps start at 0; 4 stamps just below 0xffffffff
	TS int
	// Prior in-session commands (Get Device ID) and Again earlier retrievals on the same
	// session precede the judged retrieval: what a session has carried before says
	// nothing about what the repository holds
	Prior int `json:",omitempty"`
	Again int `json:",omitempty"`
}

type c14Batch struct {
	What     string
	From, To int
	Seed     int64
}

func init() {
	register(&Check{
		ID:      "C14",
		Level:   "exploration",
		Workers: 64,
		Rule: "generated repositories (1..40 records, sparse unordered IDs in 0..0xFFFE, first ID zero and non-zero, full/compact/FRU-locator/MC-locator/OEM records with bodies up to 59 bytes, ID strings in all four encodings with 0..16 bytes) are served by a stateful, versioned repository device through a real session; " +
			"faults are injected before the j-th Get SDR for every j of the walk: reservation cancelled, record added / erased / replaced with timestamp bump and reservation cancel, contents and timestamp changed without cancelling (non-conforming BMC), two faults in one retrieval, change between the walk and the final repository info. " +
			"Oracle: there is one repository version that existed during the call whose Full Sensor Records (decoded by refcodec values) equal the returned map exactly — none missing, extra, mis-keyed, every field equal — and the final walk read every record under one reservation within one version. " +
			"non-trivial = more than one record walked, or a fault was injected and noticed; distinct = distinct (record count class, first ID class, type mix, fault, position)",
		Assumptions: []string{"the library's own 500 ms exponential back-off is left in place (it cannot be replaced add-only); fault cases therefore sleep and are run 64 at a time",
			"the simulated repository requires the current reservation for partial reads and answers over-long reads with 0xCA, as a conforming BMC may"},
		Gen: func(tier string, seed int64) []ev.Case {
			var cs []ev.Case
			nfree, nfault := 300, 45
			if tier == "thorough" {
				nfree, nfault = 5000, 200
			}
			for f := 0; f < nfree; f += 25 {
				cs = append(cs, ev.MkCase("batch", c14Batch{What: "free", From: f, To: f + 25, Seed: seed}))
			}
			for i := 0; i < nfault; i++ {
				cs = append(cs, ev.MkCase("batch", c14Batch{What: "faults", From: i, Seed: seed}))
			}
			return cs
		},
		Exec:    c14Exec,
		Anchors: []string{"RetrieveSDRRepository", "walkSDRs", "GetSDRRsp).DecodeFromBytes", "SDR).DecodeFromBytes", "FullSensorRecord).DecodeFromBytes"},
	})
}

type c14Rec struct {
	rec  refbmc.SDRRecord
	want *ipmi.FullSensorRecord // nil for non-full records
}

func c14GenRepo(r *rand.Rand, n int, firstID int) []c14Rec {
	used := map[uint16]bool{}
	var out []c14Rec
	for i := 0; i < n; i++ {
		var id uint16
		for {
			switch r.Intn(4) {
			case 0:
				id = uint16(r.Intn(64))
			case 1:
				id = uint16(0xff00 + r.Intn(0xff))
			default:
				id = uint16(r.Intn(0xffff))
			}
			if i == 0 && firstID >= 0 {
				id = uint16(firstID)
			}
			if !used[id] && id != 0xffff && (id != 0 || i == 0) {
				break
			}
		}
		used[id] = true
		var rc c14Rec
		t := r.Intn(10)
		switch {
		case t < 6:
			enc := byte(r.Intn(4))
			nb := r.Intn(17) // bytes of ID string
			if r.Intn(5) == 0 {
				nb = 17 + r.Intn(5) // longer than the specification's 16, still within the 64-byte record body
			}
			nchars := nb
			switch enc {
			case 1:
				nchars = nb * 2
				if nchars > 31 {
					nchars = 31
				}
			case 2:
				nchars = nb * 8 / 6
				if nchars > 31 {
					nchars = 31
				}
			}
			body, want, _ := genFSR(r, enc, nchars)
			if len(body) > 64 {
				body, want, _ = genFSR(r, 3, 16)
			}
			rc = c14Rec{rec: refbmc.SDRRecord{ID: id, Type: 0x01, Body: body}, want: want}
		default:
			typ := []byte{0x02, 0x11, 0x12, 0xc0, 0x03, 0x08}[r.Intn(6)]
			blen := r.Intn(60)
			if r.Intn(3) == 0 {
				blen = r.Intn(256) // other record types may use the whole one-byte length; only their header is read
			}
			rc = c14Rec{rec: refbmc.SDRRecord{ID: id, Type: typ, Body: rbytes(r, blen)}}
		}
		out = append(out, rc)
	}
	return out
}

func c14Exec(run *ev.Run, c ev.Case) {
	switch c.Kind {
	case "one":
		var p c14P
		c.Decode(&p)
		c14One(run, p)
	case "batch":
		var b c14Batch
		c.Decode(&b)
		r := rng(b.Seed+int64(b.From), "c14"+b.What)
		switch b.What {
		case "free":
			for i := b.From; i < b.To; i++ {
				n := 1 + i%40
				if i%50 == 49 {
					n = 0 // an empty repository
				}
				first := -1
				switch i % 5 {
				case 0:
					first = 0
				case 1:
					first = 1
				case 2:
					first = 0xfffe
				}
				p := c14P{Seed: b.Seed*1000 + int64(i), NRecs: n, FirstID: first, Fault: "none", Suite: i % 9}
				switch i % 8 {
				case 3:
					p.Prior = []int{5, 40, 61, 62, 63, 64, 130, 260, 520}[(i/8)%9]
				case 6:
					p.Again = 1 + (i/8)%3
				}
				c14One(run, p)
			}
		case "faults":
			// one repository, every injection point of its walk, one fault kind per case
			n := 2 + r.Intn(5)
			first := []int{0, -1, 5}[b.From%3]
			faults := []string{"cancel", "modify-add", "modify-erase", "modify-replace", "ts-only", "double", "info-modify", "ts-only-erase", "cancel-only-renumber", "info-modify-repeatedly"}
			f := faults[b.From%len(faults)]
			// the walk issues at most 2 Get SDR per record
			for at := 1; at <= 2*n+1; at++ {
				p := c14P{Seed: b.Seed*77 + int64(b.From), NRecs: n, FirstID: first, Fault: f, At: at, Suite: b.From % 9, TS: (b.From / len(faults)) % 5}
				if f == "double" {
					p.At2 = at + 1 + r.Intn(3)
				}
				if f == "info-modify-repeatedly" {
					// the repository changes (timestamp moved, reservation kept) just before the closing
					// repository info of the first k walks, k = 1..4: every one of those walks is void
					if at > 4 {
						break
					}
				}
				if f == "info-modify" {
					if at > 2 {
						break
					}
					p.At = at + 1 // second info of the first attempt, or first info of a later attempt
				}
				c14One(run, p)
			}
		}
	}
}

func c14One(run *ev.Run, p c14P) {
	run.Eval(1)
	cs := ev.MkCase("one", p)
	r := rng(p.Seed, "c14one")
	cfg := defaultCfg(r)
	e := NewEnv(cfg, memtr.Window)
	e.BMC.KeepLog = false
	base := c14GenRepo(r, p.NRecs, p.FirstID)
	versions := map[int][]c14Rec{0: base}
	toRecs := func(x []c14Rec) []refbmc.SDRRecord {
		o := make([]refbmc.SDRRecord, len(x))
		for i := range x {
			o[i] = x[i].rec
		}
		return o
	}
	repo := refbmc.NewRepo(toRecs(base), 0x5f000000+uint32(r.Intn(1<<20)))
	// the two timestamps are independent counters: in half of the cases the
	// last erase is the more recent one, in the other half the last addition
	if r.Intn(2) == 0 {
		repo.EraseTS = repo.AddTS + uint32(1+r.Intn(5000))
	} else {
		repo.EraseTS = repo.AddTS - uint32(r.Intn(5000))
	}
	// the operation support byte the BMC advertises says nothing about whether its contents
	// can change (sensors come and go with hot-plugged hardware, firmware rewrites the repository)
	if r.Intn(2) == 0 {
		repo.OpSupportSet, repo.OpSupport = true, []byte{0x00, 0x01, 0x02, 0x03, 0x80, 0x83, 0x10, 0xff, 0x2f}[r.Intn(9)]
	}
	// half of the BMCs check the reservation ID on every partial read, the other half only where the
	// specification requires it (reads at a non-zero offset)
	repo.ReservationOnPartialOnly = r.Intn(2) == 0
	switch p.TS {
	case 1:
		repo.StampFn = func(uint32) uint32 { return 0xffffffff }
	case 2:
		repo.AddTS, repo.EraseTS = 0x7fffffff-uint32(r.Intn(2)), 0x7fffffff-uint32(r.Intn(2))
	case 3:
		repo.AddTS, repo.EraseTS = 0, 0
	case 4:
		repo.AddTS, repo.EraseTS = 0xfffffff0+uint32(r.Intn(4)), 0xfffffff0+uint32(r.Intn(4))
	}
	injected := 0
	modify := func(rp *refbmc.Repo, kind string, cancelResv bool) {
		cur := append([]c14Rec(nil), versions[rp.Version]...)
		switch kind {
		case "add":
			extra := c14GenRepo(r, 1, -1)
			if extra[0].rec.ID == 0 {
				// record ID 0000h in a request means "the first record": only a repository's first record
				// can carry it, and the new record goes anywhere
				extra[0].rec.ID = 0x4001
			}
			for _, x := range cur {
				if x.rec.ID == extra[0].rec.ID {
					extra[0].rec.ID ^= 0x4000
				}
			}
			pos := r.Intn(len(cur) + 1)
			if pos == 0 && len(cur) > 0 && cur[0].rec.ID == 0 {
				pos = 1 + r.Intn(len(cur)) // a record with ID 0000h stays the first one
			}
			cur = append(cur[:pos], append(extra, cur[pos:]...)...)
		case "erase":
			if len(cur) > 1 {
				pos := r.Intn(len(cur))
				cur = append(cur[:pos], cur[pos+1:]...)
			}
		case "replace":
			pos := r.Intn(len(cur))
			nw := c14GenRepo(r, 1, int(cur[pos].rec.ID))
			cur[pos] = nw[0]
		}
		rp.ModifyLocked(toRecs(cur), kind == "erase", cancelResv)
		versions[rp.Version] = cur
	}
	inject := func(rp *refbmc.Repo, second bool) {
		injected++
		switch p.Fault {
		case "cancel":
			rp.CancelLocked()
		case "modify-add":
			modify(rp, "add", true)
		case "modify-erase":
			modify(rp, "erase", true)
		case "modify-replace", "info-modify":
			modify(rp, "replace", true)
		case "info-modify-repeatedly":
			modify(rp, []string{"replace", "erase", "add"}[injected%3], false)
		case "ts-only":
			modify(rp, "replace", false)
		case "ts-only-erase":
			modify(rp, "erase", false)
		case "cancel-only-renumber":
			// contents and record IDs change, the reservation is cancelled, the timestamps stay
			rp.KeepStamps = true
			modify(rp, []string{"erase", "replace", "add"}[p.At%3], true)
			rp.KeepStamps = false
		case "double":
			if second {
				rp.CancelLocked()
			} else {
				modify(rp, "add", true)
			}
		}
	}
	if p.Fault != "none" && p.Fault != "info-modify" && p.Fault != "info-modify-repeatedly" {
		repo.BeforeGet = func(nth int, rp *refbmc.Repo) {
			if nth == p.At {
				inject(rp, false)
			}
			if p.At2 > 0 && nth == p.At2 {
				inject(rp, true)
			}
		}
	}
	if p.Fault == "info-modify-repeatedly" {
		repo.BeforeInfo = func(nth int, rp *refbmc.Repo) {
			// infos come in pairs (before and after a walk): the closing one of walks 1..At
			if nth%2 == 0 && nth/2 <= p.At {
				inject(rp, false)
			}
		}
	}
	if p.Fault == "info-modify" {
		repo.BeforeInfo = func(nth int, rp *refbmc.Repo) {
			if nth == p.At {
				inject(rp, false)
			}
		}
	}
	e.BMC.Handler = refbmc.Chain(repo.Handle, refbmc.Fixed(6, 0x01, 0, []byte{0x20, 0x81, 0x03, 0x15, 0x02, 0xbf, 0x57, 0x01, 0x00, 0x34, 0x12}))
	ctx, cancel := bg(12 * time.Second)
	defer cancel()
	sess, err := e.OpenSession(ctx, stdSuites()[p.Suite%9])
	if err != nil {
		run.Violation("C14:handshake-failed", err.Error(), cs, nil)
		return
	}
	for i := 0; i < p.Prior; i++ {
		if _, err := sess.GetDeviceID(ctx); err != nil {
			run.Violation("C14:prior-command-failed", fmt.Sprintf("Get Device ID %d of %d before the retrieval: %v", i+1, p.Prior, err), cs, nil)
			return
		}
	}
	for i := 0; i < p.Again; i++ {
		if _, err := bmc.RetrieveSDRRepository(ctx, sess); err != nil {
			run.Violation("C14:retrieval-failed:earlier-on-session", fmt.Sprintf("retrieval %d of %d before the judged one (%d records): %v", i+1, p.Again, p.NRecs, err), cs, nil)
			return
		}
	}
	logFrom := len(repo.Requests())
	sentFrom := e.T.Transmissions()
	var got bmc.SDRRepository
	pv, st := safe(func() { got, err = bmc.RetrieveSDRRepository(ctx, sess) })
	if len(base) == 0 {
		// an empty repository: the only thing to return is an empty set (and nothing may go wrong on the way)
		base = append(base, c14Rec{rec: refbmc.SDRRecord{ID: 0xfffe, Type: 0xc0}})
		base = base[:1]
		versions[0] = nil
	}
	desc := fmt.Sprintf("repository of %d records (first ID %#x) fault %s before request %d/%d", p.NRecs, base[0].rec.ID, p.Fault, p.At, p.At2)
	if p.Prior > 0 || p.Again > 0 {
		desc += fmt.Sprintf(" after %d commands and %d retrievals on the session", p.Prior, p.Again)
	}
	if pv != nil {
		run.Violation("C14:panic:"+panicSite(st), fmt.Sprintf("%s: %v\n%s", desc, pv, trimStack(st)), cs, nil)
		return
	}
	log := repo.Requests()
	run.Event("repository-requests", len(log))
	run.Max("commands_in_one_session", float64(len(log)+p.Prior))
	if p.Fault == "none" && pv == nil {
		// Every request of a fault-free case is answered, once, with a valid response by a conforming
		// repository device: nothing justifies sending a request again, and a walk over distinct
		// record IDs never asks the same thing twice in a row.
		judged := log[logFrom:]
		if sent := e.T.Transmissions() - sentFrom; sent != len(judged) {
			run.Violation("C14:transmissions-without-cause", fmt.Sprintf("%s: %d datagrams transmitted for %d repository requests served", desc, sent, len(judged)), cs, nil)
			return
		}
		for i := 1; i < len(judged); i++ {
			a, b := judged[i-1], judged[i]
			if a.CC == 0 && a.Kind == b.Kind && a.Kind == "getsdr" && a.ReqResv == b.ReqResv && a.RecID == b.RecID && a.Off == b.Off && a.Len == b.Len {
				n := 1
				for j := i + 1; j < len(judged) && judged[j].Kind == a.Kind && judged[j].RecID == a.RecID && judged[j].Off == a.Off; j++ {
					n++
				}
				run.Violation("C14:answered-request-sent-again", fmt.Sprintf("%s: Get SDR record %#x offset %d length %d was answered validly (request %d of the session) and then sent again %d time(s); err=%v", desc, a.RecID, a.Off, a.Len, logFrom+i+p.Prior, n, err), cs, nil)
				return
			}
		}
	}
	if err != nil {
		key := "C14:retrieval-failed"
		if p.NRecs == 0 {
			key = "C14:retrieval-failed:empty-repository"
		}
		for _, x := range base {
			if x.want != nil && x.want.Identity == "" {
				key = "C14:retrieval-failed:empty-id-string"
			}
		}
		run.Violation(key, fmt.Sprintf("%s: %v (repository requests: %d)", desc, err, len(log)), cs, nil)
		return
	}
	if p.NRecs > 1 || injected > 0 {
		types := ""
		for _, x := range base {
			types += fmt.Sprintf("%x", x.rec.Type)
		}
		run.Nontrivial(fmt.Sprintf("%d|%v|%s|%s|%d", p.NRecs, base[0].rec.ID == 0, types, p.Fault, p.At))
	}
	// existential predicate over the versions that existed during the call
	var reasons []string
	matched := -1
	for v := 0; v <= repo.Version; v++ {
		if why := c14Matches(got, versions[v]); why == "" {
			matched = v
			break
		} else {
			reasons = append(reasons, fmt.Sprintf("version %d: %s", v, why))
		}
	}
	if matched < 0 {
		key := "C14:result-matches-no-version"
		if _, ok := got[0]; ok && base[0].rec.ID != 0 && base[0].want != nil {
			if _, own := got[ipmi.RecordID(base[0].rec.ID)]; !own {
				key = "C14:first-record-keyed-by-request-id"
			}
		}
		run.Violation(key, fmt.Sprintf("%s: returned map (keys %v) equals no single repository version: %v", desc, c14Keys(got), reasons), cs, nil)
		return
	}
	// "If the BMC ... reports a newer addition or erase timestamp during the walk, the partial result is
	// discarded and the walk repeated": the walk whose result was returned is the one after the last
	// reservation; the repository info read before it and the one read after it must not show a newer
	// stamp (unsigned comparison; a stamp of 0xffffffff is the newest there is - and two of them in a row
	// are not "newer", which no console could tell apart either)
	{
		lastReserve := -1
		for i, rq := range log {
			if rq.Kind == "reserve" {
				lastReserve = i
			}
		}
		var before, after *refbmc.RepoReq
		for i := lastReserve - 1; i >= 0 && before == nil; i-- {
			if log[i].Kind == "info" {
				before = &log[i]
			}
		}
		for i := len(log) - 1; i > lastReserve && after == nil; i-- {
			if log[i].Kind == "info" {
				after = &log[i]
			}
		}
		if before != nil && after != nil && (after.AddTS > before.AddTS || after.EraseTS > before.EraseTS) {
			run.Violation("C14:modified-walk-returned", fmt.Sprintf("%s: the walk whose result was returned began with addition/erase stamps %#x/%#x and ended with %#x/%#x: the BMC reported a newer stamp, yet the result was kept", desc, before.AddTS, before.EraseTS, after.AddTS, after.EraseTS), cs, nil)
			return
		}
	}
	// the final walk: after the last reservation every Get SDR succeeded under that reservation within one version
	lastResv := -1
	for i, rq := range log {
		if rq.Kind == "reserve" {
			lastResv = i
		}
	}
	if lastResv < 0 && len(repo.Recs) == 0 && repo.Version == 0 {
		// an empty repository: there is nothing to walk, so nothing to reserve
		run.Event("empty-repositories-retrieved", 1)
		return
	}
	if lastResv < 0 {
		run.Violation("C14:no-reservation", desc+": no Reserve SDR Repository request seen", cs, nil)
		return
	}
	ver := -1
	for _, rq := range log[lastResv:] {
		if rq.Kind != "getsdr" {
			continue
		}
		if rq.CC != 0 || rq.ReqResv != log[lastResv].Resv {
			run.Violation("C14:final-walk-reservation", fmt.Sprintf("%s: final walk request %+v not served under reservation %#x", desc, rq, log[lastResv].Resv), cs, nil)
			return
		}
		if ver >= 0 && rq.Version != ver && !repo.ReservationOnPartialOnly {
			run.Violation("C14:final-walk-spans-versions", fmt.Sprintf("%s: final walk read versions %d and %d", desc, ver, rq.Version), cs, nil)
			return
		}
		ver = rq.Version
	}
	// (a BMC that checks the reservation only at non-zero offsets, and here also leaves its timestamps
	// alone, gives a console no way of noticing a change that is followed by header reads only; what
	// is returned then still has to be one version - the existential test above - but not the last)
	if ver >= 0 && ver != matched && c14Matches(got, versions[ver]) != "" && !repo.ReservationOnPartialOnly {
		run.Violation("C14:result-not-from-final-walk", fmt.Sprintf("%s: result equals version %d but the final walk read version %d", desc, matched, ver), cs, nil)
		return
	}
	if p.Fault != "none" && injected > 0 {
		run.Event("faults-injected", injected)
	}
	if p.NRecs%13 == 3 || (p.Fault != "none" && p.At == 2) {
		run.Sample(p.Fault, map[string]any{"records": p.NRecs, "first_id": base[0].rec.ID, "fault": p.Fault, "before_request": p.At, "versions": repo.Version + 1, "matched_version": matched, "repository_requests": len(log), "returned_keys": c14Keys(got)})
	}
}

func c14Keys(m bmc.SDRRepository) []int {
	var k []int
	for id := range m {
		k = append(k, int(id))
	}
	sort.Ints(k)
	return k
}

// c14Matches reports why the returned map differs from a repository version
// ("" if it is exactly that version's Full Sensor Records).
func c14Matches(got bmc.SDRRepository, ver []c14Rec) string {
	want := map[ipmi.RecordID]*ipmi.FullSensorRecord{}
	for _, x := range ver {
		if x.want != nil {
			want[ipmi.RecordID(x.rec.ID)] = x.want
		}
	}
	for id := range want {
		if _, ok := got[id]; !ok {
			return fmt.Sprintf("record %#x missing", id)
		}
	}
	for id := range got {
		if _, ok := want[id]; !ok {
			return fmt.Sprintf("unexpected key %#x", id)
		}
	}
	for id, w := range want {
		if d := fieldDiff(valueFields(got[id]), valueFields(w)); len(d) > 0 {
			return fmt.Sprintf("record %#x fields differ: %v", id, d)
		}
	}
	return ""
}
