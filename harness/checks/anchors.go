package checks

import (
	"fmt"
	"os"
	"os/exec"
	"path/filepath"
	"runtime/coverage"
	"sort"
	"strings"

	"verifharness/ev"
)

// checkAnchors is the coverage self-check: every library function named in the
// check's anchors that still exists in the tree must have been executed by this
// run. The binary is built with -cover for github.com/gebn/bmc/...; counters are
// flushed into GOCOVERDIR and read back with `go tool covdata func`. A function
// that exists but was never reached means the monitor had nothing to watch
// there: reported as INCONCLUSIVE, never as a violation and never as "held".
func checkAnchors(r *ev.Run, c *Check) {
	dir := os.Getenv("GOCOVERDIR")
	if dir == "" || len(c.Anchors) == 0 {
		return
	}
	if err := coverage.WriteMetaDir(dir); err != nil {
		r.Set("anchors_note", "binary not built with -cover: "+err.Error())
		return
	}
	if err := coverage.WriteCountersDir(dir); err != nil {
		r.Set("anchors_note", "coverage counters unavailable: "+err.Error())
		return
	}
	out, err := exec.Command("go", "tool", "covdata", "func", "-i="+dir).Output()
	if err != nil {
		r.Set("anchors_note", "go tool covdata failed: "+err.Error())
		return
	}
	type fn struct {
		name string
		pct  string
	}
	var fns []fn
	for _, l := range strings.Split(string(out), "\n") {
		f := strings.Fields(l)
		if len(f) != 3 || !strings.HasPrefix(f[0], "github.com/gebn/bmc") {
			continue
		}
		file := strings.SplitN(f[0], ":", 2)[0]
		pkg := filepath.Base(filepath.Dir(file))
		fns = append(fns, fn{pkg + "." + strings.ReplaceAll(f[1], "*", ""), f[2]})
	}
	reached, missing, gone := []string{}, []string{}, []string{}
	for _, a := range c.Anchors {
		a2 := strings.NewReplacer(")", "", "(*", "", "(", "").Replace(a)
		found, hit := false, false
		for _, f := range fns {
			if strings.Contains(f.name, a2) {
				found = true
				if f.pct != "0.0%" {
					hit = true
				}
			}
		}
		switch {
		case hit:
			reached = append(reached, a2)
		case found:
			missing = append(missing, a2)
		default:
			gone = append(gone, a2)
		}
	}
	sort.Strings(missing)
	r.Set("anchors_reached", len(reached))
	r.Set("anchors_total_existing", len(reached)+len(missing))
	r.Set("anchors_no_longer_in_tree", gone)
	r.Set("inconclusive_anchors", missing)
	fmt.Printf("ANCHORS property=%s reached=%d/%d not-in-tree=%d\n", c.ID, len(reached), len(reached)+len(missing), len(gone))
	for _, m := range missing {
		r.Inconclusive("anchor=" + m + " not reached")
	}
}
