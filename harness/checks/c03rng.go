package checks

import (
	"context"
	"crypto/rand"
	"errors"
	"fmt"
	"os"
	"os/exec"
	"strings"
	"time"

	"verifharness/ev"
	"verifharness/memtr"
	"verifharness/refbmc"

	"github.com/gebn/bmc/pkg/ipmi"
)

// The entropy source failing is a fault like any other, but crypto/rand.Reader is
// process-wide, so the scenario runs in a child process of its own: a session,
// one command, then one command during which every read of the entropy source
// fails, then one more. The child prints what the BMC received.

type failingReader struct{}

func (failingReader) Read([]byte) (int, error) { return 0, errors.New("entropy source unavailable") }

func init() {
	childEntries["c03rng"] = func(args []string) int {
		suite := 0
		if len(args) > 0 {
			fmt.Sscanf(args[0], "%d", &suite)
		}
		r := rng(int64(suite), "c03rng")
		cfg := defaultCfg(r)
		e := NewEnv(cfg, memtr.Window)
		e.BMC.Handler = refbmc.Fixed(6, 0x01, 0, []byte{0x20, 0x81, 0x03, 0x15, 0x02, 0xbf, 0x57, 0x01, 0x00, 0x34, 0x12})
		ctx, cancel := context.WithTimeout(context.Background(), 20*time.Second)
		defer cancel()
		sess, err := e.OpenSession(ctx, stdSuites()[suite%9])
		if err != nil {
			fmt.Println("RNG-CHILD setup-failed", err)
			return 0
		}
		ivs := map[string]int{}
		report := func(tag string, from int, cerr error) {
			n, reused, problems := 0, 0, 0
			for _, evn := range e.BMC.Since(from) {
				if evn.Kind != "session-ipmi" {
					continue
				}
				n++
				if evn.Problem != "" {
					problems++
				}
				if evn.IV != nil {
					ivs[string(evn.IV)]++
					if ivs[string(evn.IV)] > 1 {
						reused++
					}
				}
			}
			fmt.Printf("RNG-CHILD %s datagrams=%d iv-reused=%d rejected=%d err=%v\n", tag, n, reused, problems, cerr != nil)
		}
		// two commands of the same length, so that the stale bytes of the first are where the
		// second's IV would go
		f0 := e.BMC.Len()
		_, err = sess.GetDeviceID(ctx)
		report("before", f0, err)
		good := rand.Reader
		rand.Reader = failingReader{}
		f1 := e.BMC.Len()
		_, err = sess.GetDeviceID(ctx)
		rand.Reader = good
		report("during", f1, err)
		f2 := e.BMC.Len()
		_, err = sess.GetDeviceID(ctx)
		report("after", f2, err)
		return 0
	}
}

// c03RNG runs the child and judges its report.
func c03RNG(run *ev.Run, suite int, cs ev.Case) {
	run.Eval(1)
	exe, err := os.Executable()
	if err != nil {
		run.Inconclusive("entropy-failure scenario: " + err.Error())
		return
	}
	cctx, cancel := context.WithTimeout(context.Background(), 60*time.Second)
	defer cancel()
	cmd := exec.CommandContext(cctx, exe, "--child", "c03rng", fmt.Sprint(suite))
	cmd.Env = append(os.Environ(), "GOCOVERDIR=", "GORACE=")
	out, err := cmd.CombinedOutput()
	lines := map[string]string{}
	for _, l := range strings.Split(string(out), "\n") {
		if f := strings.Fields(l); len(f) >= 3 && f[0] == "RNG-CHILD" {
			lines[f[1]] = l
		}
	}
	if lines["during"] == "" || lines["before"] == "" {
		run.Inconclusive(fmt.Sprintf("entropy-failure scenario: child gave no report (err=%v, output %.200q)", err, out))
		return
	}
	run.Nontrivial(fmt.Sprintf("rngfail|%d", suite))
	run.Event("entropy-failure-scenarios", 1)
	var n, reused, rejected int
	var failed bool
	fmt.Sscanf(strings.SplitN(lines["during"], "during ", 2)[1], "datagrams=%d iv-reused=%d rejected=%d err=%t", &n, &reused, &rejected, &failed)
	if reused > 0 || (n > 0 && !failed) || rejected > 0 {
		run.Violation("C03:datagram-without-fresh-iv", fmt.Sprintf("suite %v: while the entropy source was failing the library transmitted %d in-session datagram(s): %d with an IV that was used before, %d rejected by the BMC, the call reported an error: %v", stdSuites()[suite%9], n, reused, rejected, failed), cs, nil)
	}
	_ = ipmi.CipherSuite3
}
