package checks

import (
	"errors"
	"fmt"
	"strings"
	"time"

	"verifharness/ev"
	"verifharness/memtr"
	"verifharness/refbmc"

	"github.com/gebn/bmc"
	"github.com/gebn/bmc/pkg/ipmi"
)

type c02One struct {
	Auth  int    // index of the authentication algorithm: 0 SHA1, 1 MD5, 2 SHA256
	Kind  string // wrong-password | wrong-kg | flip | status | tag | trunc | mitm-sid
	Reply int    // 1 open session response, 2 RAKP 2, 3 RAKP 4
	Arg   int    // bit index within the payload / status / tag / length
	KG    bool
	Seed  int64
	// Pre names what was done on the connection before the handshake: "" |
	// "guid" (Get System GUID) | "caps" (Get Channel Authentication Capabilities) | "guid+caps"
	Pre string `json:",omitempty"`
	// Mix: 1 or 2 = the integrity algorithm is the next / next but one of {HMAC-SHA1-96,
	// HMAC-MD5-128, HMAC-SHA256-128} instead of the authentication algorithm's sibling
	Mix int `json:",omitempty"`
}

type c02Batch struct {
	Auth int
	What string
	KG   bool
	Seed int64
}

var c02Suites = []refbmc.Suite{{Auth: 1, Integ: 1, Conf: 1}, {Auth: 2, Integ: 2, Conf: 1}, {Auth: 3, Integ: 4, Conf: 1}}

func init() {
	register(&Check{
		ID:    "C02",
		Level: "fault_enumeration",
		Rule: "for each authentication algorithm a correct handshake transcript is produced by the simulated BMC and exactly one thing is altered on the way to the library: BMC holds another password or KG; every single bit of RAKP 2's console-session-ID echo, BMC random, GUID and AuthCode; " +
			"every bit of the BMC session ID in the Open Session Response (with a man in the middle restoring it towards the BMC); every bit of the RAKP 4 ICV; every status 1..255 and every wrong tag in each of the three replies; every truncation of each reply; " +
			"expected (nil, error), ErrIncorrectPassword for a wrong password and for AuthCode bit flips; non-trivial = the altered reply was delivered and consumed; distinct = distinct (algorithm, mutation kind, reply, position)",
		Assumptions: []string{"replies that become undecodable at wrapper level are retried by design: the same mutation is applied to every retransmission and the transport ends the call after 8 transmissions",
			"replies are delivered as windows into a 512-byte buffer (the production transport's behaviour); exact-capacity delivery belongs to C05"},
		Exhaustive: func(string) bool { return true },
		Gen: func(tier string, seed int64) []ev.Case {
			var cs []ev.Case
			for a := 0; a < 3; a++ {
				for _, kg := range []bool{false, true} {
					if kg && tier == "quick" && a != int(seed%3) {
						continue
					}
					for _, w := range []string{"creds", "flips", "flips-used-conn", "status", "tag", "trunc", "shorten", "rehandshake", "understate", "mixed"} {
						cs = append(cs, ev.MkCase("batch", c02Batch{Auth: a, What: w, KG: kg, Seed: seed}))
					}
				}
			}
			if tier == "thorough" {
				for k := 1; k <= 120; k++ {
					for a := 0; a < 3; a++ {
						cs = append(cs, ev.MkCase("batch", c02Batch{Auth: a, What: "flips", KG: k%2 == 0, Seed: seed + int64(k)*7717}))
						cs = append(cs, ev.MkCase("batch", c02Batch{Auth: a, What: "creds", KG: k%2 == 0, Seed: seed + int64(k)*7717}))
					}
				}
			}
			return cs
		},
		Exec:    c02Exec,
		Anchors: []string{"newV2Session", "openSession", "rakpMessage1", "rakpMessage3", "calculateRAKPMessage2AuthCode", "calculateRAKPMessage4ICV"},
	})
}

func c02Exec(run *ev.Run, c ev.Case) {
	switch c.Kind {
	case "one":
		var o c02One
		c.Decode(&o)
		c02Run(run, o)
	case "batch":
		var b c02Batch
		c.Decode(&b)
		su := c02Suites[b.Auth]
		acLen := map[byte]int{1: 20, 2: 16, 3: 32}[su.Auth]
		icvLen := refbmc.ICVLen(su.Auth)
		pre := ""
		mix := 0
		one := func(kind string, reply, arg int) {
			c02Run(run, c02One{Auth: b.Auth, Kind: kind, Reply: reply, Arg: arg, KG: b.KG, Seed: b.Seed, Pre: pre, Mix: mix})
		}
		switch b.What {
		case "understate":
			// the session wrapper's length field says less than the datagram carries: the
			// message, as delimited by its own header, is cut short
			for reply := 1; reply <= 3; reply++ {
				for n := 0; n < 40+acLen; n++ {
					one("understate", reply, n)
				}
			}
		case "mixed":
			// suites whose integrity algorithm is not the sibling of the authentication
			// algorithm: the RAKP 4 ICV still has the authentication algorithm's length
			for mix = 1; mix <= 2; mix++ {
				one("baseline", 0, 0)
				one("wrong-password", 0, 0)
				for n := 0; n < 8+icvLen; n++ {
					one("shorten", 3, n)
					one("understate", 3, n)
					one("trunc", 3, 16+n)
				}
				for x := 1; x <= 4; x++ {
					one("extend", 3, x)
				}
				for bit := 8 * 8; bit < (8+icvLen)*8; bit++ {
					one("flip", 3, bit)
				}
				for n := 40; n < 40+acLen; n++ {
					one("shorten", 2, n)
				}
			}
			mix = 0
		case "creds":
			for _, pre = range []string{"", "guid", "caps", "guid+caps"} {
				one("baseline", 0, 0)
				one("wrong-password", 0, 0)
				one("wrong-password-prefix", 0, 0)
				one("password-long-prefix", 0, 0)
				one("password-long-other-tail", 0, 0)
				one("wrong-kg", 0, 0)
				one("username-case", 0, 0)
				// the BMC's key differs from the caller's in one of the ways a misconfiguration produces
				one("kg-bmc-none", 0, 0)
				one("kg-bmc-is-password", 0, 0)
				one("kg-bmc-zero", 0, 0)
				one("kg-console-is-password", 0, 0)
				one("kg-console-empty-bmc-zero", 0, 0)
				one("bmc-hashes-other-role-10", 0, 0)
				one("bmc-hashes-other-role-01", 0, 0)
				one("bmc-hashes-other-role-0f", 0, 0)
				one("reuse-opts-genuine", 0, 0)
				one("reuse-opts-zero-password", 0, 0)
				one("reuse-opts-zero-kg", 0, 0)
				one("kg-console-empty-bmc-random", 0, 0)
			}
			pre = ""
			for bit := 0; bit < 160; bit++ {
				one("kg-bit", 0, bit)
			}
		case "flips-used-conn":
			// the same alterations of RAKP 2 and RAKP 4 on a connection that has been used before
			for bit := 4 * 8; bit < (40+acLen)*8; bit++ {
				pre = []string{"guid", "guid+caps", "caps"}[bit%3]
				if bit/8 >= 24 && bit/8 < 40 {
					pre = []string{"guid", "guid+caps"}[bit%2] // the GUID field, after the GUID was asked for
				}
				one("flip", 2, bit)
			}
			for bit := 8 * 8; bit < (8+icvLen)*8; bit++ {
				pre = []string{"guid", "guid+caps", "caps"}[bit%3]
				one("flip", 3, bit)
			}
		case "flips":
			for bit := 4 * 8; bit < (40+acLen)*8; bit++ {
				one("flip", 2, bit)
			}
			for bit := 8 * 8; bit < 12*8; bit++ {
				one("mitm-sid", 1, bit)
				one("flip", 1, bit)
			}
			for bit := 4 * 8; bit < 8*8; bit++ { // console session ID echo in the open response and RAKP 4
				one("flip", 1, bit)
				one("flip", 3, bit)
			}
			for bit := 8 * 8; bit < (8+icvLen)*8; bit++ {
				one("flip", 3, bit)
			}
		case "status":
			for reply := 1; reply <= 3; reply++ {
				for s := 1; s < 256; s++ {
					one("status", reply, s)
				}
				for s := 1; s < 32; s++ {
					one("status-after-lost", reply, s)
				}
			}
			for arg := 1; arg < 16; arg++ {
				if arg&7 != 0 {
					one("zero-len-payload", 1, arg)
				}
			}
		case "tag":
			for reply := 1; reply <= 3; reply++ {
				for d := 1; d < 256; d++ {
					one("tag", reply, d)
				}
			}
		case "trunc":
			for reply := 1; reply <= 3; reply++ {
				for n := 0; n < 16+40+acLen; n++ {
					one("trunc", reply, n)
				}
			}
		case "shorten":
			// the payload itself is shorter (or longer) and the session wrapper's length field agrees with it
			for reply := 1; reply <= 3; reply++ {
				for n := 0; n < 40+acLen; n++ {
					one("shorten", reply, n)
				}
				for x := 1; x <= 4; x++ {
					one("extend", reply, x)
				}
			}
		case "rehandshake":
			for k := 0; k < 6; k++ {
				one("rehandshake", 0, k)
			}
		}
	}
}

func c02Run(run *ev.Run, o c02One) {
	cs := ev.MkCase("one", o)
	r := rng(o.Seed+int64(o.Auth)*3, "c02")
	cfg := defaultCfg(r)
	cfg.Password = []byte("correct horse")
	su := c02Suites[o.Auth]
	if o.Mix != 0 {
		su.Integ = []byte{1, 2, 4}[(o.Auth+o.Mix)%3]
	}
	cfg.Suites = []refbmc.Suite{su}
	if o.KG {
		cfg.KG = rbytes(r, 20)
	}
	opts := &bmc.V2SessionOpts{
		SessionOpts:  bmc.SessionOpts{Username: cfg.Username, Password: append([]byte(nil), cfg.Password...), MaxPrivilegeLevel: ipmi.PrivilegeLevelAdministrator},
		KG:           append([]byte(nil), cfg.KG...),
		CipherSuites: []ipmi.CipherSuite{libSuite(su)},
	}
	wantIncorrectPassword := false
	switch o.Kind {
	case "wrong-password":
		cfg.Password = []byte("correct horsf")
		wantIncorrectPassword = true
	case "wrong-password-prefix":
		cfg.Password = []byte("correct horse!") // the console's password is a strict prefix
		wantIncorrectPassword = true
	case "password-long-prefix":
		// the caller's password is longer than the 20 bytes a BMC stores; the BMC holds its first 20 bytes
		opts.Password = []byte("correct horse battery staple")
		cfg.Password = append([]byte(nil), opts.Password[:20]...)
		wantIncorrectPassword = true
	case "password-long-other-tail":
		// both ends hold long keys that agree in the first 20 bytes only
		opts.Password = []byte("correct horse battery staple")
		cfg.Password = []byte("correct horse batterXXXXXXXX")
		wantIncorrectPassword = true
	case "wrong-kg":
		if !o.KG {
			cfg.KG = rbytes(r, 20) // BMC has a KG, the console has none
		} else {
			cfg.KG[7] ^= 0x10
		}
	case "username-case":
		// same password, but the BMC knows the user under another name: RAKP 2 carries an error status
		cfg.Username = "Admin"
	case "kg-bmc-none":
		// the caller insists on a KG, the BMC has two-key login disabled (keys from the password)
		if !o.KG {
			opts.KG = rbytes(r, 20)
		}
		cfg.KG = nil
	case "kg-bmc-is-password":
		if !o.KG {
			opts.KG = rbytes(r, 20)
		}
		cfg.KG = make([]byte, 20)
		copy(cfg.KG, cfg.Password)
	case "kg-bmc-zero":
		if !o.KG {
			opts.KG = rbytes(r, 20)
		}
		cfg.KG = make([]byte, 20)
	case "kg-console-is-password":
		// the caller passes the password as KG, the BMC holds a real KG
		opts.KG = make([]byte, 20)
		copy(opts.KG, cfg.Password)
		if !o.KG {
			cfg.KG = rbytes(r, 20)
		}
	case "kg-console-empty-bmc-zero", "kg-console-empty-bmc-random":
		// the caller has no K_G and says so with a zero-length (non-nil) slice; the BMC
		// does hold one: all zeros (what an empty HMAC key equals), or anything
		opts.KG = [][]byte{{}, make([]byte, 0, 20), []byte("")}[int(o.Seed+int64(o.Auth))%3]
		cfg.KG = make([]byte, 20)
		if o.Kind == "kg-console-empty-bmc-random" {
			cfg.KG = rbytes(r, 20)
		}
	case "bmc-hashes-other-role-10", "bmc-hashes-other-role-01", "bmc-hashes-other-role-0f":
		// the peer knows the password but computes every hash over a role byte that differs
		// from the one sent in RAKP 1 (name-only lookup bit, privilege bits)
		var x int
		fmt.Sscanf(o.Kind, "bmc-hashes-other-role-%x", &x)
		cfg.RoleXor = byte(x)
		wantIncorrectPassword = true
	case "kg-bit":
		if !o.KG {
			cfg.KG = rbytes(r, 20)
			opts.KG = append([]byte(nil), cfg.KG...)
		}
		cfg.KG = append([]byte(nil), cfg.KG...)
		cfg.KG[o.Arg/8%20] ^= 1 << (o.Arg % 8)
	}
	e := NewEnv(cfg, memtr.Window)
	e.BMC.Handler = refbmc.Chain(refbmc.Fixed(6, 0x37, 0, cfg.GUID[:]), refbmc.Fixed(6, 0x38, 0, []byte{1, 0x80, 0x14, 0x02, 0, 0, 0, 0}))
	e.T.PoisonFn = func(i int) byte { return byte(i*31 + 7) }
	ptypeOf := map[int]byte{1: 0x10, 2: 0x12, 3: 0x14}
	delivered, matched := 0, 0
	var trueSID, fakeSID uint32
	e.PreFilter = func(n int, req []byte) []byte {
		if o.Kind == "mitm-sid" && len(req) >= 24 && (req[5]&0x3f == 0x12 || req[5]&0x3f == 0x14) {
			// restore the BMC's real session ID towards the BMC
			m := append([]byte(nil), req...)
			copy(m[20:24], refbmc.LE32(trueSID))
			return m
		}
		return req
	}
	e.Filter = func(n int, req, reply []byte) ([]byte, error) {
		if reply == nil || len(req) < 6 || o.Reply == 0 || req[5]&0x3f != ptypeOf[o.Reply] || len(reply) < 16 {
			return reply, nil
		}
		m := append([]byte(nil), reply...)
		p := m[16:]
		switch o.Kind {
		case "flip", "mitm-sid":
			if o.Arg/8 >= len(p) {
				return reply, nil
			}
			if o.Kind == "mitm-sid" {
				trueSID = uint32(p[8]) | uint32(p[9])<<8 | uint32(p[10])<<16 | uint32(p[11])<<24
			}
			p[o.Arg/8] ^= 1 << (o.Arg % 8)
			if o.Kind == "mitm-sid" {
				fakeSID = uint32(p[8]) | uint32(p[9])<<8 | uint32(p[10])<<16 | uint32(p[11])<<24
			}
		case "status":
			p[1] = byte(o.Arg)
		case "status-after-lost":
			// the first copy of this reply is lost; the library sends its message again and that
			// one is answered with the status
			matched++
			if matched == 1 {
				return nil, nil
			}
			p[1] = byte(o.Arg)
		case "zero-len-payload":
			// Open Session Response whose algorithm payloads (mask in Arg&7) carry length byte 0 - the
			// request-side wildcard notation; Arg&8: the algorithm byte behind it is zeroed as well
			if len(p) < 36 {
				return reply, nil
			}
			for axis, off := range []int{15, 23, 31} {
				if o.Arg&(1<<axis) != 0 {
					p[off] = 0
					if o.Arg&8 != 0 {
						p[off+1] = 0
					}
				}
			}
		case "tag":
			p[0] += byte(o.Arg)
		case "trunc":
			if o.Arg >= len(m) {
				return reply, nil
			}
			m = m[:o.Arg]
		case "shorten":
			if o.Arg >= len(p) {
				return reply, nil
			}
			m = m[:16+o.Arg]
			m[14], m[15] = byte(o.Arg), byte(o.Arg>>8)
		case "understate":
			if o.Arg >= len(p) {
				return reply, nil
			}
			m[14], m[15] = byte(o.Arg), byte(o.Arg>>8)
		case "extend":
			for i := 0; i < o.Arg; i++ {
				m = append(m, byte(0x5a+i))
			}
			m[14], m[15] = byte(len(m)-16), byte((len(m)-16)>>8)
		default:
			return reply, nil
		}
		delivered++
		return m, nil
	}
	_ = fakeSID
	if o.Pre != "" {
		pc, pcancel := e.LimitCtx(6)
		if strings.Contains(o.Pre, "guid") {
			if g, gerr := e.ST.GetSystemGUID(pc); gerr != nil || g != cfg.GUID {
				run.Violation("C02:harness-pre", fmt.Sprintf("Get System GUID before the handshake: %x err=%v", g, gerr), cs, nil)
			}
		}
		if strings.Contains(o.Pre, "caps") {
			e.ST.GetChannelAuthenticationCapabilities(pc, &ipmi.GetChannelAuthenticationCapabilitiesReq{ExtendedData: true, Channel: ipmi.ChannelPresentInterface, MaxPrivilegeLevel: ipmi.PrivilegeLevelAdministrator})
		}
		pcancel()
		e.BMC.ResetLog()
	}
	if strings.HasPrefix(o.Kind, "reuse-opts") {
		// the caller keeps one options value (same key slices) and reconnects with it
		c1, cancel1 := e.LimitCtx(8)
		s1, err1 := e.ST.NewV2Session(c1, opts)
		cancel1()
		if err1 != nil || s1 == nil {
			run.Violation("C02:baseline-fails", fmt.Sprintf("first handshake with these options failed: %v", err1), cs, nil)
			return
		}
		c2, cancel2 := e.LimitCtx(4)
		s1.Close(c2)
		cancel2()
		e.BMC.ResetLog()
		switch o.Kind {
		case "reuse-opts-zero-password":
			// the peer of the second handshake holds an all-zero (= empty) password
			e.BMC.Cfg.Password = make([]byte, 20)
			if e.BMC.Cfg.KG != nil {
				wantIncorrectPassword = false
			}
			wantIncorrectPassword = true
		case "reuse-opts-zero-kg":
			if e.BMC.Cfg.KG == nil {
				e.BMC.Cfg.Password = make([]byte, 20) // one-key login: the password is the SIK key too
				wantIncorrectPassword = true
			} else {
				e.BMC.Cfg.KG = make([]byte, 20)
			}
		}
	}
	if o.Kind == "rehandshake" {
		// a first handshake on this connection (correct password; variant: a failing one with
		// yet another password), then a second one with a password the BMC does not hold
		first := *opts
		first.Password = append([]byte(nil), cfg.Password...)
		switch o.Arg % 3 {
		case 1:
			first.Password = []byte("some other password")
		case 2:
			first.Password = nil
		}
		c1, cancel1 := e.LimitCtx(8)
		s1, err1 := e.ST.NewV2Session(c1, &first)
		cancel1()
		if (o.Arg%3 == 0) != (err1 == nil) {
			run.Violation("C02:rehandshake-first", fmt.Sprintf("first handshake: err=%v", err1), cs, nil)
			return
		}
		if s1 != nil && o.Arg >= 3 {
			c2, cancel2 := e.LimitCtx(4)
			s1.Close(c2)
			cancel2()
		}
		e.BMC.ResetLog()
		opts.Password = []byte("correct horsf")
		wantIncorrectPassword = true
	}
	ctx, cancel := e.LimitCtx(8)
	defer cancel()
	var sess *bmc.V2Session
	var err error
	var pv any
	var st string
	// whatever a handshake reply looks like, the call comes back (its context is bounded logically);
	// a decoder that never returns would otherwise stall the whole run
	hangGuard(run, 30*time.Second, func() ev.Case { return cs }, fmt.Sprintf("NewV2Session (mutation %s reply %d arg %d)", o.Kind, o.Reply, o.Arg), func() {
		pv, st = safe(func() { sess, err = e.ST.NewV2Session(ctx, opts) })
	})
	run.Eval(1)
	desc := fmt.Sprintf("auth alg %d kg=%v mutation %s reply %d arg %d pre %q", su.Auth, o.KG, o.Kind, o.Reply, o.Arg, o.Pre)
	if o.Mix != 0 {
		desc += fmt.Sprintf(" suite %v", su)
	}
	if pv != nil {
		run.Violation("C02:panic:"+panicSite(st), fmt.Sprintf("%s: panic %v\n%s", desc, pv, trimStack(st)), cs, nil)
		return
	}
	if o.Kind == "reuse-opts-genuine" {
		if err != nil || sess == nil {
			run.Violation("C02:baseline-fails", fmt.Sprintf("%s: second handshake with the same options value against the genuine BMC failed: %v", desc, err), cs, nil)
		}
		run.Nontrivial(desc)
		return
	}
	if o.Kind == "baseline" {
		if err != nil || sess == nil {
			run.Violation("C02:baseline-fails", fmt.Sprintf("%s: unmodified transcript rejected: %v", desc, err), cs, nil)
		}
		run.Nontrivial(desc)
		return
	}
	if o.Reply != 0 && delivered == 0 {
		return // mutation did not apply (position beyond the reply)
	}
	run.Nontrivial(desc)
	run.Event("mutated-replies-delivered", delivered)
	if o.Kind == "flip" && (o.Reply == 1 || o.Reply == 3) && o.Arg/8 < 8 {
		// the console-session-ID echoes of the Open Session Response and of RAKP 4
		// are outside the property's quantifier (they are not inputs of the
		// AuthCode/ICV): observed and reported, never a verdict
		if err == nil {
			run.Observe(fmt.Sprintf("unauthenticated-sid-echo-flip-accepted-reply-%d", o.Reply), 1)
		}
		return
	}
	if err == nil || sess != nil {
		field := ""
		if o.Kind == "flip" && o.Reply == 2 {
			switch {
			case o.Arg/8 < 8:
				field = "rakp2-sid-echo"
			case o.Arg/8 < 24:
				field = "rakp2-random"
			case o.Arg/8 < 40:
				field = "rakp2-guid"
			default:
				field = "rakp2-authcode"
			}
		} else if o.Kind == "flip" && o.Reply == 3 {
			field = "rakp4-icv"
			if o.Arg/8 < 8 {
				field = "rakp4-sid-echo"
			}
		} else if o.Kind == "flip" {
			field = "open-session-ids"
		}
		run.Violation("C02:session-from-bad-transcript:"+o.Kind+":"+field, fmt.Sprintf("%s: NewV2Session returned a session (err=%v)", desc, err), cs, nil)
		return
	}
	if o.Kind == "flip" && o.Reply == 2 && o.Arg/8 >= 40 {
		wantIncorrectPassword = true
	}
	if wantIncorrectPassword && !errors.Is(err, bmc.ErrIncorrectPassword) {
		run.Violation("C02:wrong-error:"+o.Kind, fmt.Sprintf("%s: error is %q, want ErrIncorrectPassword", desc, err), cs, nil)
		return
	}
	for _, evn := range e.BMC.Events() {
		if evn.Kind == "session-ipmi" {
			run.Violation("C02:in-session-traffic-after-failure", desc+": in-session datagram seen after a failed handshake", cs, nil)
			return
		}
	}
	if (o.Arg%37 == 0 && o.Reply > 0) || o.Reply == 0 {
		run.Sample(o.Kind, map[string]any{"auth_algorithm": su.Auth, "mutation": o.Kind, "reply": o.Reply, "arg": o.Arg, "error": errStr(err)})
	}
}
