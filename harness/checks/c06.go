package checks

import (
	"bytes"
	"context"
	"fmt"
	"strings"
	"time"

	"verifharness/ev"
	"verifharness/memtr"
	"verifharness/refbmc"
	"verifharness/refcodec"

	"github.com/gebn/bmc"
	"github.com/gebn/bmc/pkg/dcmi"
	"github.com/gebn/bmc/pkg/ipmi"
)

type c06Batch struct {
	Kind      string
	From, To  int
	InSession bool
	Seed      int64
	UDP       bool
	// PreHandshake: 0 none; before the session-less commands the connection
	// goes through a handshake that 1 succeeds, 2 fails on RAKP 2 (password),
	// 3 is refused in the Open Session Response, 4 is refused in RAKP 2 (user)
	PreHandshake int `json:",omitempty"`
}

type c06HS struct {
	Priv   int
	Lookup bool
	ULen   int // username length in BYTES
	Suite  int
	Seed   int64
	// Runes: 0 ASCII; 2 or 3: the name is built from 2- or 3-byte UTF-8
	// characters, so its rune count is well below its byte length
	Runes int
	// None: bit 0 integrity None, bit 1 confidentiality None, bit 2 authentication None.
	// The handshake may then be refused, but what is proposed must still be what was asked.
	None int `json:",omitempty"`
}

// c06Reneg: several handshakes on one connection, each with its own preference list
type c06Reneg struct {
	Seed int64
}

func init() {
	register(&Check{
		ID:    "C06",
		Level: "exploration",
		Rule: "every request layer is serialised by the library through the real send path and the datagram received by the simulated BMC is parsed independently (RMCP header, RMCP+ wrapper with payload type/length, IPMI message addresses, NetFn/LUN, command, group/OEM prefix, both checksums, body per the request tables) and compared field by field with the caller's values. " +
			"Small field domains are enumerated completely (channel x extended x privilege; channel x payload type x list index = 65536; sensor number x LUN; session index x handle; DCMI parameter; every canonical period byte; privilege levels incl. the rejected Callback), wide fields are sampled; each outside and inside a session (inside: after the BMC's own MAC check and decryption). " +
			"Handshakes cover every privilege 0..15, both lookup modes and username lengths 0..40 (17..40 must be refused with nothing truncated on the wire). non-trivial = request parsed and compared; distinct = distinct (command, field tuple class, mode)",
		Assumptions: []string{"callers' values are restricted to each field's wire domain (4-bit channel, 6-bit payload type, ...); what an out-of-domain Go value encodes to is not asserted"},
		Gen: func(tier string, seed int64) []ev.Case {
			var cs []ev.Case
			for _, in := range []bool{false, true} {
				cs = append(cs, ev.MkCase("batch", c06Batch{Kind: "authcaps", InSession: in, Seed: seed}))
				for f := 0; f < 65536; f += 4096 {
					cs = append(cs, ev.MkCase("batch", c06Batch{Kind: "ciphersuites", From: f, To: f + 4096, InSession: in, Seed: seed}))
				}
				for _, k := range []string{"setpriv", "chassiscontrol", "sensorreading", "sessioninfo", "close", "getsdr", "dcmicap", "power", "sensorinfo", "nobody"} {
					cs = append(cs, ev.MkCase("batch", c06Batch{Kind: k, InSession: in, Seed: seed}))
				}
			}
			for f := 0; f < 240; f += 40 {
				cs = append(cs, ev.MkCase("batch", c06Batch{Kind: "jumps", From: f, To: f + 40, InSession: true, Seed: seed}))
			}
			for i := 0; i < 12; i++ {
				cs = append(cs, ev.MkCase("batch", c06Batch{Kind: "interleave", InSession: true, Seed: seed + int64(i)}))
			}
			cs = append(cs, ev.MkCase("batch", c06Batch{Kind: "handshakes", Seed: seed}))
			cs = append(cs, ev.MkCase("batch", c06Batch{Kind: "reneg", Seed: seed}))
			n := 1
			if tier == "thorough" {
				n = 80
			}
			for i := 0; i < n; i++ {
				for _, in := range []bool{false, true} {
					cs = append(cs, ev.MkCase("batch", c06Batch{Kind: "random", From: 0, To: 6000, InSession: in, Seed: seed + int64(i)*911}))
				}
			}
			cs = append(cs, ev.MkCase("batch", c06Batch{Kind: "random", From: 0, To: 60, InSession: true, Seed: seed, UDP: true}))
			for ph := 1; ph <= 4; ph++ {
				cs = append(cs, ev.MkCase("batch", c06Batch{Kind: "random", From: 0, To: 400, Seed: seed + int64(ph), PreHandshake: ph}))
			}
			return cs
		},
		Exec: c06Exec,
		Anchors: []string{"GetChannelAuthenticationCapabilitiesReq).SerializeTo", "GetChannelCipherSuitesReq).SerializeTo", "GetSessionInfoReq).SerializeTo", "SetSessionPrivilegeLevelReq).SerializeTo",
			"CloseSessionReq).SerializeTo", "ChassisControlReq).SerializeTo", "GetSDRReq).SerializeTo", "GetSensorReadingReq).SerializeTo", "OpenSessionReq).SerializeTo", "RAKPMessage1).SerializeTo",
			"RAKPMessage3).SerializeTo", "GetPowerReadingReq).SerializeTo", "GetDCMISensorInfoReq).SerializeTo", "GetDCMICapabilitiesInfoReq).SerializeTo", "Message).SerializeTo"},
	})
}

type c06Conn struct {
	b    *refbmc.BMC
	sl   bmc.Connection // the session-less connection underneath (conn is the session when in is set)
	conn bmc.Connection
	cur  *genCmd
	in   bool
	done func()
	// busyFirst makes the BMC answer node busy to the first attempt of the
	// current command, so that the retransmission is parsed as well
	busyFirst bool
	// strayFirst makes the first attempt's reply a valid response to another
	// command (a late duplicate), so that the retransmission is parsed too
	strayFirst bool
	attempt    int
}

func c06Open(run *ev.Run, b c06Batch, cs ev.Case) *c06Conn {
	r := rng(b.Seed, "c06conn"+b.Kind)
	cfg := defaultCfg(r)
	c := &c06Conn{in: b.InSession, done: func() {}}
	var st *bmc.V2SessionlessTransport
	if b.UDP {
		u, err := newUDPEnv(cfg)
		if err != nil {
			run.Inconclusive("udp: " + err.Error())
			return nil
		}
		c.b, st, c.done = u.BMC, u.ST, u.Close
	} else {
		e := NewEnv(cfg, memtr.Window)
		c.b, st = e.BMC, e.ST
		e.Filter = func(n int, req, reply []byte) ([]byte, error) {
			if !c.strayFirst || c.attempt != 1 || c.cur == nil {
				return reply, nil
			}
			last := c.b.Last()
			if last == nil {
				return reply, nil
			}
			m := refbmc.BuildRsp(0x81, 0x07, 0, 0x20, last.RqSeq, 0, 0x3e, 0, []byte{0xde, 0xad})
			if se := c.b.Sess; se != nil && se.Active && last.Kind == "session-ipmi" {
				return se.Wrap(m, refbmc.WrapOpts{}), nil
			}
			return refbmc.RMCP(refbmc.SessHdr(0, 0, 0, m)), nil
		}
	}
	c.b.Handler = func(evn *refbmc.Event) (byte, []byte, bool) {
		if c.cur == nil {
			return 0xc1, nil, true
		}
		c.attempt++
		if c.busyFirst && c.attempt == 1 {
			switch evn.NetFn {
			case 0x2c:
				return 0xc0, []byte{0xdc}, true
			case 0x2e:
				if len(evn.Data) >= 3 {
					return 0xc0, evn.Data[:3], true
				}
			}
			return 0xc0, nil, true
		}
		return 0, c.cur.OkBody, true
	}
	c.conn, c.sl = st, st
	if b.PreHandshake > 0 {
		// the connection has been through a handshake before the session-less commands under test
		ctx, cancel := bg(10 * time.Second)
		opts := &bmc.V2SessionOpts{SessionOpts: bmc.SessionOpts{Username: cfg.Username, Password: cfg.Password, MaxPrivilegeLevel: ipmi.PrivilegeLevelAdministrator},
			CipherSuites: []ipmi.CipherSuite{libSuite(stdSuites()[int(b.Seed)%9])}}
		switch b.PreHandshake {
		case 2:
			opts.Password = []byte("not the password") // RAKP 2 does not verify
		case 3:
			opts.CipherSuites = []ipmi.CipherSuite{{AuthenticationAlgorithm: 1, IntegrityAlgorithm: 1, ConfidentialityAlgorithm: 2}} // refused in the Open Session Response
		case 4:
			opts.Username = "nobody" // RAKP 2 carries an error status
		}
		s, err := st.NewV2Session(ctx, opts)
		cancel()
		if (err == nil) != (b.PreHandshake == 1) {
			run.Violation("C06:handshake-failed", fmt.Sprintf("preliminary handshake %d: err=%v", b.PreHandshake, err), cs, nil)
			return nil
		}
		if s != nil && b.Seed%2 == 0 {
			c2, cancel2 := bg(10 * time.Second)
			s.Close(c2)
			cancel2()
		}
	}
	if b.InSession {
		ctx, cancel := bg(10 * time.Second)
		defer cancel()
		s, err := st.NewV2Session(ctx, &bmc.V2SessionOpts{SessionOpts: bmc.SessionOpts{Username: cfg.Username, Password: cfg.Password, MaxPrivilegeLevel: ipmi.PrivilegeLevelAdministrator},
			CipherSuites: []ipmi.CipherSuite{libSuite(stdSuites()[int(b.Seed+int64(len(b.Kind)))%9])}})
		if err != nil {
			run.Violation("C06:handshake-failed", err.Error(), cs, nil)
			return nil
		}
		c.conn = s
	}
	return c
}

// send transmits one generated command and checks what the BMC received.
func (c *c06Conn) send(run *ev.Run, g genCmd, cs ev.Case) bool {
	run.Eval(1)
	c.cur = &g
	c.attempt = 0
	first := c.b.Len()
	ctx, cancel := bg(10 * time.Second)
	var code ipmi.CompletionCode
	var err error
	pv, st := safe(func() {
		if g.Call != nil {
			code, err = g.Call(ctx, c.conn)
			return
		}
		code, err = c.conn.SendCommand(ctx, g.Cmd)
	})
	cancel()
	desc := fmt.Sprintf("%s want %v raw %x (in-session %v)", g.Label, g.Want, g.RawData, c.in)
	if pv != nil {
		run.Violation("C06:panic:"+panicSite(st), fmt.Sprintf("%s: panic %v\n%s", desc, pv, trimStack(st)), cs, nil)
		return false
	}
	evs := c.b.Since(first)
	if g.SerFail {
		if err == nil || len(evs) != 0 {
			run.Violation("C06:"+g.Label+":invalid-value-sent", fmt.Sprintf("%s: expected a serialisation error and nothing on the wire, got err=%v and %d datagrams", desc, err, len(evs)), cs, nil)
			return false
		}
		run.Nontrivial(g.Label + "|refused")
		return true
	}
	wantN := 1
	if c.busyFirst || c.strayFirst {
		wantN = 2
	}
	if len(evs) != wantN {
		run.Violation("C06:"+g.Label+":datagram-count", fmt.Sprintf("%s: %d datagrams reached the BMC, expected %d (err=%v)", desc, len(evs), wantN, err), cs, nil)
		return false
	}
	for i := range evs {
		if !c.verify(run, g, cs, desc, evs[i], i > 0) {
			return false
		}
	}
	if err != nil || code != 0 {
		run.Violation("C06:"+g.Label+":call-failed", fmt.Sprintf("%s: code %v err %v although the request was well-formed and answered", desc, code, err), cs, nil)
		return false
	}
	return true
}

// verify parses one datagram independently and compares it with the caller's command.
func (c *c06Conn) verify(run *ev.Run, g genCmd, cs ev.Case, desc string, e refbmc.Event, retransmission bool) bool {
	if retransmission {
		desc += " [retransmission]"
	}
	run.Event("datagrams-parsed", 1)
	viol := func(key, what string) bool {
		run.Violation("C06:"+g.Label+":"+key, fmt.Sprintf("%s: %s; datagram %x", desc, what, e.Raw), cs, nil)
		return false
	}
	if e.Problem != "" {
		return viol("rejected", "BMC rejects the datagram: "+e.Problem)
	}
	wantKind := "sessionless-ipmi"
	if c.in {
		wantKind = "session-ipmi"
	}
	if e.Kind != wantKind || e.PType != 0 {
		return viol("wrapper", fmt.Sprintf("packet kind %s payload type %#x", e.Kind, e.PType))
	}
	if !c.in && (e.SID != 0 || e.Seq != 0) {
		return viol("wrapper", fmt.Sprintf("session-less wrapper with SID %#x sequence %d", e.SID, e.Seq))
	}
	// independent re-parse of the plain message
	m := e.Plain
	if len(m) < 7 || m[0] != 0x20 || m[3] != 0x81 || refbmc.Csum(m[:2]) != m[2] || refbmc.Csum(m[3:len(m)-1]) != m[len(m)-1] {
		return viol("message-header", fmt.Sprintf("message %x: addresses or checksums wrong", m))
	}
	if m[1]>>2 != g.NetFn || m[1]&3 != g.LUN || m[5] != g.CmdNo {
		return viol("operation", fmt.Sprintf("NetFn %#x LUN %d cmd %#x on the wire, caller's command is NetFn %#x LUN %d cmd %#x", m[1]>>2, m[1]&3, m[5], g.NetFn, g.LUN, g.CmdNo))
	}
	if m[4]&3 != 0 {
		return viol("requester-lun", fmt.Sprintf("requester LUN %d", m[4]&3))
	}
	body := m[6 : len(m)-1]
	if g.RawData != nil {
		if !bytes.Equal(body, g.RawData) {
			return viol("body", fmt.Sprintf("body %x, want %x", body, g.RawData))
		}
	} else {
		f, perr := refcodec.ParseRequest(g.NetFn, g.CmdNo, body)
		if perr != nil {
			return viol("body-malformed", perr.Error())
		}
		if d := f.Diff(g.Want); len(d) > 0 {
			return viol("fields", fmt.Sprintf("%v", d))
		}
	}
	return true
}

func c06Exec(run *ev.Run, cs ev.Case) {
	if cs.Kind == "reneg" {
		var h c06Reneg
		cs.Decode(&h)
		c06Renegotiate(run, h)
		return
	}
	if cs.Kind == "hs" {
		var h c06HS
		cs.Decode(&h)
		c06Handshake(run, h)
		return
	}
	var b c06Batch
	cs.Decode(&b)
	if b.Kind == "reneg" {
		for i := 0; i < 40; i++ {
			c06Renegotiate(run, c06Reneg{Seed: b.Seed*977 + int64(i)})
		}
		return
	}
	if b.Kind == "handshakes" {
		for none := 1; none < 8; none++ {
			for s9 := 0; s9 < 9; s9++ {
				c06Handshake(run, c06HS{Priv: 2 + none%3, Lookup: s9%2 == 0, ULen: 3 + s9, Suite: s9, Seed: b.Seed, None: none})
			}
		}
		for priv := 0; priv < 16; priv++ {
			for _, lk := range []bool{false, true} {
				for ul := 0; ul <= 40; ul++ {
					c06Handshake(run, c06HS{Priv: priv, Lookup: lk, ULen: ul, Suite: (priv + ul) % 9, Seed: b.Seed})
					if ul > 0 && (priv+ul)%3 == 0 {
						c06Handshake(run, c06HS{Priv: priv, Lookup: lk, ULen: ul, Suite: (priv + ul) % 9, Seed: b.Seed, Runes: -1})
						c06Handshake(run, c06HS{Priv: priv, Lookup: lk, ULen: ul, Suite: (priv + ul) % 9, Seed: b.Seed, Runes: -2})
					}
				}
				if priv%5 == 0 {
					for ul := 2; ul <= 48; ul++ {
						for _, w := range []int{2, 3} {
							if ul%w == 0 {
								c06Handshake(run, c06HS{Priv: priv, Lookup: lk, ULen: ul, Suite: (priv + ul) % 9, Seed: b.Seed, Runes: w})
							}
						}
					}
				}
			}
		}
		return
	}
	if b.Kind == "jumps" {
		// the first large request of a session: a fresh connection per length, so that the request is
		// far larger than anything the connection has carried (handshake included), optionally after
		// a few small ones
		for l := b.From; l < b.To; l++ {
			for v, k := range []string{"raw-normal", "raw-group", "raw-oem"} {
				c := c06Open(run, c06Batch{Kind: "jumps", InSession: true, Seed: b.Seed + int64(l*3+v)}, cs)
				if c == nil {
					return
				}
				r := rng(b.Seed+int64(l), "c06jump"+k)
				ok := true
				for i := 0; ok && i < (l+v)%3; i++ {
					ok = c.send(run, genCommand(r, []string{"devid", "sensorreading", "getsdr"}[i], 0), cs)
				}
				if ok {
					g := genCommand(r, k, l)
					if ok = c.send(run, g, cs); ok {
						run.Nontrivial(fmt.Sprintf("jump|%s|%d", k, l))
						// and the same size again, then a second jump
						ok = c.send(run, genCommand(r, k, l), cs) && c.send(run, genCommand(r, k, l+80+(l%17)), cs)
					}
				}
				c.done()
				if !ok {
					return
				}
			}
		}
		return
	}
	c := c06Open(run, b, cs)
	if c == nil {
		return
	}
	defer c.done()
	r := rng(b.Seed, "c06"+b.Kind)
	sig := func(g genCmd, class string) { run.Nontrivial(fmt.Sprintf("%s|%s|%v", g.Label, class, b.InSession)) }
	sampled := false
	do := func(g genCmd, class string) bool {
		if !c.send(run, g, cs) {
			return false
		}
		sig(g, class)
		if !sampled && !g.SerFail {
			sampled = true
			if e := c.b.Last(); e != nil {
				run.Sample(g.Label, map[string]any{"command": g.Label, "in_session": b.InSession, "fields": g.Want, "plain_message": ev.Hex(e.Plain), "datagram": ev.Hex(e.Raw)})
			}
		}
		return true
	}
	switch b.Kind {
	case "authcaps":
		for ch := 0; ch < 16; ch++ {
			for ext := 0; ext < 2; ext++ {
				for p := 0; p < 16; p++ {
					cmd := &ipmi.GetChannelAuthenticationCapabilitiesCmd{Req: ipmi.GetChannelAuthenticationCapabilitiesReq{ExtendedData: ext == 1, Channel: ipmi.Channel(ch), MaxPrivilegeLevel: ipmi.PrivilegeLevel(p)}}
					g := genCmd{Cmd: cmd, NetFn: 6, CmdNo: 0x38, Label: "authcaps", Want: refcodec.Fields{"extended": uint64(ext), "channel": uint64(ch), "privilege": uint64(p)}, OkBody: specBody(r, "GetChannelAuthenticationCapabilitiesRsp")}
					if !do(g, fmt.Sprintf("%d/%d/%d", ch, ext, p)) {
						return
					}
				}
			}
		}
	case "ciphersuites":
		for i := b.From; i < b.To; i++ {
			ch, pt, idx := i>>12, (i>>6)&0x3f, i&0x3f
			cmd := &ipmi.GetChannelCipherSuitesCmd{Req: ipmi.GetChannelCipherSuitesReq{Channel: ipmi.Channel(ch), PayloadType: ipmi.PayloadType(pt), ListIndex: uint8(idx)}}
			g := genCmd{Cmd: cmd, NetFn: 6, CmdNo: 0x54, Label: "ciphersuites", Want: refcodec.Fields{"channel": uint64(ch), "payload_type": uint64(pt), "list_suites": 1, "index": uint64(idx)}, OkBody: []byte{byte(ch), 0xc0, 0x11, 0x03, 0x44, 0x81}}
			if !do(g, fmt.Sprintf("%d", i)) {
				return
			}
		}
	case "setpriv":
		if !b.InSession {
			return
		}
		for p := 0; p < 16; p++ {
			cmd := &ipmi.SetSessionPrivilegeLevelCmd{Req: ipmi.SetSessionPrivilegeLevelReq{PrivilegeLevel: ipmi.PrivilegeLevel(p)}}
			g := genCmd{Cmd: cmd, NetFn: 6, CmdNo: 0x3b, Label: "setpriv", Want: refcodec.Fields{"privilege": uint64(p)}, OkBody: []byte{byte(p)}, SerFail: p == 1}
			if !do(g, fmt.Sprint(p)) {
				return
			}
		}
		// the session's own Set / Get Session Privilege Level methods, in every order a caller might use
		// them: "get" is a request for level 0 (no change) whatever was set before
		if sess, ok := c.conn.(*bmc.V2Session); ok {
			for i := 0; i < 40; i++ {
				lvl := []int{2, 3, 4, 5, 1, 4, 2}[i%7]
				set := i%3 != 2
				want := uint64(0)
				if set {
					want = uint64(lvl)
				}
				g := genCmd{Cmd: &ipmi.SetSessionPrivilegeLevelCmd{}, NetFn: 6, CmdNo: 0x3b, Label: "setpriv", Want: refcodec.Fields{"privilege": want}, OkBody: []byte{byte(lvl)}, SerFail: set && lvl == 1,
					Call: func(ctx context.Context, _ bmc.Connection) (ipmi.CompletionCode, error) {
						if set {
							_, err := sess.SetSessionPrivilegeLevel(ctx, ipmi.PrivilegeLevel(lvl))
							return 0, err
						}
						_, err := sess.GetSessionPrivilegeLevel(ctx)
						return 0, err
					}}
				if !do(g, fmt.Sprintf("method:%v:%d", set, lvl)) {
					return
				}
			}
		}
	case "chassiscontrol":
		for v := 0; v < 16; v++ {
			cmd := &ipmi.ChassisControlCmd{Req: ipmi.ChassisControlReq{ChassisControl: ipmi.ChassisControl(v)}}
			if !do(genCmd{Cmd: cmd, NetFn: 0, CmdNo: 0x02, Label: "chassiscontrol", Want: refcodec.Fields{"control": uint64(v)}}, fmt.Sprint(v)) {
				return
			}
			// the same request through the session's ChassisControl method
			if sess, ok := c.conn.(*bmc.V2Session); ok {
				v := v
				g := genCmd{Cmd: cmd, NetFn: 0, CmdNo: 0x02, Label: "chassiscontrol", Want: refcodec.Fields{"control": uint64(v)},
					Call: func(ctx context.Context, _ bmc.Connection) (ipmi.CompletionCode, error) {
						return 0, sess.ChassisControl(ctx, ipmi.ChassisControl(v))
					}}
				if !do(g, fmt.Sprint("method:", v)) {
					return
				}
			}
		}
	case "sensorreading":
		for n := 0; n < 256; n++ {
			for lun := 0; lun < 4; lun++ {
				cmd := &ipmi.GetSensorReadingCmd{Req: ipmi.GetSensorReadingReq{Number: uint8(n)}, OwnerLUN: ipmi.LUN(lun)}
				if !do(genCmd{Cmd: cmd, NetFn: 4, CmdNo: 0x2d, LUN: byte(lun), Label: "sensorreading", Want: refcodec.Fields{"number": uint64(n)}, OkBody: []byte{byte(n), 0xc0, 0}}, fmt.Sprintf("%d/%d", n, lun)) {
					return
				}
			}
		}
		if b.InSession {
			// the same request as a sensor reader built from a Full Sensor Record issues it: the
			// record's owner (BMC, satellite controller or system software), owner LUN, number
			for i := 0; i < 1500; i++ {
				rec := &ipmi.FullSensorRecord{}
				rec.OwnerAddress = ipmi.Address(r.Intn(256))
				rec.Channel = ipmi.Channel(r.Intn(16))
				rec.OwnerLUN = ipmi.LUN(r.Intn(4))
				rec.Number = uint8(r.Intn(256))
				rec.AnalogDataFormat = ipmi.AnalogDataFormat(r.Intn(3))
				rec.Linearisation = ipmi.Linearisation(r.Intn(12))
				rec.Entity, rec.Instance = ipmi.EntityID(r.Intn(256)), ipmi.EntityInstance(r.Intn(128))
				rec.M = 1
				rd, rerr := bmc.NewSensorReader(rec)
				if rerr != nil {
					run.Violation("C06:sensorreading:reader-refused", fmt.Sprintf("NewSensorReader refused format %d linearisation %d: %v", rec.AnalogDataFormat, rec.Linearisation, rerr), cs, nil)
					return
				}
				g := genCmd{Cmd: &ipmi.GetSensorReadingCmd{}, NetFn: 4, CmdNo: 0x2d, LUN: byte(rec.OwnerLUN), Label: "sensorreading", Want: refcodec.Fields{"number": uint64(rec.Number)}, OkBody: []byte{byte(i), 0xc0, 0},
					Call: func(ctx context.Context, conn bmc.Connection) (ipmi.CompletionCode, error) {
						_, err := rd.Read(ctx, conn.(bmc.Session))
						return 0, err
					}}
				if !do(g, fmt.Sprintf("reader/%d/%d", rec.OwnerLUN, rec.OwnerAddress&1)) {
					return
				}
			}
		}
	case "sessioninfo":
		for idx := 0; idx < 256; idx++ {
			for k := 0; k < 3; k++ {
				cmd := &ipmi.GetSessionInfoCmd{Req: ipmi.GetSessionInfoReq{Index: ipmi.SessionIndex(idx), Handle: ipmi.SessionHandle(r.Intn(256)), ID: r.Uint32()}}
				if k == 0 {
					cmd.Req.Handle, cmd.Req.ID = ipmi.SessionHandle(idx), uint32(idx)<<24|uint32(255-idx)
				}
				want := refcodec.Fields{"index": uint64(idx)}
				switch idx {
				case 0xfe:
					want["handle"] = uint64(cmd.Req.Handle)
				case 0xff:
					want["id"] = uint64(cmd.Req.ID)
				}
				if !do(genCmd{Cmd: cmd, NetFn: 6, CmdNo: 0x3d, Label: "sessioninfo", Want: want, OkBody: []byte{0, 4, 1}}, fmt.Sprintf("%d/%d", idx, k)) {
					return
				}
			}
		}
	case "close":
		for h := 0; h < 256; h++ {
			cmd := &ipmi.CloseSessionCmd{Req: ipmi.CloseSessionReq{ID: 0, Handle: ipmi.SessionHandle(h)}}
			g1 := genCmd{Cmd: cmd, NetFn: 6, CmdNo: 0x3c, Label: "close", Want: refcodec.Fields{"id": 0, "handle": uint64(h)}}
			if !c06SendCC(run, c, g1, cs) {
				return
			}
			sig(g1, fmt.Sprintf("h%d", h))
			id := r.Uint32() | 1<<uint(h%32)
			if b.InSession {
				// closing the real session would end the test; use other IDs
				if c.b.Sess != nil && id == c.b.Sess.BMCSID {
					id ^= 0x10
				}
			}
			cmd2 := &ipmi.CloseSessionCmd{Req: ipmi.CloseSessionReq{ID: id, Handle: ipmi.SessionHandle(h)}}
			// the simulated BMC would deactivate the session on a successful Close Session; answer with an error code instead
			g2 := genCmd{Cmd: cmd2, NetFn: 6, CmdNo: 0x3c, Label: "close", Want: refcodec.Fields{"id": uint64(id)}}
			if !c06SendCC(run, c, g2, cs) {
				return
			}
			sig(g2, "id")
		}
	case "getsdr":
		bounds16 := []int{0, 1, 0xff, 0x100, 0x7fff, 0x8000, 0xfffe, 0xffff}
		bounds8 := []int{0, 1, 5, 0x7f, 0x80, 0xfe, 0xff}
		for _, resv := range bounds16 {
			for _, rec := range bounds16 {
				for _, off := range bounds8 {
					for _, ln := range bounds8 {
						cmd := &ipmi.GetSDRCmd{Req: ipmi.GetSDRReq{ReservationID: ipmi.ReservationID(resv), RecordID: ipmi.RecordID(rec), Offset: uint8(off), Length: uint8(ln)}}
						g := genCmd{Cmd: cmd, NetFn: 0x0a, CmdNo: 0x23, Label: "getsdr", Want: refcodec.Fields{"reservation": uint64(resv), "record": uint64(rec), "offset": uint64(off), "length": uint64(ln)}, OkBody: []byte{0xff, 0xff, 1, 2, 3}}
						if !do(g, fmt.Sprintf("%d/%d/%d/%d", resv, rec, off, ln)) {
							return
						}
					}
				}
			}
		}
		for i := 0; i < 2000; i++ {
			if !do(genCommand(r, "getsdr", 0), "random") {
				return
			}
		}
	case "dcmicap":
		for p := 0; p < 256; p++ {
			cmd := dcmi.NewGetDCMICapabilitiesInfoOptionalPlatformAttrsCmd()
			cmd.Parameter = dcmi.CapabilitiesParameter(p)
			if !do(genCmd{Cmd: cmd, NetFn: 0x2c, CmdNo: 0x01, Label: "dcmicap", Want: refcodec.Fields{"parameter": uint64(p)}, OkBody: []byte{0xdc, 1, 5, 2, 0x40, 0x12}}, fmt.Sprint(p)) {
				return
			}
		}
		for _, cmd := range []ipmi.Command{dcmi.NewGetDCMICapabilitiesInfoSupportedCapabilitiesCmd(), dcmi.NewGetDCMICapabilitiesInfoMandatoryPlatformAttrsCmd(), dcmi.NewGetDCMICapabilitiesInfoOptionalPlatformAttrsCmd(),
			dcmi.NewGetDCMICapabilitiesInfoManageabilityAccessAttrsCmd(), dcmi.NewGetDCMICapabilitiesInfoEnhancedSystemPowerStatisticsAttrsCmd()} {
			param := map[string]uint64{"Supported Capabilities": 1, "Mandatory Platform Attributes": 2, "Optional Platform Attributes": 3, "Manageability Access Attributes": 4, "Enhanced System Power Statistics Attributes": 5}
			var p uint64
			for k, v := range param {
				if bytes.Contains([]byte(cmd.Name()), []byte(k)) {
					p = v
				}
			}
			body := map[uint64][]byte{1: {0xdc, 1, 5, 2, 0, 1, 7}, 2: {0xdc, 1, 5, 2, 0x80, 1, 7, 7, 1}, 3: {0xdc, 1, 5, 2, 0x40, 0x12}, 4: {0xdc, 1, 5, 2, 1, 0xff, 0xff}, 5: {0xdc, 1, 5, 2, 1, 0x41}}[p]
			if !do(genCmd{Cmd: cmd, NetFn: 0x2c, CmdNo: 0x01, Label: "dcmicap", Want: refcodec.Fields{"parameter": p}, OkBody: body}, "constructor-"+fmt.Sprint(p)) {
				return
			}
		}
	case "power":
		okBody := append([]byte{0xdc}, specBody(r, "GetPowerReadingRsp")...)
		for mode := 0; mode < 4; mode++ {
			for unit := 0; unit < 4; unit++ {
				for val := 0; val < 64; val++ {
					pb, d := refcodec.PeriodByte(byte(unit), byte(val))
					canonical := val > 0 && !((unit == 0 && val >= 60) || (unit == 1 && val >= 60) || (unit == 2 && val >= 24))
					if val == 0 {
						pb, canonical = 0, unit == 0
					}
					if !canonical {
						continue
					}
					cmd := &dcmi.GetPowerReadingCmd{Req: dcmi.GetPowerReadingReq{Mode: dcmi.SystemPowerStatisticsMode(mode), Period: d}}
					want := refcodec.Fields{"mode": uint64(mode), "period": 0}
					if mode == 2 {
						want["period"] = uint64(pb)
					}
					if !do(genCmd{Cmd: cmd, NetFn: 0x2c, CmdNo: 0x02, Label: "power", Want: want, OkBody: okBody}, fmt.Sprintf("%d/%d/%d", mode, unit, val)) {
						return
					}
				}
			}
		}
		// the DCMI session commander's method, with a request value whose period was left in place
		// from an earlier enhanced-mode reading: in normal mode the period bytes are zero whatever it holds
		if sess, ok := c.conn.(*bmc.V2Session); ok {
			dc := dcmi.NewSessionCommander(sess)
			for i, mode := range []dcmi.SystemPowerStatisticsMode{dcmi.SystemPowerStatisticsModeNormal, dcmi.SystemPowerStatisticsModeEnhanced, dcmi.SystemPowerStatisticsModeNormal, dcmi.SystemPowerStatisticsModeNormal} {
				req := &dcmi.GetPowerReadingReq{Mode: mode, Period: []time.Duration{5 * time.Minute, 5 * time.Minute, 5 * time.Minute, 3 * time.Hour}[i]}
				want := refcodec.Fields{"mode": uint64(mode), "period": 0}
				if mode == dcmi.SystemPowerStatisticsModeEnhanced {
					want["period"] = 0x45
				}
				g := genCmd{Cmd: &dcmi.GetPowerReadingCmd{}, NetFn: 0x2c, CmdNo: 0x02, Label: "power", Want: want, OkBody: okBody,
					Call: func(ctx context.Context, _ bmc.Connection) (ipmi.CompletionCode, error) {
						_, err := dc.GetPowerReading(ctx, req)
						return 0, err
					}}
				if !do(g, fmt.Sprintf("commander:%d", i)) {
					return
				}
			}
		}
		// periods beyond what the byte can express: the encoding saturates at its maximum, 63 days (the
		// library documents this; C20 enumerates every second up to 65 days), it does not wrap
		for _, days := range []int{64, 65, 90, 100, 127, 128, 200, 365, 1000, 10000} {
			cmd := &dcmi.GetPowerReadingCmd{Req: dcmi.GetPowerReadingReq{Mode: dcmi.SystemPowerStatisticsModeEnhanced, Period: time.Duration(days) * 24 * time.Hour}}
			if !do(genCmd{Cmd: cmd, NetFn: 0x2c, CmdNo: 0x02, Label: "power", Want: refcodec.Fields{"mode": 2, "period": 0xff}, OkBody: okBody}, fmt.Sprintf("days-%d", days)) {
				return
			}
		}
	case "sensorinfo":
		for i := 0; i < 6000; i++ {
			g := genCommand(r, "sensorinfo", 0)
			if !do(g, fmt.Sprint(g.Want["instance"] == 0, g.Want["start"]%4)) {
				return
			}
		}
		for inst := 0; inst < 256; inst++ {
			for _, start := range []int{0, 1, 8, 255} {
				cmd := &dcmi.GetDCMISensorInfoCmd{Req: dcmi.GetDCMISensorInfoReq{Type: ipmi.SensorTypeTemperature, Entity: ipmi.EntityID(0x40 + inst%3), Instance: ipmi.EntityInstance(inst), InstanceStart: uint8(start)}}
				ws := uint64(start)
				if inst != 0 {
					ws = 0
				}
				if !do(genCmd{Cmd: cmd, NetFn: 0x2c, CmdNo: 0x07, Label: "sensorinfo", Want: refcodec.Fields{"type": 1, "entity": uint64(0x40 + inst%3), "instance": uint64(inst), "start": ws}, OkBody: []byte{0xdc, 0, 0}}, fmt.Sprintf("%d/%d", inst, start)) {
					return
				}
			}
		}
	case "nobody":
		for _, k := range []string{"devid", "chassisstatus", "guid", "repoinfo", "reserve"} {
			if !do(genCommand(r, k, 0), k) {
				return
			}
		}
		for l := 0; l <= 200; l++ {
			for _, k := range []string{"raw-normal", "raw-group", "raw-oem"} {
				if !do(genCommand(r, k, l), fmt.Sprintf("%s/%d", k, l%16)) {
					return
				}
			}
		}
	case "interleave":
		// one connection used both ways: session-less commands (the body-less ones repeated) between
		// in-session commands; each datagram must be what that call asked for, in the wrapper that
		// call's kind of connection uses
		sess := c.conn
		slKinds := []string{"guid", "guid", "authcaps", "guid", "ciphersuites", "dcmicap", "guid"}
		inKinds := []string{"devid", "chassisstatus", "raw-normal", "guid", "repoinfo", "sensorreading", "raw-oem", "reserve"}
		for i := 0; i < 60; i++ {
			var g genCmd
			if (i+int(b.Seed))%3 == 0 || i%7 == 6 {
				c.conn, c.in = sess, true
				g = genCommand(r, inKinds[r.Intn(len(inKinds))], r.Intn(40))
			} else {
				c.conn, c.in = c.sl, false
				g = genCommand(r, slKinds[(i+int(b.Seed))%len(slKinds)], 0)
			}
			if !do(g, fmt.Sprintf("interleave|%v", c.in)) {
				return
			}
		}
	case "random":
		for i := b.From; i < b.To; i++ {
			k := cmdKinds[r.Intn(len(cmdKinds))]
			if k == "close" || (k == "setpriv" && !b.InSession) {
				continue
			}
			g := genCommand(r, k, r.Intn(201))
			c.busyFirst = i%5 == 0 && !g.SerFail && !b.UDP
			c.strayFirst = i%7 == 3 && !c.busyFirst && !g.SerFail && !b.UDP
			if !do(g, "random") {
				return
			}
		}
	}
}

// c06SendCC sends a command the BMC answers with an error completion code
// (so that state-changing commands do not take effect) and checks the request.
func c06SendCC(run *ev.Run, c *c06Conn, g genCmd, cs ev.Case) bool {
	prev := c.b.Handler
	c.b.Handler = func(evn *refbmc.Event) (byte, []byte, bool) { return 0xc9, nil, true }
	defer func() { c.b.Handler = prev }()
	run.Eval(1)
	first := c.b.Len()
	ctx, cancel := bg(10 * time.Second)
	defer cancel()
	code, err := c.conn.SendCommand(ctx, g.Cmd)
	evs := c.b.Since(first)
	if len(evs) != 1 || evs[0].Problem != "" || err != nil || code != 0xc9 {
		run.Violation("C06:"+g.Label+":datagram", fmt.Sprintf("%s: %d datagrams, err %v code %v", g.Label, len(evs), err, code), cs, nil)
		return false
	}
	e := evs[0]
	f, perr := refcodec.ParseRequest(e.NetFn, e.Cmd, e.Data)
	if perr != nil || e.NetFn != g.NetFn || e.Cmd != g.CmdNo {
		run.Violation("C06:"+g.Label+":body-malformed", fmt.Sprintf("%v; datagram %x", perr, e.Raw), cs, nil)
		return false
	}
	if d := f.Diff(g.Want); len(d) > 0 {
		run.Violation("C06:"+g.Label+":fields", fmt.Sprintf("%v; datagram %x", d, e.Raw), cs, nil)
		return false
	}
	return true
}

func c06Handshake(run *ev.Run, h c06HS) {
	run.Eval(1)
	cs := ev.MkCase("hs", h)
	r := rng(h.Seed+int64(h.Priv*100+h.ULen), "c06hs")
	cfg := defaultCfg(r)
	full := randUser(r, h.ULen)
	if h.Runes > 1 {
		// byte length h.ULen, rune count h.ULen / h.Runes
		alphabet := []string{"", "", "\u00e9\u00fc\u00f1\u0434\u0436", "\u7ba1\u7406\u20ac\u0939"}[h.Runes]
		rs := []rune(alphabet)
		full = ""
		for len(full) < h.ULen {
			full += string(rs[r.Intn(len(rs))])
		}
	}
	switch h.Runes {
	case -1:
		// a name padded with 0x00 to its length, as copied out of a fixed-width field
		k := h.ULen - 1 - r.Intn(4)
		if k < 0 {
			k = 0
		}
		full = randUser(r, k) + strings.Repeat("\x00", h.ULen-k)
	case -2:
		// arbitrary bytes: NUL, space, control and high bytes anywhere
		b := rbytes(r, h.ULen)
		for i := range b {
			if r.Intn(3) == 0 {
				b[i] = []byte{0, ' ', 0xff, '\t', 0x80, 0}[r.Intn(6)]
			}
		}
		full = string(b)
	}
	cfg.Username = full
	if h.ULen > 16 {
		// the BMC knows the user under the first 16 bytes: a truncating library
		// would log in
		cfg.Username = full[:16]
	}
	user := full
	su := stdSuites()[h.Suite%9]
	if h.None&1 != 0 {
		su.Integ = 0
	}
	if h.None&2 != 0 {
		su.Conf = 0
	}
	if h.None&4 != 0 {
		su.Auth = 0
	}
	cfg.Suites = []refbmc.Suite{su}
	e := NewEnv(cfg, memtr.Window)
	ctx, cancel := e.LimitCtx(12)
	defer cancel()
	var sess *bmc.V2Session
	var err error
	pv, st := safe(func() {
		sess, err = e.ST.NewV2Session(ctx, &bmc.V2SessionOpts{
			SessionOpts:          bmc.SessionOpts{Username: user, Password: cfg.Password, MaxPrivilegeLevel: ipmi.PrivilegeLevel(h.Priv)},
			PrivilegeLevelLookup: h.Lookup,
			CipherSuites:         []ipmi.CipherSuite{libSuite(su)},
		})
	})
	desc := fmt.Sprintf("handshake priv %d lookup %v username length %d suite %v", h.Priv, h.Lookup, h.ULen, su)
	if pv != nil {
		run.Violation("C06:handshake:panic:"+panicSite(st), fmt.Sprintf("%s: %v\n%s", desc, pv, trimStack(st)), cs, nil)
		return
	}
	run.Nontrivial(fmt.Sprintf("hs|%d|%v|%d|%d|%d", h.Priv, h.Lookup, h.ULen, h.Runes, h.None))
	var sawRAKP1 bool
	for _, evn := range e.BMC.Events() {
		run.Event("datagrams-parsed", 1)
		switch evn.Kind {
		case "open":
			f, perr := refcodec.ParseOpenSessionReq(evn.Payload)
			if perr != nil || evn.Problem != "" {
				run.Violation("C06:open:malformed", fmt.Sprintf("%s: %v %s; datagram %x", desc, perr, evn.Problem, evn.Raw), cs, nil)
				return
			}
			want := refcodec.Fields{"tag": f["tag"], "privilege": uint64(h.Priv), "console_sid": f["console_sid"], "auth": uint64(su.Auth), "integ": uint64(su.Integ), "conf": uint64(su.Conf)}
			if d := f.Diff(want); len(d) > 0 || f["console_sid"] == 0 {
				run.Violation("C06:open:fields", fmt.Sprintf("%s: %v (console session ID %#x); datagram %x", desc, d, f["console_sid"], evn.Raw), cs, nil)
				return
			}
		case "rakp1":
			sawRAKP1 = true
			f, rm, uname, perr := refcodec.ParseRAKP1(evn.Payload)
			if perr != nil || evn.Problem != "" {
				run.Violation("C06:rakp1:malformed", fmt.Sprintf("%s: %v %s; datagram %x", desc, perr, evn.Problem, evn.Raw), cs, nil)
				return
			}
			if h.ULen > 16 {
				run.Violation("C06:rakp1:username-truncated", fmt.Sprintf("%s: RAKP 1 sent with username %q for a %d-byte username", desc, uname, h.ULen), cs, nil)
				return
			}
			nameOnly := uint64(1)
			if h.Lookup {
				nameOnly = 0
			}
			want := refcodec.Fields{"tag": f["tag"], "bmc_sid": uint64(cfg.SID), "name_only_lookup": nameOnly, "privilege": uint64(h.Priv), "ulen": uint64(h.ULen)}
			if d := f.Diff(want); len(d) > 0 || uname != user || len(rm) != 16 {
				run.Violation("C06:rakp1:fields", fmt.Sprintf("%s: %v username %q; datagram %x", desc, d, uname, evn.Raw), cs, nil)
				return
			}
		case "rakp3":
			f, ac, perr := refcodec.ParseRAKP3(evn.Payload)
			if perr != nil || evn.Problem != "" {
				run.Violation("C06:rakp3:malformed", fmt.Sprintf("%s: %v %s; datagram %x", desc, perr, evn.Problem, evn.Raw), cs, nil)
				return
			}
			wantLen := map[byte]int{0: 0, 1: 20, 2: 16, 3: 32}[su.Auth]
			if f["status"] != 0 || f["bmc_sid"] != uint64(cfg.SID) || len(ac) != wantLen {
				run.Violation("C06:rakp3:fields", fmt.Sprintf("%s: status %d SID %#x authcode %d bytes (want %d); datagram %x", desc, f["status"], f["bmc_sid"], len(ac), wantLen, evn.Raw), cs, nil)
				return
			}
		}
	}
	if h.ULen > 16 {
		if err == nil || sess != nil || sawRAKP1 {
			run.Violation("C06:rakp1:long-username-accepted", fmt.Sprintf("%s: err=%v", desc, err), cs, nil)
		}
		return
	}
	if err != nil && h.None != 0 {
		// the library may refuse to run without integrity/confidentiality/authentication;
		// whatever it did put on the wire was checked above
		run.Event("none-suite-handshakes-refused", 1)
		return
	}
	if err != nil {
		run.Violation("C06:handshake-failed", fmt.Sprintf("%s: %v; %v", desc, err, problems(e.BMC)), cs, nil)
		return
	}
	if h.ULen%8 == 0 && h.Priv%5 == 0 {
		run.Sample("handshake", map[string]any{"privilege": h.Priv, "lookup": h.Lookup, "username_len": h.ULen, "suite": su.String()})
	}
	_ = context.Background
}

// c06Renegotiate opens several sessions over one connection, each time with another
// preference list; every Open Session Request must propose the suite that follows from
// the list given with that call and from what the BMC advertises at that moment.
func c06Renegotiate(run *ev.Run, h c06Reneg) {
	run.Eval(1)
	cs := ev.MkCase("reneg", h)
	r := rng(h.Seed, "c06reneg")
	cfg := defaultCfg(r)
	uni := []refbmc.Suite{{Auth: 1, Integ: 1, Conf: 1}, {Auth: 3, Integ: 4, Conf: 1}, {Auth: 2, Integ: 2, Conf: 1}, {Auth: 1, Integ: 2, Conf: 1}, {Auth: 3, Integ: 1, Conf: 1}}
	ids := []byte{3, 17, 8, 0x81, 0x82}
	cfg.Suites = uni
	e := NewEnv(cfg, memtr.Window)
	var recs []refbmc.SuiteRecord
	adv := map[refbmc.Suite]bool{}
	for i, su := range uni {
		if r.Intn(3) != 0 {
			recs = append(recs, refbmc.SuiteRecord{ID: ids[i], Auth: su.Auth, Integs: []byte{su.Integ}, Confs: []byte{su.Conf}})
			adv[su] = true
		}
	}
	css := &refbmc.CipherSuiteServer{Data: refbmc.EncodeSuiteRecords(recs), Channel: 1}
	e.BMC.Handler = css.Handle
	for round := 0; round < 4; round++ {
		n := 1 + r.Intn(3)
		perm := r.Perm(len(uni))[:n]
		var prefs []ipmi.CipherSuite
		var want *refbmc.Suite
		for _, k := range perm {
			prefs = append(prefs, libSuite(uni[k]))
			if want == nil && (adv[uni[k]] || n == 1) {
				w := uni[k]
				want = &w
			}
		}
		from := e.BMC.Len()
		ctx, cancel := e.LimitCtx(40)
		var err error
		pv, st := safe(func() {
			_, err = e.ST.NewV2Session(ctx, &bmc.V2SessionOpts{SessionOpts: bmc.SessionOpts{Username: cfg.Username, Password: cfg.Password, MaxPrivilegeLevel: ipmi.PrivilegeLevelOperator}, CipherSuites: prefs})
		})
		cancel()
		desc := fmt.Sprintf("handshake %d on one connection, preferences %v, advertised %v", round+1, prefs, recs)
		if pv != nil {
			run.Violation("C06:reneg:panic:"+panicSite(st), fmt.Sprintf("%s: %v\n%s", desc, pv, trimStack(st)), cs, nil)
			return
		}
		var opens []refbmc.Event
		for _, evn := range e.BMC.Since(from) {
			if evn.Kind == "open" {
				opens = append(opens, evn)
			}
		}
		if want == nil {
			if len(opens) != 0 || err == nil {
				run.Violation("C06:reneg:proposal-without-match", fmt.Sprintf("%s: none of the preferences is advertised, yet %d Open Session Requests were sent (err %v)", desc, len(opens), err), cs, nil)
				return
			}
			run.Nontrivial(fmt.Sprintf("reneg|none|%d", round))
			continue
		}
		if len(opens) == 0 {
			run.Violation("C06:reneg:no-proposal", fmt.Sprintf("%s: no Open Session Request reached the BMC (err %v)", desc, err), cs, nil)
			return
		}
		for _, evn := range opens {
			f, perr := refcodec.ParseOpenSessionReq(evn.Payload)
			if perr != nil || evn.Problem != "" {
				run.Violation("C06:open:malformed", fmt.Sprintf("%s: %v %s; datagram %x", desc, perr, evn.Problem, evn.Raw), cs, nil)
				return
			}
			w := refcodec.Fields{"tag": f["tag"], "privilege": uint64(3), "console_sid": f["console_sid"], "auth": uint64(want.Auth), "integ": uint64(want.Integ), "conf": uint64(want.Conf)}
			if d := f.Diff(w); len(d) > 0 {
				run.Violation("C06:reneg:fields", fmt.Sprintf("%s: Open Session Request differs from what this call asked for: %v; datagram %x", desc, d, evn.Raw), cs, nil)
				return
			}
		}
		if err != nil {
			run.Violation("C06:handshake-failed", fmt.Sprintf("%s: %v; %v", desc, err, problems(e.BMC)), cs, nil)
			return
		}
		run.Event("renegotiations-checked", 1)
		run.Nontrivial(fmt.Sprintf("reneg|%d|%d|%v", round, n, *want))
	}
}
