package checks

import (
	"bytes"
	"context"
	"fmt"
	"strings"
	"time"

	"verifharness/ev"
	"verifharness/memtr"
	"verifharness/mon"
	"verifharness/refbmc"

	"github.com/cenkalti/backoff/v4"
	"github.com/gebn/bmc"
	"github.com/gebn/bmc/pkg/dcmi"
	"github.com/gebn/bmc/pkg/ipmi"
	"github.com/google/gopacket"
)

type c10One struct {
	Mode     string // "sl" | "in" | "hs"
	Cmd      string
	Script   []string
	CancelAt int
	Suite    int
}

type c10Batch struct {
	Mode     string
	Cmd      string
	K        int
	From, To int
	Cancel   bool
	Seed     int64
}

var (
	c10RetrySL = []string{"busy", "tmo", "garbage:chk", "garbage:noise", "garbage:len", "garbage:empty", "garbage:short", "garbage:reflect", "garbage:nomsg", "lost", "refused"}
	c10TermSL  = []string{"ok", "cc:c1", "ccb:d4", "cc:ff", "trunc"}
	c10RetryIn = []string{"busy", "tmo", "garbage:noise", "garbage:authmsg", "badsig", "garbage:chk", "garbage:short", "garbage:reflect", "garbage:empty"}
	c10TermIn  = []string{"ok", "cc:c1", "ccb:d4", "cc:ff", "trunc", "lost", "refused", "ok:signed-plain"}
	c10CmdsSL  = []string{"sl-authcaps", "sl-guid", "sl-raw", "sl-dcmicap"}
	c10CmdsIn  = []string{"devid", "authcaps", "chassis", "raw", "power", "getsdr"}
	c10HSRetry = []string{"lost", "refused", "garbage:noise", "garbage:rmcp", "wrongtype", "garbage:len"}
)

func init() {
	register(&Check{
		ID:    "C10",
		Level: "fault_enumeration",
		Rule: "for each command (4 session-less, 6 in-session incl. DCMI group-extension commands and commands without request or response body) every per-attempt outcome sequence " +
			"retry-outcome^k . terminal-outcome with k up to 4 session-less / 3 in-session (thorough 6 / 5) is scripted into the simulated BMC and the number of transmissions, the well-formedness and " +
			"semantic equality of every retransmission (as verified and decrypted by the BMC), and the returned completion code / error-ness / body are compared with an executable model of the documented contract; " +
			"plus context cancellation injected at every step, plus retry sequences on each of the three handshake payloads; non-trivial = at least one retransmission; distinct = distinct (mode, command, script, cancel step)",
		Assumptions: []string{
			"model: busy/timeout code/undecodable/lost => retransmit (in-session lost => error, no further transmission); any other valid response ends the call with its code; a too-short body gives the code plus an error without retry",
			"retry timing and back-off shape are not asserted (zero back-off injected through the hook)",
		},
		Exhaustive: func(string) bool { return true },
		Gen:        c10Gen,
		Exec:       c10Exec,
		Anchors:    []string{"V2Session).buildAndSend", "buildAndSendCommand", "buildAndSendPayload", "IsTemporary"},
	})
}

func pow(a, b int) int {
	r := 1
	for i := 0; i < b; i++ {
		r *= a
	}
	return r
}

// c10Script returns the idx-th script over retry^k . terminal for k = 0..K.
func c10Script(retry, term []string, K, idx int) []string {
	for k := 0; k <= K; k++ {
		n := pow(len(retry), k) * len(term)
		if idx < n {
			t := term[idx%len(term)]
			idx /= len(term)
			var s []string
			for i := 0; i < k; i++ {
				s = append(s, retry[idx%len(retry)])
				idx /= len(retry)
			}
			return append(s, t)
		}
		idx -= n
	}
	return nil
}

func c10Total(retry, term []string, K int) int {
	t := 0
	for k := 0; k <= K; k++ {
		t += pow(len(retry), k) * len(term)
	}
	return t
}

func c10Gen(tier string, seed int64) []ev.Case {
	ksl, kin, khs := 4, 3, 2
	if tier == "thorough" {
		ksl, kin, khs = 6, 5, 4
	}
	var cs []ev.Case
	chunk := 1500
	for _, cmd := range c10CmdsSL {
		tot := c10Total(c10RetrySL, c10TermSL, ksl)
		for f := 0; f < tot; f += chunk {
			cs = append(cs, ev.MkCase("batch", c10Batch{Mode: "sl", Cmd: cmd, K: ksl, From: f, To: f + chunk, Seed: seed}))
		}
		totc := c10Total(c10RetrySL, c10TermSL, ksl-1)
		for f := 0; f < totc; f += chunk {
			cs = append(cs, ev.MkCase("batch", c10Batch{Mode: "sl", Cmd: cmd, K: ksl - 1, From: f, To: f + chunk, Cancel: true, Seed: seed}))
		}
	}
	for _, cmd := range c10CmdsIn {
		tot := c10Total(c10RetryIn, c10TermIn, kin)
		for f := 0; f < tot; f += chunk {
			cs = append(cs, ev.MkCase("batch", c10Batch{Mode: "in", Cmd: cmd, K: kin, From: f, To: f + chunk, Seed: seed}))
		}
		totc := c10Total(c10RetryIn, c10TermIn, kin-1)
		for f := 0; f < totc; f += chunk {
			cs = append(cs, ev.MkCase("batch", c10Batch{Mode: "in", Cmd: cmd, K: kin - 1, From: f, To: f + chunk, Cancel: true, Seed: seed}))
		}
	}
	// callers' contexts without a deadline: each attempt must still be bounded
	cs = append(cs, ev.MkCase("batch", c10Batch{Mode: "nodeadline", Seed: seed}))
	cs = append(cs, ev.MkCase("batch", c10Batch{Mode: "policies", Seed: seed}))
	// every completion code, alone and after a retry
	for _, cmd := range c10CmdsSL {
		cs = append(cs, ev.MkCase("batch", c10Batch{Mode: "sl", Cmd: cmd, K: -1, Seed: seed}))
	}
	for _, cmd := range c10CmdsIn {
		cs = append(cs, ev.MkCase("batch", c10Batch{Mode: "in", Cmd: cmd, K: -1, Seed: seed}))
		cs = append(cs, ev.MkCase("batch", c10Batch{Mode: "in", Cmd: cmd, K: -2, Seed: seed}))
	}
	for _, cmd := range c10CmdsSL {
		cs = append(cs, ev.MkCase("batch", c10Batch{Mode: "sl", Cmd: cmd, K: -2, Seed: seed}))
	}
	for _, p := range []string{"open", "rakp1", "rakp3"} {
		tot := c10Total(c10HSRetry, []string{"ok"}, khs)
		for f := 0; f < tot; f += 200 {
			cs = append(cs, ev.MkCase("batch", c10Batch{Mode: "hs", Cmd: p, K: khs, From: f, To: f + 200, Seed: seed}))
		}
	}
	return cs
}

func c10Exec(run *ev.Run, c ev.Case) {
	switch c.Kind {
	case "one":
		var o c10One
		c.Decode(&o)
		if o.Mode == "hs" {
			c10Handshake(run, o)
			return
		}
		c10Run(run, nil, nil, o)
	case "batch":
		var b c10Batch
		c.Decode(&b)
		switch b.Mode {
		case "nodeadline":
			c10NoDeadline(run, b.Seed)
		case "policies":
			c10Policies(run, b.Seed)
		case "hs":
			tot := c10Total(c10HSRetry, []string{"ok"}, b.K)
			for i := b.From; i < b.To && i < tot; i++ {
				sc := c10Script(c10HSRetry, []string{"ok"}, b.K, i)
				c10Handshake(run, c10One{Mode: "hs", Cmd: b.Cmd, Script: sc[:len(sc)-1], Suite: i % 9})
			}
		default:
			retry, term := c10RetrySL, c10TermSL
			if b.Mode == "in" {
				retry, term = c10RetryIn, c10TermIn
			}
			tot := c10Total(retry, term, b.K)
			r := rng(b.Seed+int64(b.From), "c10")
			cfg := defaultCfg(r)
			suite := (b.From/1500 + len(b.Cmd)) % 9
			se := NewScriptEnv(cfg, memtr.Window)
			se.Strict = true
			var sess *bmc.V2Session
			if b.Mode == "in" {
				ctx, cancel := se.LimitCtx(20)
				var err error
				sess, err = se.OpenSession(ctx, stdSuites()[suite])
				cancel()
				if err != nil {
					run.Violation("C10:handshake-failed", err.Error(), ev.MkCase("batch", b), nil)
					return
				}
			}
			if b.K == -2 {
				// temporary codes followed by response data, and long runs of retryable outcomes
				terms := []string{"ok", "cc:c1", "ccb:d4"}
				for i, pre := range [][]string{{"busy:data"}, {"tmo:data"}, {"busy", "busy:data"}, {"busy:data", "tmo:data", "garbage:noise"}, {"tmo:data", "busy"}} {
					for _, t := range terms {
						c10Run(run, se, sess, c10One{Mode: b.Mode, Cmd: b.Cmd, Script: append(append([]string(nil), pre...), t), Suite: suite})
					}
					c10Run(run, se, sess, c10One{Mode: b.Mode, Cmd: b.Cmd, Script: append([]string(nil), pre...), CancelAt: len(pre), Suite: suite + i})
				}
				if b.Mode == "in" {
					// non-responses carrying extreme BMC sequence numbers, then the real answer - and the
					// commands after it on the same session
					for _, x := range []string{"garbage:unauth-hiseq", "garbage:othersid-hiseq", "garbage:badsig-hiseq", "garbage:unauth-seq0"} {
						for _, sc := range [][]string{{x, "ok"}, {x, "busy", "ok"}, {"busy", x, "cc:c1"}, {x, x, "ok"}} {
							c10Run(run, se, sess, c10One{Mode: b.Mode, Cmd: b.Cmd, Script: sc, Suite: suite})
							c10Run(run, se, sess, c10One{Mode: b.Mode, Cmd: b.Cmd, Script: []string{"ok"}, Suite: suite})
						}
					}
				}
				for _, n := range []int{14, 15, 16, 17, 31, 32, 33, 64, 100} {
					for v := 0; v < 2; v++ {
						var sc []string
						for i := 0; i < n; i++ {
							if v == 0 {
								sc = append(sc, "busy")
							} else {
								sc = append(sc, retry[(i*7+n)%len(retry)])
								if !retryable(sc[i], b.Mode == "in") || sc[i] == "lost" || sc[i] == "refused" {
									sc[i] = "tmo"
								}
							}
						}
						c10Run(run, se, sess, c10One{Mode: b.Mode, Cmd: b.Cmd, Script: append(sc, terms[n%3]), Suite: suite})
					}
				}
				return
			}
			if b.K == -1 {
				for code := 1; code < 256; code++ {
					if code == 0xc0 || code == 0xc3 {
						continue
					}
					for _, pre := range [][]string{{}, {"busy"}, {"tmo", "garbage:noise"}} {
						for _, form := range []string{"cc:%02x", "ccb:%02x"} {
							c10Run(run, se, sess, c10One{Mode: b.Mode, Cmd: b.Cmd, Script: append(append([]string(nil), pre...), fmt.Sprintf(form, code)), Suite: suite})
						}
					}
				}
				return
			}
			for i := b.From; i < b.To && i < tot; i++ {
				sc := c10Script(retry, term, b.K, i)
				if b.Cancel {
					for j := 1; j <= len(sc); j++ {
						c10Run(run, se, sess, c10One{Mode: b.Mode, Cmd: b.Cmd, Script: sc, CancelAt: j, Suite: suite})
					}
				} else {
					c10Run(run, se, sess, c10One{Mode: b.Mode, Cmd: b.Cmd, Script: sc, Suite: suite})
				}
			}
		}
	}
}

// c10Cmd builds the command, its ok body, the response minimum and a function
// rendering the decoded response for comparison.
func c10Cmd(kind string) (cmd ipmi.Command, okBody []byte, minBody int, hasRsp bool, rsp func() string) {
	switch kind {
	case "devid":
		c := &ipmi.GetDeviceIDCmd{}
		return c, []byte{0x20, 0x81, 0x03, 0x15, 0x02, 0xbf, 0x57, 0x01, 0x00, 0x34, 0x12, 1, 2, 3, 4}, 11, true, func() string { return mon.Snapshot(&c.Rsp) }
	case "authcaps", "sl-authcaps":
		c := &ipmi.GetChannelAuthenticationCapabilitiesCmd{Req: ipmi.GetChannelAuthenticationCapabilitiesReq{ExtendedData: true, Channel: ipmi.ChannelPresentInterface, MaxPrivilegeLevel: ipmi.PrivilegeLevelAdministrator}}
		return c, []byte{1, 0x80, 0x14, 0x02, 0x11, 0x22, 0x33, 0x44}, 8, true, func() string { return mon.Snapshot(&c.Rsp) }
	case "chassis":
		c := &ipmi.ChassisControlCmd{Req: ipmi.ChassisControlReq{ChassisControl: ipmi.ChassisControlHardReset}}
		return c, nil, 0, false, func() string { return "" }
	case "raw", "sl-raw":
		c := &RawCmd{Op: ipmi.Operation{Function: ipmi.NetworkFunctionOEMReq, Enterprise: 0x00b1c2, Command: 0x77}, LUN: 2, Req: []byte{1, 2, 3, 4, 5, 6, 7}}
		c.Rsp.Min = 3
		return c, []byte{0xc2, 0xb1, 0x00, 0xde, 0xad, 0xbe, 0xef}, 6, true, func() string { return ev.Hex(c.Rsp.Data) }
	case "sl-guid":
		c := &ipmi.GetSystemGUIDCmd{}
		return c, []byte{1, 2, 3, 4, 5, 6, 7, 8, 9, 10, 11, 12, 13, 14, 15, 16}, 16, true, func() string { return mon.Snapshot(&c.Rsp) }
	case "power":
		c := &dcmi.GetPowerReadingCmd{Req: dcmi.GetPowerReadingReq{Mode: dcmi.SystemPowerStatisticsModeEnhanced, Period: 5 * time.Minute}}
		return c, []byte{0xdc, 10, 0, 5, 0, 20, 0, 12, 0, 1, 2, 3, 4, 0xe8, 3, 0, 0, 0x40}, 18, true, func() string { return mon.Snapshot(&c.Rsp) }
	case "sl-dcmicap":
		c := dcmi.NewGetDCMICapabilitiesInfoManageabilityAccessAttrsCmd()
		return c, []byte{0xdc, 1, 5, 2, 1, 0xff, 0xff}, 7, true, func() string { return mon.Snapshot(&c.Rsp) }
	case "getsdr":
		c := &ipmi.GetSDRCmd{Req: ipmi.GetSDRReq{ReservationID: 0x1234, RecordID: 0x0042, Offset: 5, Length: 20}}
		return c, []byte{0x43, 0x00, 9, 8, 7, 6, 5, 4, 3, 2, 1}, 2, true, func() string { return mon.Snapshot(&c.Rsp) + ev.Hex(c.Rsp.LayerPayload()) }
	}
	panic("unknown command " + kind)
}

func retryable(o string, inSession bool) bool {
	switch {
	case o == "busy", o == "tmo", o == "busy:data", o == "tmo:data", o == "badsig", strings.HasPrefix(o, "garbage"):
		return true
	case o == "lost", o == "refused":
		return !inSession
	}
	return false
}

func c10Run(run *ev.Run, se *ScriptEnv, sess *bmc.V2Session, o c10One) {
	run.Eval(1)
	cs := ev.MkCase("one", o)
	inSession := o.Mode == "in"
	if se == nil {
		r := rng(int64(o.Suite), "c10one")
		se = NewScriptEnv(defaultCfg(r), memtr.Window)
		if inSession {
			ctx, cancel := se.LimitCtx(20)
			var err error
			sess, err = se.OpenSession(ctx, stdSuites()[o.Suite%9])
			cancel()
			if err != nil {
				run.Violation("C10:handshake-failed", err.Error(), cs, nil)
				return
			}
		}
	}
	cmd, okBody, minBody, hasRsp, render := c10Cmd(o.Cmd)
	group := cmd.Operation().Function == ipmi.NetworkFunctionGroupReq
	if group {
		minBody-- // the model counts the group extension byte separately below
	}
	var conn bmc.Connection = se.ST
	if inSession {
		conn = sess
	}
	// ---- model ----
	wantSends := len(o.Script)
	var wantErr bool
	var wantCode int = -1
	wantBody := false
	for i, oc := range o.Script {
		if o.CancelAt > 0 && i+1 == o.CancelAt && retryable(oc, inSession) {
			wantSends, wantErr, wantCode = i+1, true, -1
			break
		}
		if retryable(oc, inSession) {
			if i == len(o.Script)-1 {
				// script exhausted on a retryable outcome: an implicit valid reply follows
				wantSends, wantErr, wantCode, wantBody = i+2, false, 0, true
				if o.CancelAt > 0 && o.CancelAt == i+2 {
					// cancellation while the final valid reply is handled: result still valid
				}
			}
			continue
		}
		wantSends = i + 1
		switch {
		case oc == "ok", oc == "ok:signed-plain":
			wantCode, wantBody = 0, true
		case oc == "lost", oc == "refused":
			wantErr = true
		case oc == "trunc":
			wantCode = 0
			wantErr = hasRsp && (minBody > 0 || group)
			if !hasRsp {
				wantErr = false
			}
		case strings.HasPrefix(oc, "cc:"):
			fmt.Sscanf(oc[3:], "%x", &wantCode)
			wantErr = hasRsp && minBody > 0
		case strings.HasPrefix(oc, "ccb:"):
			fmt.Sscanf(oc[4:], "%x", &wantCode)
			wantBody = true
		}
		break
	}
	if len(o.Script) == 0 {
		wantSends, wantCode, wantBody = 1, 0, true
	}
	// ---- run ----
	res := se.Run(o.Script, okBody, minBodyFor(o.Cmd), o.CancelAt, wantSends+5, func(ctx context.Context) (ipmi.CompletionCode, error) {
		return conn.SendCommand(ctx, cmd)
	})
	desc := fmt.Sprintf("%s %s script %v cancel@%d", o.Mode, o.Cmd, o.Script, o.CancelAt)
	if res.Panic != nil {
		run.Violation("C10:panic:"+panicSite(res.Stack), fmt.Sprintf("%s: panic %v\n%s", desc, res.Panic, trimStack(res.Stack)), cs, nil)
		return
	}
	sends := 0
	for _, s := range res.Sends {
		if !s.CtxDone {
			sends++
		}
	}
	run.Event("transmissions", sends)
	if sends > 1 {
		run.Nontrivial(desc)
	}
	// ---- every transmission is a complete, correctly addressed encoding of the same command ----
	var first *refbmc.Event
	for i, a := range res.Attempts {
		if a.Event == nil {
			run.Violation("C10:retransmission-malformed", fmt.Sprintf("%s: transmission %d was not parsed by the BMC at all: %x", desc, i+1, a.Req), cs, nil)
			return
		}
		if a.Event.Problem != "" {
			key := "C10:retransmission-malformed"
			if i == 0 {
				key = "C10:first-transmission-malformed"
			}
			run.Violation(key, fmt.Sprintf("%s: transmission %d rejected by the BMC: %s (%x)", desc, i+1, a.Event.Problem, a.Req), cs, nil)
			return
		}
		wantKind := "sessionless-ipmi"
		if inSession {
			wantKind = "session-ipmi"
		}
		if a.Event.Kind != wantKind {
			run.Violation("C10:retransmission-wrong-kind", fmt.Sprintf("%s: transmission %d is a %s packet", desc, i+1, a.Event.Kind), cs, nil)
			return
		}
		if first == nil {
			first = a.Event
			op := cmd.Operation()
			if first.NetFn != byte(op.Function) || first.Cmd != byte(op.Command) || first.RsLUN != byte(cmd.RemoteLUN()) {
				run.Violation("C10:first-transmission-wrong-command", fmt.Sprintf("%s: BMC saw NetFn %#x cmd %#x LUN %d", desc, first.NetFn, first.Cmd, first.RsLUN), cs, nil)
				return
			}
			continue
		}
		if a.Event.NetFn != first.NetFn || a.Event.Cmd != first.Cmd || a.Event.RsLUN != first.RsLUN || a.Event.RqLUN != first.RqLUN || !bytes.Equal(a.Event.Data, first.Data) {
			run.Violation("C10:retransmission-differs", fmt.Sprintf("%s: transmission %d is NetFn %#x cmd %#x data %x; the first was NetFn %#x cmd %#x data %x", desc, i+1, a.Event.NetFn, a.Event.Cmd, a.Event.Data, first.NetFn, first.Cmd, first.Data), cs, nil)
			return
		}
	}
	if k := staleDeadlineAfterLoss(res.Sends); k > 0 {
		run.Violation("C10:attempt-after-lost-reply-keeps-expired-deadline", fmt.Sprintf("%s: transmission %d was handed the same deadline (%v) as transmission %d, whose reply was lost, i.e. which had waited until that deadline: on a real socket it could not be written", desc, k+1, res.Sends[k].Deadline.Format("15:04:05.000000"), k), cs, nil)
		return
	}
	if sends != wantSends {
		key := "C10:transmission-count"
		if sends > wantSends {
			key = "C10:extra-transmissions"
			if inSession && len(o.Script) >= wantSends && (o.Script[wantSends-1] == "lost" || o.Script[wantSends-1] == "refused") {
				key = "C10:retry-after-in-session-transport-failure"
			}
			if o.CancelAt > 0 {
				key = "C10:transmission-after-cancel"
			}
		} else if sends < wantSends {
			key = "C10:gave-up-early"
		}
		run.Violation(key, fmt.Sprintf("%s: %d transmissions, model says %d (err=%v code=%v)", desc, sends, wantSends, res.Err, res.Code), cs, nil)
		return
	}
	if (res.Err != nil) != wantErr {
		run.Violation("C10:error-ness", fmt.Sprintf("%s: err=%v, model expects error: %v (code %v)", desc, res.Err, wantErr, res.Code), cs, nil)
		return
	}
	if wantCode >= 0 && int(res.Code) != wantCode {
		run.Violation("C10:completion-code", fmt.Sprintf("%s: returned code %v, model expects %#x", desc, res.Code, wantCode), cs, nil)
		return
	}
	if wantBody && !wantErr && hasRsp {
		// decode the ok body into a fresh command of the same kind for comparison
		_, _, _, _, _ = cmd, okBody, minBody, hasRsp, render
		fresh, _, _, _, renderFresh := c10Cmd(o.Cmd)
		body := okBody
		if group {
			body = body[1:]
		}
		if cmd.Operation().Function == ipmi.NetworkFunctionOEMReq {
			body = body[3:]
		}
		if err := fresh.Response().DecodeFromBytes(body, gopacket.NilDecodeFeedback); err == nil {
			if render() != renderFresh() {
				run.Violation("C10:response-body", fmt.Sprintf("%s: decoded response %s, want %s", desc, render(), renderFresh()), cs, nil)
				return
			}
		}
	}
	if len(o.Script) == 3 && o.CancelAt == 0 && sends == 3 {
		run.Sample(o.Mode+":"+o.Cmd, map[string]any{"mode": o.Mode, "command": o.Cmd, "script": o.Script, "transmissions": sends, "code": fmt.Sprint(res.Code), "err": errStr(res.Err)})
	}
}

func minBodyFor(kind string) int {
	_, _, m, _, _ := c10Cmd(kind)
	return m
}

// c10Handshake scripts retry outcomes onto one of the three handshake payloads.
func c10Handshake(run *ev.Run, o c10One) {
	run.Eval(1)
	cs := ev.MkCase("one", o)
	r := rng(int64(o.Suite)*13+int64(len(o.Script)), "c10hs")
	cfg := defaultCfg(r)
	e := NewEnv(cfg, memtr.Window)
	ptype := map[string]byte{"open": 0x10, "rakp1": 0x12, "rakp3": 0x14}[o.Cmd]
	attempt := 0
	var reqs [][]byte
	e.Filter = func(n int, req, reply []byte) ([]byte, error) {
		if len(req) < 6 || req[5]&0x3f != ptype {
			return reply, nil
		}
		reqs = append(reqs, req)
		oc := "ok"
		if attempt < len(o.Script) {
			oc = o.Script[attempt]
		}
		attempt++
		switch oc {
		case "lost":
			return nil, nil
		case "refused":
			return nil, memtr.ErrRefused
		case "garbage:noise":
			return []byte{0x13, 0x37, 0xde, 0xad, 0xbe, 0xef, 1, 2, 3, 4, 5, 6, 7, 8, 9, 10, 11}, nil
		case "garbage:rmcp":
			return []byte{6, 0, 0xff, 7}, nil
		case "garbage:len":
			if len(reply) > 16 {
				m := append([]byte(nil), reply...)
				m[14] += 11
				return m, nil
			}
		case "wrongtype":
			return refbmc.RMCP(refbmc.SessHdr(0, 0, 0, refbmc.BuildRsp(0x81, 7, 0, 0x20, 1, 0, 0x38, 0, []byte{1, 2, 3, 4, 5, 6, 7, 8}))), nil
		}
		return reply, nil
	}
	ctx, cancel := e.LimitCtx(len(o.Script) + 8)
	defer cancel()
	var sess *bmc.V2Session
	var err error
	pv, st := safe(func() { sess, err = e.OpenSession(ctx, stdSuites()[o.Suite%9]) })
	desc := fmt.Sprintf("handshake payload %s script %v", o.Cmd, o.Script)
	if pv != nil {
		run.Violation("C10:panic:"+panicSite(st), fmt.Sprintf("%s: panic %v\n%s", desc, pv, trimStack(st)), cs, nil)
		return
	}
	if len(o.Script) > 0 {
		run.Nontrivial(desc)
	}
	run.Event("transmissions", e.T.Transmissions())
	if all := e.T.Since(0); true {
		if k := staleDeadlineAfterLoss(all); k > 0 {
			if d, ok := ctx.Deadline(); !ok || all[k].Deadline.Before(d) {
				run.Violation("C10:attempt-after-lost-reply-keeps-expired-deadline", fmt.Sprintf("%s: transmission %d was handed the same deadline as transmission %d, whose reply was lost", desc, k+1, k), cs, nil)
				return
			}
		}
	}
	if len(reqs) != len(o.Script)+1 {
		run.Violation("C10:handshake-transmission-count", fmt.Sprintf("%s: payload transmitted %d times, model says %d (err=%v)", desc, len(reqs), len(o.Script)+1, err), cs, nil)
		return
	}
	for i := 1; i < len(reqs); i++ {
		if !bytes.Equal(reqs[i], reqs[0]) {
			run.Violation("C10:handshake-retransmission-differs", fmt.Sprintf("%s: retransmission %d % x differs from the first % x", desc, i, reqs[i], reqs[0]), cs, nil)
			return
		}
	}
	if err != nil || sess == nil {
		run.Violation("C10:handshake-not-completed", fmt.Sprintf("%s: session not established after the faults stopped: %v; %v", desc, err, problems(e.BMC)), cs, nil)
		return
	}
	if pr := problems(e.BMC); len(pr) > 0 {
		run.Violation("C10:handshake-retransmission-malformed", fmt.Sprintf("%s: BMC problems %v", desc, pr), cs, nil)
	}
}

// staleDeadlineAfterLoss examines the per-attempt deadlines the transport was
// given: a lost reply means the transport waited until that attempt's
// deadline, so the next attempt of the same call must come with a later one,
// or it could not be transmitted (the caller's own deadline is far later than
// any attempt's in these runs). It returns the index of the offending record,
// or 0. No clock is read: only recorded deadlines are compared.
func staleDeadlineAfterLoss(sends []memtr.SendRec) int {
	for k := 1; k < len(sends); k++ {
		p := sends[k-1]
		if p.Err == memtr.ErrLost && p.HasDeadline && sends[k].HasDeadline && !sends[k].CtxDone && !sends[k].Deadline.After(p.Deadline) {
			return k
		}
	}
	return 0
}

// c10NoDeadline makes calls with contexts that can only be cancelled: the
// transport must nevertheless be handed a deadline for every attempt (the
// per-request timeout), or a lost reply would block the call for ever instead
// of being retried (session-less) or ending the command (in a session).
// c10Policies: the connection's retry policy is consulted per command. (a) A policy with an elapsed-time
// budget (cenkalti's ExponentialBackOff: "give up after MaxElapsedTime") measures a command's own
// retrying, not the idle time since the connection last succeeded. (b) A policy with a retry count
// gives every command its own count, also the command after one that used its count up.
func c10Policies(run *ev.Run, seed int64) {
	for mi, mode := range []string{"sl", "in"} {
		for variant := 0; variant < 2; variant++ {
			run.Eval(1)
			cs := ev.MkCase("batch", c10Batch{Mode: "policies", Seed: seed})
			r := rng(seed+int64(mi*2+variant), "c10policies")
			se := NewScriptEnv(defaultCfg(r), memtr.Window)
			var policy backoff.BackOff
			if variant == 0 {
				eb := backoff.NewExponentialBackOff()
				eb.InitialInterval, eb.MaxInterval, eb.MaxElapsedTime = time.Millisecond, 2*time.Millisecond, 150*time.Millisecond
				policy = eb
			} else {
				policy = backoff.WithMaxRetries(&backoff.ZeroBackOff{}, 3)
			}
			se.ST = bmc.VerifNewV2SessionlessTransport(se.T, 10*time.Second, policy)
			var conn bmc.Connection = se.ST
			kind := "sl-guid"
			if mode == "in" {
				ctx, cancel := se.LimitCtx(20)
				s, err := se.OpenSession(ctx, stdSuites()[int(seed+int64(variant))%9])
				cancel()
				if err != nil {
					run.Violation("C10:handshake-failed", err.Error(), cs, nil)
					continue
				}
				conn, kind = s, "devid"
			}
			call := func(script []string, max int) CallResult {
				cmd, okBody, minBody, _, _ := c10Cmd(kind)
				return se.Run(script, okBody, minBody, 0, max, func(ctx context.Context) (ipmi.CompletionCode, error) { return conn.SendCommand(ctx, cmd) })
			}
			desc := fmt.Sprintf("mode %s, retry policy %T", mode, policy)
			if res := call(nil, 4); res.Err != nil || res.Panic != nil {
				run.Violation("C10:policy-baseline", fmt.Sprintf("%s: a command answered at once failed: %v %v", desc, res.Err, res.Panic), cs, nil)
				continue
			}
			if variant == 0 {
				time.Sleep(300 * time.Millisecond) // the connection idles for longer than the policy's budget
				res := call([]string{"busy"}, 6)
				run.Nontrivial("policy-idle|" + mode)
				if res.Err != nil || len(res.Sends) != 2 {
					run.Violation("C10:retry-budget-spans-idle-time", fmt.Sprintf("%s (gives up 150 ms after a command starts retrying): after 300 ms without traffic a command answered node busy once was transmitted %d time(s) and returned err=%v; expected the retransmission and the answer", desc, len(res.Sends), res.Err), cs, nil)
				}
				continue
			}
			gaveUp := call([]string{"busy", "tmo", "busy", "busy", "busy", "busy", "busy"}, 12)
			res := call([]string{"busy"}, 6)
			run.Nontrivial("policy-count|" + mode)
			if gaveUp.Err == nil {
				run.Observe("bounded-policy-did-not-give-up", 1)
			}
			if res.Err != nil || len(res.Sends) != 2 {
				run.Violation("C10:retry-count-carried-over", fmt.Sprintf("%s (three retries per command): after a command that used its retries up (%d transmissions, err=%v) the next command, answered node busy once, was transmitted %d time(s) and returned err=%v; expected the retransmission and the answer", desc, len(gaveUp.Sends), gaveUp.Err, len(res.Sends), res.Err), cs, nil)
			}
		}
	}
}

func c10NoDeadline(run *ev.Run, seed int64) {
	for mi, mode := range []string{"sl", "in", "hs"} {
		for _, script := range [][]string{nil, {"busy"}, {"garbage:noise", "tmo"}, {"lost"}} {
			run.Eval(1)
			cs := ev.MkCase("batch", c10Batch{Mode: "nodeadline", Seed: seed})
			r := rng(seed+int64(mi), "c10nodeadline")
			se := NewScriptEnv(defaultCfg(r), memtr.Window)
			var conn bmc.Connection = se.ST
			ctx, cancel := context.WithCancel(context.Background())
			stop := time.AfterFunc(20*time.Second, cancel) // watchdog only
			first := se.T.Len()
			desc := fmt.Sprintf("mode %s script %v, caller context without a deadline", mode, script)
			if mode == "hs" {
				_, err := se.OpenSession(ctx, stdSuites()[int(seed+int64(len(script)))%9])
				if err != nil {
					run.Violation("C10:handshake-not-completed", desc+": "+err.Error(), cs, nil)
				}
			} else {
				if mode == "in" {
					s, err := se.OpenSession(ctx, stdSuites()[int(seed)%9])
					if err != nil {
						run.Violation("C10:handshake-failed", err.Error(), cs, nil)
						stop.Stop()
						cancel()
						continue
					}
					conn = s
					first = se.T.Len()
				}
				cmd, okBody, _, _, _ := c10Cmd([]string{"sl-guid", "devid"}[mi%2])
				st := &scriptState{script: script, okBody: okBody, minBody: 0}
				se.st = st
				safe(func() { conn.SendCommand(ctx, cmd) })
				se.st = nil
			}
			stop.Stop()
			cancel()
			recs := se.T.Since(first)
			run.Event("attempt-contexts-observed", len(recs))
			run.Nontrivial(desc)
			for i, s := range recs {
				if !s.HasDeadline {
					run.Violation("C10:attempt-without-deadline:"+mode, fmt.Sprintf("%s: transmission %d was handed a context without a deadline: a lost reply would block it for ever", desc, i+1), cs, nil)
					break
				}
			}
		}
	}
}
