package checks

import (
	"errors"
	"fmt"
	"math"
	"math/big"
	"time"

	"verifharness/ev"
	"verifharness/memtr"
	"verifharness/refbmc"
	"verifharness/refcodec"

	"github.com/gebn/bmc"
	"github.com/gebn/bmc/pkg/ipmi"
	"github.com/google/gopacket"
)

type c15P struct {
	Raw    int
	Format int
	Lin    int
	Flags  int // bits 7..5 of the second response byte
	M, B   int
	K1, K2 int // B exponent, result exponent
	Number int
	LUN    int
	// Prev, when set, is the reading performed on the same reader beforehand.
	Prev *c15P `json:",omitempty"`
}

type c15Batch struct {
	What     string
	From, To int
	Seed     int64
}

func init() {
	register(&Check{
		ID:    "C15",
		Level: "exploration",
		Rule: "the raw byte is served by the simulated BMC's sensor device through a real session and SensorReader.Read is compared with L((M*x + B*10^K1)*10^K2) evaluated exactly with math/big rationals (then one rounding) and an independently formulated L; " +
			"exhaustive: 256 raw bytes x 3 analog formats x 12 functions x 8 flag combinations for three factor sets; boundary-complete: M and B over all 1024 values and K1 x K2 over all 256 pairs against raw bytes {0,1,0x7f,0x80,0xfe,0xff} in all formats; then PRNG cases; " +
			"constructor refusal for linearisation >= 12 and analog format 3; the BMC log must show Get Sensor Reading for the record's number and owner LUN. non-trivial = a value or the expected error was produced and compared; distinct = distinct (format, function, flags, raw class, factor class)",
		Assumptions: []string{
			"tolerance: 1e-9 relative to the magnitude of the terms of the linear part, widened by the variation of L over that interval; points where L is singular within the interval are compared by class (finite/NaN/+-Inf) only and counted as ill-conditioned",
			"both flags set: either error is accepted",
		},
		Gen: func(tier string, seed int64) []ev.Case {
			var cs []ev.Case
			for f := 0; f < 256*3*12; f += 512 {
				cs = append(cs, ev.MkCase("batch", c15Batch{What: "exhaustive", From: f, To: f + 512, Seed: seed}))
			}
			for f := 0; f < 1024; f += 64 {
				cs = append(cs, ev.MkCase("batch", c15Batch{What: "sweepM", From: f, To: f + 64, Seed: seed}))
				cs = append(cs, ev.MkCase("batch", c15Batch{What: "sweepB", From: f, To: f + 64, Seed: seed}))
			}
			for f := 0; f < 256; f += 16 {
				cs = append(cs, ev.MkCase("batch", c15Batch{What: "sweepK", From: f, To: f + 16, Seed: seed}))
			}
			cs = append(cs, ev.MkCase("batch", c15Batch{What: "ctor", Seed: seed}))
			n := 200000
			if tier == "thorough" {
				n = 5000000
			}
			for f := 0; f < n; f += 10000 {
				cs = append(cs, ev.MkCase("batch", c15Batch{What: "random", From: f, To: f + 10000, Seed: seed + int64(f)}))
			}
			return cs
		},
		Exec:    c15Exec,
		Anchors: []string{"ConvertReading", "NewSensorReader", "linearSensorReader).Read", "linearisedSensorReader).Read", "parseAnalogDataFormatOnesComplement", "Lineariser"},
	})
}

type c15Env struct {
	e    *Env
	sess *bmc.V2Session
	sd   *refbmc.SensorDevice
}

func c15Open(seed int64) (*c15Env, error) {
	r := rng(seed, "c15env")
	cfg := defaultCfg(r)
	e := NewEnv(cfg, memtr.Window)
	e.BMC.KeepLog = false
	sd := &refbmc.SensorDevice{}
	e.BMC.Handler = sd.Handle
	ctx, cancel := bg(10 * time.Second)
	defer cancel()
	s, err := e.OpenSession(ctx, stdSuites()[int(seed%9+9)%9])
	if err != nil {
		return nil, err
	}
	return &c15Env{e: e, sess: s, sd: sd}, nil
}

func c15Exec(run *ev.Run, c ev.Case) {
	if c.Kind == "one" {
		var p c15P
		c.Decode(&p)
		env, err := c15Open(1)
		if err != nil {
			run.Violation("C15:handshake-failed", err.Error(), c, nil)
			return
		}
		if p.Prev != nil {
			rd := c15Read(run, env, *p.Prev, nil)
			if rd != nil {
				c15Read(run, env, p, rd)
			}
			return
		}
		c15One(run, env, p)
		return
	}
	var b c15Batch
	c.Decode(&b)
	env, err := c15Open(b.Seed + int64(b.From))
	if err != nil {
		run.Violation("C15:handshake-failed", err.Error(), c, nil)
		return
	}
	bounds := []int{0, 1, 0x7f, 0x80, 0xfe, 0xff}
	switch b.What {
	case "exhaustive":
		sets := [][4]int{{2, -5, 1, -2}, {-37, 200, -3, 1}, {511, -512, 0, 0}}
		for i := b.From; i < b.To && i < 256*3*12; i++ {
			raw, f, l := i%256, (i/256)%3, i/768
			for fl := 0; fl < 8; fl++ {
				fs := sets[(i+fl)%3]
				c15One(run, env, c15P{Raw: raw, Format: f, Lin: l, Flags: fl << 5, M: fs[0], B: fs[1], K1: fs[2], K2: fs[3], Number: raw ^ 0x5a, LUN: fl % 4})
			}
		}
	case "sweepM", "sweepB":
		for v := b.From - 512; v < b.To-512; v++ {
			for _, raw := range bounds {
				for f := 0; f < 3; f++ {
					p := c15P{Raw: raw, Format: f, Lin: (v + 512) % 12, Flags: 0x40, M: 3, B: 7, K1: (v+512)%16 - 8, K2: (v+512)/16%16 - 8, Number: 9}
					if b.What == "sweepM" {
						p.M = v
					} else {
						p.B = v
					}
					c15One(run, env, p)
				}
			}
		}
	case "sweepK":
		for i := b.From; i < b.To; i++ {
			k1, k2 := i%16-8, i/16-8
			for _, raw := range bounds {
				for f := 0; f < 3; f++ {
					for _, l := range []int{0, 1, 7, 10, 11} {
						c15One(run, env, c15P{Raw: raw, Format: f, Lin: l, Flags: 0xc0, M: -19, B: 311, K1: k1, K2: k2, Number: 200})
					}
				}
			}
		}
	case "ctor":
		for l := 0; l < 128; l++ {
			for f := 0; f < 4; f++ {
				c15One(run, env, c15P{Raw: 10, Format: f, Lin: l, Flags: 0x40, M: 1, Number: 3}) // record given as a value
				c15One(run, env, c15P{Raw: 11, Format: f, Lin: l, Flags: 0x40, M: 1, Number: 3}) // record decoded from its wire form
			}
		}
	case "random":
		r := rng(b.Seed, "c15random")
		for i := b.From; i < b.To; i++ {
			p := c15P{Raw: r.Intn(256), Format: r.Intn(3), Lin: r.Intn(12), Flags: 0x40 | r.Intn(2)<<7, M: r.Intn(1024) - 512, B: r.Intn(1024) - 512, K1: r.Intn(16) - 8, K2: r.Intn(16) - 8, Number: r.Intn(256), LUN: r.Intn(4)}
			if r.Intn(20) == 0 {
				p.Flags = r.Intn(8) << 5
			}
			c15One(run, env, p)
		}
	}
}

func pow10Rat(k int) *big.Rat {
	p := new(big.Int).Exp(big.NewInt(10), big.NewInt(int64(abs(k))), nil)
	if k >= 0 {
		return new(big.Rat).SetInt(p)
	}
	return new(big.Rat).SetFrac(big.NewInt(1), p)
}

func abs(x int) int {
	if x < 0 {
		return -x
	}
	return x
}

func refL(l int, y float64) float64 {
	switch l {
	case 0:
		return y
	case 1:
		return math.Log2(y) * math.Ln2
	case 2:
		return math.Log(y) / math.Ln10
	case 3:
		return math.Log(y) / math.Ln2
	case 4:
		return math.Exp2(y / math.Ln2)
	case 5:
		return math.Exp(y * math.Ln10)
	case 6:
		return math.Exp(y * math.Ln2)
	case 7:
		return 1 / y
	case 8:
		return y * y
	case 9:
		return y * y * y
	case 10:
		if y < 0 {
			return math.NaN()
		}
		return math.Pow(y, 0.5)
	case 11:
		return math.Cbrt(y)
	}
	return math.NaN()
}

func classOf(f float64) string {
	switch {
	case math.IsNaN(f):
		return "nan"
	case math.IsInf(f, 1):
		return "+inf"
	case math.IsInf(f, -1):
		return "-inf"
	}
	return "finite"
}

// c15One checks one reading; the reader is then used a second time with a
// different response (reader values are long-lived in real use), checked the same way.
func c15One(run *ev.Run, env *c15Env, p c15P) {
	rd := c15Read(run, env, p, nil)
	if rd == nil {
		return
	}
	if (p.Raw+p.K2+p.B)%3 == 0 {
		// in between, a read that fails without a usable body (the BMC refuses, or answers with
		// too few bytes): that failure is what the caller must see, whatever the last reading's flags were
		code := []byte{0xcb, 0xff, 0xc9, 0x00}[(p.Raw+p.M)&3]
		env.sd.FailNext(code)
		ctx, cancel := bg(10 * time.Second)
		_, ferr := rd.Read(ctx, env.sess)
		cancel()
		run.Event("failed-reads-in-between", 1)
		if ferr == nil || errors.Is(ferr, bmc.ErrSensorReadingUnavailable) || errors.Is(ferr, bmc.ErrSensorScanningDisabled) {
			run.Violation("C15:flags", fmt.Sprintf("a Get Sensor Reading answered with completion code %#x and no reading (after a reading with flags %#x on the same reader) returned err=%v: the BMC set neither flag in this response", code, p.Flags, ferr), ev.MkCase("one", p), nil)
			return
		}
	}
	if ((p.Raw+p.K1+p.M)%3+3)%3 == 1 {
		// a read the BMC FAILS (non-temporary completion code) while leaving well-formed reading bytes
		// behind the code: it is a failure, not a reading and not a flag
		code := []byte{0xcb, 0xd3, 0xd5, 0xff, 0xc1, 0xcc}[((p.Raw+p.B)%6+6)%6]
		env.sd.FailNextWithBody(code, []byte{byte(p.Raw ^ 0x5a), []byte{0x40, 0x00, 0x60, 0x20}[(p.Raw+p.K2)&3], 0x00})
		ctx, cancel := bg(10 * time.Second)
		v, ferr := rd.Read(ctx, env.sess)
		cancel()
		run.Event("failed-reads-with-body-in-between", 1)
		if ferr == nil || errors.Is(ferr, bmc.ErrSensorReadingUnavailable) || errors.Is(ferr, bmc.ErrSensorScanningDisabled) {
			run.Violation("C15:failed-read-converted", fmt.Sprintf("a Get Sensor Reading the BMC failed with completion code %#x (reading bytes left behind the code) returned value %v err=%v", code, v, ferr), ev.MkCase("one", p), nil)
			return
		}
	}
	q := p
	q.Raw = (p.Raw*7 + 13) & 0xff
	switch (p.Raw + p.M) % 4 {
	case 0:
		q.Flags = 0x40 // available again after whatever came first
	case 1:
		q.Flags = p.Flags ^ 0x20
	case 2:
		q.Flags = p.Flags ^ 0x40
	}
	pc := p
	pc.Prev = nil
	q.Prev = &pc
	c15Read(run, env, q, rd)
}

func c15Read(run *ev.Run, env *c15Env, p c15P, reuse bmc.SensorReader) bmc.SensorReader {
	run.Eval(1)
	cs := ev.MkCase("one", p)
	rec := &ipmi.FullSensorRecord{}
	rec.Number = uint8(p.Number)
	rec.OwnerLUN = ipmi.LUN(p.LUN)
	rec.AnalogDataFormat = ipmi.AnalogDataFormat(p.Format)
	rec.Linearisation = ipmi.Linearisation(p.Lin)
	rec.M, rec.B, rec.BExp, rec.RExp = int16(p.M), int16(p.B), int8(p.K1), int8(p.K2)
	// the record's descriptive fields (advertised range, nominal and normal readings,
	// tolerance, accuracy) take arbitrary values: none of them enters the conversion
	h := uint32(p.Raw*131 + p.M*31 + p.B*17 + p.K1*7 + p.K2*3 + p.Lin*1009 + p.Format*77 + p.Flags)
	h ^= h >> 7
	rec.SensorMax, rec.SensorMin = uint8(h), uint8(h>>8)
	rec.OwnerAddress, rec.Channel = ipmi.Address(h>>6), ipmi.Channel(h>>10&0xf)
	rec.OutputType, rec.SensorType = ipmi.OutputType(h>>2), ipmi.SensorType(h>>12)
	rec.Entity, rec.Instance = ipmi.EntityID(h>>1), ipmi.EntityInstance(h>>14&0x7f)
	rec.BaseUnit, rec.ModifierUnit, rec.RateUnit, rec.IsPercentage = ipmi.SensorUnit(h>>3), ipmi.SensorUnit(h>>15), ipmi.RateUnit(h>>5&7), h&8 != 0
	rec.NominalReading, rec.NormalMax, rec.NormalMin = uint8(h>>5), uint8(h>>11), uint8(h>>3)
	rec.NominalReadingSpecified, rec.NormalMaxSpecified, rec.NormalMinSpecified = h&1 != 0, h&2 != 0, h&4 != 0
	rec.Tolerance, rec.Accuracy, rec.AccuracyExp = uint8(h>>9)&0x3f, int16(h>>4)%512, uint8(h>>13)&3
	desc := fmt.Sprintf("raw %#x format %d L %d flags %#x M %d B %d K1 %d K2 %d", p.Raw, p.Format, p.Lin, p.Flags, p.M, p.B, p.K1, p.K2)
	if (p.Raw+p.M+p.K1)&1 == 0 {
		// the record arrives the way it does in use: decoded from its wire form
		tl, idb := refcodec.IDString(3, []rune("sensor"))
		wire := refcodec.FullSensorRecord(rec, tl, idb, make([]byte, 43))
		dec := &ipmi.FullSensorRecord{}
		if derr := dec.DecodeFromBytes(wire, gopacket.NilDecodeFeedback); derr != nil {
			run.Violation("C15:record-decode", fmt.Sprintf("%s: the record's wire form %x does not decode: %v", desc, wire, derr), cs, nil)
			return nil
		}
		rec = dec
		desc += " (record decoded from wire form)"
		run.Event("records-decoded-from-wire", 1)
	}
	rd, err := bmc.NewSensorReader(rec)
	wantCtorErr := p.Lin >= 12 || p.Format == 3
	if (err != nil) != wantCtorErr {
		run.Violation("C15:constructor", fmt.Sprintf("%s: NewSensorReader err=%v, expected refusal: %v", desc, err, wantCtorErr), cs, nil)
		return nil
	}
	if wantCtorErr {
		run.Nontrivial(fmt.Sprintf("ctor|%d|%d", p.Format, p.Lin))
		return nil
	}
	if reuse != nil {
		rd = reuse
		desc += " (second read on a used reader)"
	} else if (p.Raw+p.B)&1 == 0 {
		// the caller goes on to use its record value for the next sensor; the
		// reader was built for the record as it was
		*rec = ipmi.FullSensorRecord{}
		rec.Number, rec.OwnerLUN = uint8(p.Number+1), ipmi.LUN((p.LUN+1)%4)
		rec.AnalogDataFormat, rec.Linearisation = ipmi.AnalogDataFormat((p.Format+1)%3), ipmi.Linearisation((p.Lin+5)%12)
		rec.M, rec.B, rec.BExp, rec.RExp = int16(p.M/2+3), int16(-p.B+1), int8(-p.K1/2), int8((p.K2+9)%16-8)
		desc += " (record value overwritten after the reader was built)"
		run.Event("records-overwritten-after-construction", 1)
	}
	env.sd.Set(byte(p.LUN), byte(p.Number), []byte{byte(p.Raw), byte(p.Flags), 0x00})
	run.Event("sensor-reads-served", 1)
	nreq := len(env.sd.Requests)
	ctx, cancel := bg(10 * time.Second)
	var got float64
	pv, st := safe(func() { got, err = rd.Read(ctx, env.sess) })
	cancel()
	if pv != nil {
		run.Violation("C15:panic:"+panicSite(st), fmt.Sprintf("%s: %v\n%s", desc, pv, trimStack(st)), cs, nil)
		return rd
	}
	if len(env.sd.Requests) != nreq+1 || env.sd.Requests[nreq] != [2]byte{byte(p.LUN), byte(p.Number)} {
		run.Violation("C15:wrong-sensor-requested", fmt.Sprintf("%s: sensor device saw requests %v for sensor number %d LUN %d", desc, env.sd.Requests[nreq:], p.Number, p.LUN), cs, nil)
		return rd
	}
	if len(env.sd.Requests) > 4096 {
		env.sd.Requests = env.sd.Requests[:0]
	}
	unavailable, scanning := p.Flags&0x20 != 0, p.Flags&0x40 != 0
	rawClass := "mid"
	switch p.Raw {
	case 0, 1, 0x7f, 0x80, 0xfe, 0xff:
		rawClass = fmt.Sprintf("%#x", p.Raw)
	}
	run.Nontrivial(fmt.Sprintf("%d|%d|%#x|%s|%v%v", p.Format, p.Lin, p.Flags, rawClass, p.M < 0, p.B < 0))
	switch {
	case unavailable || !scanning:
		okErr := (unavailable && errors.Is(err, bmc.ErrSensorReadingUnavailable)) || (!scanning && errors.Is(err, bmc.ErrSensorScanningDisabled))
		if !okErr {
			run.Violation("C15:flags", fmt.Sprintf("%s: unavailable=%v scanning=%v but Read returned value %v err %v", desc, unavailable, scanning, got, err), cs, nil)
		}
		return rd
	case err != nil:
		run.Violation("C15:unexpected-error", fmt.Sprintf("%s: %v", desc, err), cs, nil)
		return rd
	}
	// exact evaluation of the linear part
	var x int
	switch p.Format {
	case 0:
		x = p.Raw
	case 1:
		x = p.Raw
		if x&0x80 != 0 {
			x = -(^x & 0xff)
		}
	case 2:
		x = twos(p.Raw, 8)
	}
	mx := new(big.Rat).SetInt64(int64(p.M) * int64(x))
	bk := new(big.Rat).Mul(new(big.Rat).SetInt64(int64(p.B)), pow10Rat(p.K1))
	lin := new(big.Rat).Mul(new(big.Rat).Add(mx, bk), pow10Rat(p.K2))
	y, _ := lin.Float64()
	amx, _ := new(big.Rat).Abs(mx).Float64()
	abk, _ := new(big.Rat).Abs(bk).Float64()
	k2f, _ := pow10Rat(p.K2).Float64()
	delta := (amx + abk) * k2f * 1e-12
	want := refL(p.Lin, y)
	lo, hi := refL(p.Lin, y-delta), refL(p.Lin, y+delta)
	classes := map[string]bool{classOf(want): true, classOf(lo): true, classOf(hi): true}
	// a second formulation guards the oracle itself near overflow/underflow
	alt := want
	switch p.Lin {
	case 4:
		alt = math.Exp(y)
	case 5:
		alt = math.Pow(10, y)
	case 6:
		alt = math.Exp2(y)
	case 1:
		alt = math.Log(y)
	case 2:
		alt = math.Log10(y)
	case 3:
		alt = math.Log2(y)
	}
	classes[classOf(alt)] = true
	if len(classes) > 1 || classOf(want) != "finite" {
		if len(classes) > 1 {
			run.Observe("ill-conditioned-points", 1)
		}
		if !classes[classOf(got)] {
			key := fmt.Sprintf("C15:class:L%d", p.Lin)
			run.Violation(key, fmt.Sprintf("%s: Read returned %v (%s); exact evaluation gives x=%d linear=%v L=%v (%s)", desc, got, classOf(got), x, y, want, classOf(want)), cs, nil)
		}
		return rd
	}
	tol := 1e-9*math.Abs(want) + 4*math.Abs(hi-lo) + 2*math.Abs(alt-want) + 1e-300
	if p.Lin == 0 {
		tol = 1e-9*(amx+abk)*k2f + 1e-300
	}
	if classOf(got) != "finite" || math.Abs(got-want) > tol {
		key := fmt.Sprintf("C15:value:L%d", p.Lin)
		if p.Lin == 11 && y < 0 && math.IsNaN(got) {
			key = "C15:cube-root-of-negative-is-nan"
		}
		run.Violation(key, fmt.Sprintf("%s: Read returned %v; exact evaluation gives x=%d linear=%v L=%v (tolerance %g)", desc, got, x, y, want, tol), cs, nil)
		return rd
	}
	if p.Raw == 0x80 && p.Flags == 0x40 && p.M%97 == 0 {
		run.Sample(fmt.Sprintf("L%d", p.Lin), map[string]any{"params": p, "x": x, "linear_exact": lin.FloatString(12), "expected": want, "got": got})
	}
	return rd
}
