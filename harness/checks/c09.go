package checks

import (
	"context"
	"fmt"
	"github.com/cenkalti/backoff/v4"
	"strings"
	"time"

	"verifharness/ev"
	"verifharness/memtr"
	"verifharness/refbmc"

	"github.com/gebn/bmc"
	"github.com/gebn/bmc/pkg/ipmi"
)

type c09Cmd struct {
	Kind   string // devid | authcaps | chassis | raw | serfail | sl-authcaps | sl-guid
	Script []string
	// GiveUp: the caller's context ends while the last scripted (retryable)
	// outcome is handled, so the call returns an error without a final answer
	GiveUp bool
	// Expired: the caller's context is already finished when the call is made
	Expired bool
}

type c09Hist struct {
	Suite int
	Cmds  []c09Cmd
	// RealLoss: a lost reply takes the (150 ms) per-attempt timeout, as on a socket
	RealLoss bool `json:",omitempty"`
}

type c09Batch struct {
	H, D     int
	From, To int
	Seed     int64
	Random   int
}

var c09Retry = []string{"busy", "tmo", "garbage:noise", "garbage:authmsg", "badsig", "stray:othercmd", "unauth", "othersid"}

// c09Scripts lists every per-command outcome sequence: up to d retry outcomes,
// optionally ending in a lost reply (terminal inside a session); a final valid
// reply follows implicitly.
func c09Scripts(d int) [][]string {
	out := [][]string{{}}
	level := [][]string{{}}
	for l := 1; l <= d; l++ {
		var next [][]string
		for _, p := range level {
			for _, a := range c09Retry {
				next = append(next, append(append([]string(nil), p...), a))
			}
		}
		for _, p := range level {
			out = append(out, append(append([]string(nil), p...), "lost"))
		}
		out = append(out, next...)
		level = next
	}
	return out
}

func init() {
	register(&Check{
		ID:    "C09",
		Level: "fault_enumeration",
		Rule: "histories of 1..3 in-session commands, each with every per-attempt outcome sequence over {node busy, timeout code, undecodable noise, authentic-but-malformed message, bad signature}* optionally ending in a lost reply, " +
			"followed by a valid reply (quick: 1 command to depth 4, 2 commands to depth 2, 3 commands to depth 1; thorough: depths 5/3/2), exhaustively, plus long random histories that mix in " +
			"session-less commands and commands that fail to serialise; the monitor reads the session ID and sequence number of every datagram at the transport boundary, in transmission order; " +
			"non-trivial = at least one retransmission or failure occurred in the history; distinct = distinct outcome-sequence tuples",
		Assumptions: []string{"datagrams are observed by the in-memory transport before the simulated BMC decides whether to accept them"},
		Exhaustive:  func(string) bool { return true },
		Gen:         c09Gen,
		Exec:        c09Exec,
		Anchors:     []string{"V2Session).buildAndSend", "buildAndSendCommand", "buildAndSendPayload"},
	})
}

func c09Gen(tier string, seed int64) []ev.Case {
	var cs []ev.Case
	plan := [][2]int{{1, 3}, {2, 2}, {3, 1}}
	nRandom := 40
	if tier == "thorough" {
		plan = [][2]int{{1, 5}, {2, 3}, {3, 2}}
		nRandom = 600
	}
	for _, hd := range plan {
		s := len(c09Scripts(hd[1]))
		total := 1
		for i := 0; i < hd[0]; i++ {
			total *= s
		}
		chunk := 400
		for from := 0; from < total; from += chunk {
			cs = append(cs, ev.MkCase("batch", c09Batch{H: hd[0], D: hd[1], From: from, To: from + chunk, Seed: seed}))
		}
	}
	for i := 0; i < nRandom; i++ {
		cs = append(cs, ev.MkCase("batch", c09Batch{Random: 150, Seed: seed*7 + int64(i)}))
	}
	gd := 3
	if tier == "thorough" {
		gd = 5
	}
	cs = append(cs, ev.MkCase("batch", c09Batch{H: -1, D: gd, Seed: seed}))
	cs = append(cs, ev.MkCase("batch", c09Batch{H: -2, D: gd, Seed: seed}))
	cs = append(cs, ev.MkCase("batch", c09Batch{H: -3, D: gd, Seed: seed}))
	cs = append(cs, ev.MkCase("udpack", c09Batch{Seed: seed}))
	return cs
}

func c09Exec(run *ev.Run, c ev.Case) {
	switch c.Kind {
	case "udpack":
		var b c09Batch
		c.Decode(&b)
		c09UDPAck(run, b.Seed, c)
	case "hist":
		var h c09Hist
		c.Decode(&h)
		c09History(run, h)
	case "batch":
		var b c09Batch
		c.Decode(&b)
		if b.Random > 0 {
			r := rng(b.Seed, "c09random")
			h := c09Hist{Suite: r.Intn(9)}
			kinds := []string{"devid", "authcaps", "chassis", "raw", "serfail", "sl-authcaps", "sl-guid", "sl-authcaps", "sl-newsession", "badlun", "badlun7", "huge480", "huge600", "huge1400", "close-lost", "close-refused", "flaky1", "flaky2"}
			for i := 0; i < b.Random; i++ {
				k := kinds[r.Intn(len(kinds))]
				var sc []string
				for n := r.Intn(4); n > 0; n-- {
					if strings.HasPrefix(k, "sl-") {
						sc = append(sc, []string{"busy", "tmo", "garbage:chk", "garbage:noise", "lost", "strayhdr", "strayhdr", "stray:othercmd"}[r.Intn(8)])
					} else {
						sc = append(sc, c09Retry[r.Intn(len(c09Retry))])
					}
				}
				if !strings.HasPrefix(k, "sl-") && r.Intn(12) == 0 {
					sc = append(sc, "lost")
				}
				giveUp := len(sc) > 0 && (sc[len(sc)-1] != "lost" || strings.HasPrefix(k, "sl-")) && r.Intn(4) == 0
				if k == "sl-newsession" {
					sc, giveUp = nil, false
				}
				expired := k != "sl-newsession" && r.Intn(10) == 0
				if expired {
					sc, giveUp = nil, false
				}
				switch k {
				case "close-lost":
					sc, giveUp = []string{"lost"}, false
				case "close-refused":
					sc, giveUp = []string{"cc:87"}, false
				}
				if strings.HasPrefix(k, "close") && expired {
					k, sc = "close", nil
				}
				h.Cmds = append(h.Cmds, c09Cmd{Kind: k, Script: sc, GiveUp: giveUp, Expired: expired})
			}
			c09History(run, h)
			return
		}
		if b.H == -3 {
			// calls made with a context that is already finished, between ordinary commands
			kinds := []string{"devid", "authcaps", "chassis", "raw", "sl-guid", "sl-authcaps"}
			idx := 0
			// replies that stay missing for a whole per-attempt timeout
			for i, sc := range [][]string{{"lost"}, {"busy", "lost"}, {"garbage:noise", "lost"}} {
				c09History(run, c09Hist{Suite: i, RealLoss: true, Cmds: []c09Cmd{{Kind: "devid"}, {Kind: kinds[i%4], Script: sc}, {Kind: "devid"}, {Kind: "raw", Script: []string{"busy"}}, {Kind: "sl-guid", Script: []string{"lost"}}, {Kind: "chassis"}}})
			}
			// one command retransmitted several hundred times (a BMC that stays busy, a zero back-off)
			for _, n := range []int{254, 255, 256, 257, 300, 520} {
				long := make([]string, n)
				for i := range long {
					long[i] = []string{"busy", "tmo", "garbage:noise", "badsig"}[(i+n)%4]
				}
				c09History(run, c09Hist{Suite: n, Cmds: []c09Cmd{{Kind: "devid"}, {Kind: "chassis", Script: long}, {Kind: "devid"}, {Kind: "raw", Script: []string{"busy"}}}})
			}
			// a Close that succeeds, after which the caller (wrongly, but possibly) keeps using the
			// session value: whatever is sent is still sent as this session, with the next numbers
			for n := 0; n <= 2; n++ {
				var cmds []c09Cmd
				for i := 0; i <= n; i++ {
					cmds = append(cmds, c09Cmd{Kind: kinds[i%4]})
				}
				cmds = append(cmds, c09Cmd{Kind: "close-ok"}, c09Cmd{Kind: "close-ok"}, c09Cmd{Kind: "devid"}, c09Cmd{Kind: "chassis", Script: []string{"busy"}})
				c09History(run, c09Hist{Suite: n + 3, Cmds: cmds})
			}
			for _, cl := range []c09Cmd{{Kind: "close-lost", Script: []string{"lost"}}, {Kind: "close-refused", Script: []string{"cc:87"}}, {Kind: "close", Expired: true}, {Kind: "close-lost", Script: []string{"busy", "lost"}}} {
				for n := 0; n <= 2; n++ {
					var cmds []c09Cmd
					for i := 0; i < n; i++ {
						cmds = append(cmds, c09Cmd{Kind: kinds[(i+len(cl.Kind))%4]})
					}
					// the failed Close is retried, and the session is used in between
					cmds = append(cmds, cl, c09Cmd{Kind: "devid"}, cl, cl, c09Cmd{Kind: "raw", Script: []string{"busy"}}, c09Cmd{Kind: "close-refused", Script: []string{"cc:87"}})
					c09History(run, c09Hist{Suite: n + len(cl.Kind), Cmds: cmds})
				}
			}
			for _, fl := range []c09Cmd{{Kind: "flaky1", Script: []string{"busy"}}, {Kind: "flaky1", Script: []string{"garbage:noise", "busy"}}, {Kind: "flaky2", Script: []string{"busy", "tmo"}}, {Kind: "flaky2", Script: []string{"badsig", "busy", "busy"}}} {
				for n := 0; n <= 2; n++ {
					var cmds []c09Cmd
					for i := 0; i < n; i++ {
						cmds = append(cmds, c09Cmd{Kind: kinds[(i+len(fl.Script))%4]})
					}
					cmds = append(cmds, fl, c09Cmd{Kind: "devid"}, fl, c09Cmd{Kind: "raw", Script: []string{"busy"}})
					c09History(run, c09Hist{Suite: n + len(fl.Script), Cmds: cmds})
				}
			}
			for i := 0; i < 12; i++ {
				c09TwoSessions(run, b.Seed*131+int64(i), c)
			}
			for _, bl := range []string{"badlun", "badlun7", "serfail", "huge480", "huge600", "huge1400"} {
				for n := 0; n <= 2; n++ {
					var cmds []c09Cmd
					for i := 0; i < n; i++ {
						cmds = append(cmds, c09Cmd{Kind: kinds[(i+len(bl))%4]})
					}
					cmds = append(cmds, c09Cmd{Kind: bl}, c09Cmd{Kind: "devid"}, c09Cmd{Kind: bl}, c09Cmd{Kind: "raw", Script: []string{"busy"}})
					c09History(run, c09Hist{Suite: n + len(bl), Cmds: cmds})
				}
			}
			for _, k1 := range kinds {
				for _, k2 := range kinds[:4] {
					for n := 1; n <= 3; n++ {
						idx++
						cmds := []c09Cmd{{Kind: k2, Script: c09Scripts(1)[idx%len(c09Scripts(1))]}}
						for i := 0; i < n; i++ {
							cmds = append(cmds, c09Cmd{Kind: k1, Expired: true})
						}
						cmds = append(cmds, c09Cmd{Kind: k2}, c09Cmd{Kind: kinds[idx%4], Script: []string{"busy"}})
						c09History(run, c09Hist{Suite: idx % 9, Cmds: cmds})
					}
				}
			}
			return
		}
		if b.H == -2 {
			// session-less commands that end on a stray packet with a non-null session header, then more session-less traffic and a new handshake
			idx := 0
			for _, pre := range [][]string{{}, {"busy"}, {"garbage:noise"}, {"lost"}, {"busy", "tmo"}} {
				for _, stray := range []string{"strayhdr", "stray:othercmd"} {
					for _, after := range [][]c09Cmd{{{Kind: "sl-guid"}}, {{Kind: "sl-newsession"}}, {{Kind: "sl-authcaps", Script: []string{"busy"}}, {Kind: "sl-newsession"}, {Kind: "devid"}}} {
						idx++
						sc := append(append([]string(nil), pre...), stray)
						cmds := []c09Cmd{{Kind: "devid"}, {Kind: []string{"sl-guid", "sl-authcaps"}[idx%2], Script: sc, GiveUp: true}}
						cmds = append(cmds, after...)
						c09History(run, c09Hist{Suite: idx % 9, Cmds: cmds})
					}
				}
			}
			return
		}
		if b.H == -1 {
			// give-up histories: every sequence of 1..D retryable outcomes after which the context ends
			kinds := []string{"devid", "authcaps", "chassis", "raw"}
			idx := 0
			for _, sc := range c09Scripts(b.D) {
				if len(sc) == 0 || sc[len(sc)-1] == "lost" {
					continue
				}
				idx++
				c09History(run, c09Hist{Suite: idx % 9, Cmds: []c09Cmd{{Kind: kinds[idx%4], Script: sc[:len(sc)/2]}, {Kind: kinds[(idx+1)%4], Script: sc, GiveUp: true},
					{Kind: kinds[(idx+2)%4]}, {Kind: kinds[(idx+3)%4], Script: []string{"busy"}}}})
			}
			return
		}
		scripts := c09Scripts(b.D)
		s := len(scripts)
		total := 1
		for i := 0; i < b.H; i++ {
			total *= s
		}
		kinds := []string{"devid", "authcaps", "chassis", "raw"}
		for idx := b.From; idx < b.To && idx < total; idx++ {
			h := c09Hist{Suite: idx % 9}
			x := idx
			for i := 0; i < b.H; i++ {
				h.Cmds = append(h.Cmds, c09Cmd{Kind: kinds[(idx+i)%len(kinds)], Script: scripts[x%s]})
				x /= s
			}
			c09History(run, h)
		}
	}
}

// c09Call returns the library call for a command kind plus its ok body and the
// response layer's minimum body length.
// c09Observe looks at a session the way logging and debugging code does (formatting it, reading its
// keys and counters): observing a session sends nothing and therefore costs no sequence number.
func c09Observe(sess *bmc.V2Session) {
	if sess == nil {
		return
	}
	for i := 0; i < 3; i++ {
		_ = sess.String()
		_ = fmt.Sprintf("%v %+v %s", sess, sess.AuthenticatedSequenceNumbers, sess.Version())
		_ = sess.K(1)
		_ = sess.ID()
	}
}

func c09Call(kind string, sess *bmc.V2Session, st *bmc.V2SessionlessTransport) (call func(ctx context.Context) (ipmi.CompletionCode, error), okBody []byte, minBody int) {
	c09Observe(sess)
	switch kind {
	case "devid":
		cmd := &ipmi.GetDeviceIDCmd{}
		return func(ctx context.Context) (ipmi.CompletionCode, error) { return sess.SendCommand(ctx, cmd) },
			[]byte{0x20, 0x81, 0x03, 0x15, 0x02, 0xbf, 0x57, 0x01, 0x00, 0x34, 0x12, 1, 2, 3, 4}, 11
	case "authcaps":
		cmd := &ipmi.GetChannelAuthenticationCapabilitiesCmd{Req: ipmi.GetChannelAuthenticationCapabilitiesReq{ExtendedData: true, Channel: ipmi.ChannelPresentInterface, MaxPrivilegeLevel: ipmi.PrivilegeLevelAdministrator}}
		return func(ctx context.Context) (ipmi.CompletionCode, error) { return sess.SendCommand(ctx, cmd) }, []byte{1, 0x80, 0x04, 0x02, 0, 0, 0, 0}, 8
	case "chassis":
		cmd := &ipmi.ChassisControlCmd{Req: ipmi.ChassisControlReq{ChassisControl: ipmi.ChassisControlPowerCycle}}
		return func(ctx context.Context) (ipmi.CompletionCode, error) { return sess.SendCommand(ctx, cmd) }, nil, 0
	case "raw":
		cmd := &RawCmd{Op: ipmi.Operation{Function: ipmi.NetworkFunctionAppReq, Command: 0x42}, Req: []byte{9, 8, 7, 6, 5}}
		return func(ctx context.Context) (ipmi.CompletionCode, error) { return sess.SendCommand(ctx, cmd) }, []byte{0xaa, 0xbb}, 0
	case "badlun":
		// a caller-defined command whose LUN does not fit the two wire bits: whatever the
		// library makes of it, the numbering of what it transmits must stay intact
		cmd := &RawCmd{Op: ipmi.Operation{Function: ipmi.NetworkFunctionAppReq, Command: 0x42}, LUN: ipmi.LUN(4 + len(kind)%4), Req: []byte{1, 2, 3}}
		return func(ctx context.Context) (ipmi.CompletionCode, error) { return sess.SendCommand(ctx, cmd) }, []byte{0xaa, 0xbb}, 0
	case "huge480", "huge600", "huge1400":
		// a caller-defined command larger than anything the library itself sends
		n := 480
		fmt.Sscanf(kind, "huge%d", &n)
		body := make([]byte, n)
		for i := range body {
			body[i] = byte(i*7 + n)
		}
		cmd := &RawCmd{Op: ipmi.Operation{Function: ipmi.NetworkFunctionAppReq, Command: 0x43}, Req: body}
		return func(ctx context.Context) (ipmi.CompletionCode, error) { return sess.SendCommand(ctx, cmd) }, []byte{0xaa, 0xbb}, 0
	case "close-lost", "close-refused", "close", "close-ok":
		// Close Session that does not succeed (reply lost / refused by the BMC / made with a
		// finished context): the session lives on and so does its numbering
		return func(ctx context.Context) (ipmi.CompletionCode, error) { return 0, sess.Close(ctx) }, nil, 0
	case "flaky1", "flaky2":
		// a caller-defined request that serialises once (twice) and fails afterwards: the
		// attempt that could not be built must not cost a number, the ones sent did
		cmd := &RawCmd{Op: ipmi.Operation{Function: ipmi.NetworkFunctionAppReq, Command: 0x44}, Req: []byte{4, 3, 2, 1}, FailAfter: int(kind[5] - '0')}
		return func(ctx context.Context) (ipmi.CompletionCode, error) { return sess.SendCommand(ctx, cmd) }, []byte{0xaa, 0xbb}, 0
	case "badlun7":
		cmd := &RawCmd{Op: ipmi.Operation{Function: ipmi.NetworkFunctionAppReq, Command: 0x42}, LUN: 7, NoReq: true}
		return func(ctx context.Context) (ipmi.CompletionCode, error) { return sess.SendCommand(ctx, cmd) }, []byte{0xaa, 0xbb}, 0
	case "serfail":
		cmd := &ipmi.SetSessionPrivilegeLevelCmd{Req: ipmi.SetSessionPrivilegeLevelReq{PrivilegeLevel: ipmi.PrivilegeLevelCallback}}
		return func(ctx context.Context) (ipmi.CompletionCode, error) { return sess.SendCommand(ctx, cmd) }, []byte{2}, 1
	case "sl-authcaps":
		cmd := &ipmi.GetChannelAuthenticationCapabilitiesCmd{Req: ipmi.GetChannelAuthenticationCapabilitiesReq{ExtendedData: true, Channel: ipmi.ChannelPresentInterface, MaxPrivilegeLevel: ipmi.PrivilegeLevelUser}}
		return func(ctx context.Context) (ipmi.CompletionCode, error) { return st.SendCommand(ctx, cmd) }, []byte{1, 0x80, 0x04, 0x02, 0, 0, 0, 0}, 8
	case "sl-guid":
		cmd := &ipmi.GetSystemGUIDCmd{}
		return func(ctx context.Context) (ipmi.CompletionCode, error) { return st.SendCommand(ctx, cmd) }, []byte{1, 2, 3, 4, 5, 6, 7, 8, 9, 10, 11, 12, 13, 14, 15, 16}, 16
	}
	panic("unknown command kind " + kind)
}

func c09History(run *ev.Run, h c09Hist) {
	run.Eval(1)
	cs := ev.MkCase("hist", h)
	r := rng(int64(h.Suite)+int64(len(h.Cmds))*31, "c09hist")
	cfg := defaultCfg(r)
	su := stdSuites()[h.Suite%9]
	se := NewScriptEnv(cfg, memtr.Window)
	if h.RealLoss {
		se.T.BlockOnLoss = true
		se.ST = bmc.VerifNewV2SessionlessTransport(se.T, 300*time.Millisecond, &backoff.ZeroBackOff{})
	}
	ctx, cancel := se.LimitCtx(20)
	sess, err := se.OpenSession(ctx, su)
	cancel()
	if err != nil {
		run.Violation("C09:handshake-failed", fmt.Sprintf("handshake failed: %v", err), cs, nil)
		return
	}
	bmcSID := se.BMC.Sess.BMCSID
	inSession := 0 // in-session datagrams transmitted so far
	nontrivial := false
	sig := ""
	for ci, cmd := range h.Cmds {
		if cmd.Kind == "sl-newsession" {
			// a fresh handshake on the same connection: every datagram is outside a session
			before := se.T.Len()
			ctx, cancel := se.LimitCtx(20)
			ns, err := se.OpenSession(ctx, su)
			cancel()
			for si, s := range se.T.Since(before) {
				hd := parseHdr(s.Bytes)
				run.Event("datagrams-monitored", 1)
				if !hd.OK || hd.SID != 0 || hd.Seq != 0 || hd.Enc || hd.Auth {
					run.Violation("C09:sessionless-nonzero", fmt.Sprintf("command %d (new handshake) transmission %d: session setup datagram carries session ID %#x sequence %d flags enc=%v auth=%v", ci, si+1, hd.SID, hd.Seq, hd.Enc, hd.Auth), cs, nil)
					return
				}
			}
			if err != nil {
				run.Violation("C09:rehandshake-failed", fmt.Sprintf("command %d: new handshake on the used connection failed: %v; %v", ci, err, problems(se.BMC)), cs, nil)
				return
			}
			sess, inSession, nontrivial = ns, 0, true
			bmcSID = se.BMC.Sess.BMCSID
			sig += "ns;"
			continue
		}
		call, okBody, minBody := c09Call(cmd.Kind, sess, se.ST)
		cancelAt := 0
		if cmd.GiveUp && len(cmd.Script) > 0 {
			cancelAt = len(cmd.Script)
		}
		if cmd.Expired {
			inner := call
			call = func(ctx context.Context) (ipmi.CompletionCode, error) {
				c, cancel := context.WithCancel(ctx)
				cancel()
				return inner(c)
			}
		}
		res := se.Run(cmd.Script, okBody, minBody, cancelAt, len(cmd.Script)+4, call)
		if cmd.Expired {
			nontrivial = true
			run.Event("calls-with-finished-context", 1)
		}
		if res.Panic != nil {
			run.Violation("C09:panic:"+panicSite(res.Stack), fmt.Sprintf("command %d (%s, script %v) panicked: %v\n%s", ci, cmd.Kind, cmd.Script, res.Panic, trimStack(res.Stack)), cs, nil)
			return
		}
		sig += cmd.Kind[:2] + strings.Join(cmd.Script, ",") + fmt.Sprint(cmd.GiveUp, cmd.Expired) + ";"
		if len(res.Sends) != 1 {
			nontrivial = true
		}
		sessionless := strings.HasPrefix(cmd.Kind, "sl-")
		for si := 1; si < len(res.Sends); si++ {
			// every attempt is given its own time allowance: an attempt handed the deadline of
			// an earlier one would, once that has passed, consume a number without being sent
			if p, q := res.Sends[si-1], res.Sends[si]; !sessionless && p.HasDeadline && q.HasDeadline && !q.CtxDone && !q.Deadline.After(p.Deadline) {
				run.Violation("C09:attempt-reuses-deadline", fmt.Sprintf("command %d (%s, script %v): transmission %d was handed the same deadline as transmission %d", ci, cmd.Kind, cmd.Script, si+1, si), cs, nil)
				return
			}
		}
		for si, s := range res.Sends {
			if s.CtxDone {
				continue
			}
			hd := parseHdr(s.Bytes)
			run.Event("datagrams-monitored", 1)
			where := fmt.Sprintf("command %d (%s, script %v) transmission %d", ci, cmd.Kind, cmd.Script, si+1)
			if !hd.OK {
				run.Violation("C09:malformed-header", where+": datagram has no RMCP+ session header: "+ev.Hex(s.Bytes), cs, nil)
				return
			}
			if sessionless {
				if hd.SID != 0 || hd.Seq != 0 || hd.Enc || hd.Auth {
					run.Violation("C09:sessionless-nonzero", fmt.Sprintf("%s: session-less datagram carries session ID %#x sequence %d flags enc=%v auth=%v", where, hd.SID, hd.Seq, hd.Enc, hd.Auth), cs, nil)
					return
				}
				continue
			}
			inSession++
			if hd.SID != bmcSID {
				key := "C09:wrong-session-id"
				if si > 0 {
					key = "C09:retransmission-wrong-session-id"
				}
				run.Violation(key, fmt.Sprintf("%s: addressed to session %#x, the BMC's session ID is %#x (in-session datagram number %d)", where, hd.SID, bmcSID, inSession), cs, nil)
				return
			}
			if hd.Seq != uint32(inSession) {
				key := "C09:wrong-sequence"
				for _, prev := range h.Cmds[:ci] {
					if prev.Kind == "serfail" {
						key = "C09:serialise-failure-burns-seq"
					}
				}
				run.Violation(key, fmt.Sprintf("%s: in-session datagram number %d carries sequence %d", where, inSession, hd.Seq), cs, nil)
				return
			}
		}
		if got := sess.AuthenticatedSequenceNumbers.Inbound; got != uint32(inSession) {
			key := "C09:counter-disagrees"
			if cmd.Kind == "serfail" {
				key = "C09:serialise-failure-burns-seq"
			} else if cmd.Expired {
				key = "C09:finished-context-burns-seq"
			}
			run.Violation(key, fmt.Sprintf("after command %d (%s, script %v): session counter %d but %d in-session datagrams were transmitted", ci, cmd.Kind, cmd.Script, got, inSession), cs, nil)
			return
		}
		if len(cmd.Script) > 0 && cmd.Script[len(cmd.Script)-1] == "lost" && !sessionless {
			// the session is in an unknown state after a transport failure; the
			// numbers must still be consistent if the caller carries on
			continue
		}
	}
	if nontrivial {
		run.Nontrivial(sig)
	}
	if len(h.Cmds) <= 3 && len(sig)%41 == 0 {
		run.Sample(fmt.Sprintf("h%d", len(h.Cmds)), map[string]any{"suite": su.String(), "commands": h.Cmds, "in_session_datagrams": inSession})
	}
}

// c09UDPAck: over the real socket, a BMC (or a device in front of it) that sends
// an RMCP ACK before each reply although none was asked for. Whatever the library
// does about the ACKs, the in-session datagrams the BMC receives carry 1, 2, 3, ...
func c09UDPAck(run *ev.Run, seed int64, cs ev.Case) {
	run.Eval(1)
	r := rng(seed, "c09udpack")
	cfg := defaultCfg(r)
	u, err := newUDPEnv(cfg)
	if err != nil {
		run.Inconclusive("udp setup: " + err.Error())
		return
	}
	defer u.Close()
	u.BMC.Handler = refbmc.Chain(refbmc.Fixed(6, 0x01, 0, []byte{0x20, 0x81, 0x03, 0x15, 0x02, 0xbf, 0x57, 0x01, 0x00, 0x34, 0x12}), refbmc.Fixed(0, 0x01, 0, []byte{0x21, 0x10, 0x40, 0x54}))
	ctx, cancel := bg(30 * time.Second)
	defer cancel()
	sess, err := u.ST.NewV2Session(ctx, &bmc.V2SessionOpts{SessionOpts: bmc.SessionOpts{Username: cfg.Username, Password: cfg.Password, MaxPrivilegeLevel: ipmi.PrivilegeLevelAdministrator}, CipherSuites: []ipmi.CipherSuite{ipmi.CipherSuite3}})
	if err != nil {
		run.Violation("C09:handshake-failed", err.Error(), cs, nil)
		return
	}
	u.Srv.SetFault(func(n int, req, reply []byte) ([][]byte, time.Duration) {
		return [][]byte{{6, 0, 0xff, 0x87}, reply}, 0
	})
	for i := 0; i < 4; i++ {
		cctx, ccancel := context.WithTimeout(ctx, 3*time.Second)
		if i%2 == 0 {
			sess.GetDeviceID(cctx)
		} else {
			sess.GetChassisStatus(cctx)
		}
		ccancel()
	}
	u.Srv.SetFault(nil)
	var seqs []uint32
	for _, e := range u.BMC.Events() {
		if e.Kind == "session-ipmi" {
			seqs = append(seqs, e.Seq)
		}
	}
	run.Event("datagrams-monitored", len(seqs))
	run.Nontrivial(fmt.Sprintf("udpack|%d", len(seqs) > 4))
	for i, s := range seqs {
		if s != uint32(i+1) {
			run.Violation("C09:wrong-sequence", fmt.Sprintf("over UDP with an unsolicited RMCP ACK ahead of every reply, the BMC received in-session sequence numbers %v (datagram %d carries %d)", seqs, i+1, s), cs, nil)
			return
		}
	}
	if len(seqs) < 4 {
		run.Inconclusive(fmt.Sprintf("only %d in-session datagrams reached the BMC", len(seqs)))
	}
}

// c09TwoSessions: two sessions opened over one connection (a BMC with two session
// slots) and used alternately. Each session numbers its own datagrams 1, 2, 3, ...
func c09TwoSessions(run *ev.Run, seed int64, cs ev.Case) {
	run.Eval(1)
	r := rng(seed, "c09two")
	cfgs := []refbmc.Config{defaultCfg(r), defaultCfg(r)}
	cfgs[1].SID = cfgs[0].SID + 0x100
	su := stdSuites()[r.Intn(9)]
	var slots [2]*refbmc.BMC
	busy := 0
	for i := range slots {
		cfgs[i].Suites = []refbmc.Suite{su}
		slots[i] = refbmc.New(cfgs[i])
		slots[i].Handler = func(e *refbmc.Event) (byte, []byte, bool) {
			if e.Kind != "session-ipmi" {
				return 0, nil, false
			}
			if busy > 0 {
				busy--
				return 0xc0, nil, true
			}
			return 0, []byte{0x20, 0x81, 0x03, 0x15, 0x02, 0xbf, 0x57, 0x01, 0x00, 0x34, 0x12}, true
		}
	}
	target := 0
	T := memtr.New(func(n int, req []byte) ([]byte, error) {
		hd := parseHdr(req)
		for i := range slots {
			if hd.OK && hd.SID == cfgs[i].SID {
				return slots[i].Handle(req), nil
			}
		}
		return slots[target].Handle(req), nil
	})
	T.Mode = memtr.Window
	st := bmc.VerifNewV2SessionlessTransport(T, 10*time.Second, &backoff.ZeroBackOff{})
	ctx, cancel := bg(20 * time.Second)
	defer cancel()
	var sessions [2]*bmc.V2Session
	sent := [2]int{}
	order := ""
	open := func(i int) bool {
		target = i
		s, err := st.NewV2Session(ctx, &bmc.V2SessionOpts{SessionOpts: bmc.SessionOpts{Username: cfgs[i].Username, Password: cfgs[i].Password, MaxPrivilegeLevel: ipmi.PrivilegeLevelAdministrator}, CipherSuites: []ipmi.CipherSuite{libSuite(su)}})
		if err != nil {
			run.Violation("C09:handshake-failed", fmt.Sprintf("session %d on the shared connection: %v", i+1, err), cs, nil)
			return false
		}
		sessions[i], sent[i] = s, 0
		order += fmt.Sprintf("open%d ", i+1)
		return true
	}
	if !open(0) {
		return
	}
	use := func(i int) bool {
		if r.Intn(4) == 0 {
			busy = 1 + r.Intn(2)
		}
		nb := busy
		from := T.Len()
		cctx, ccancel := context.WithTimeout(ctx, 5*time.Second)
		_, err := sessions[i].SendCommand(cctx, &ipmi.GetDeviceIDCmd{})
		ccancel()
		order += fmt.Sprintf("use%d(busy %d) ", i+1, nb)
		for _, s := range T.Since(from) {
			hd := parseHdr(s.Bytes)
			sent[i]++
			run.Event("datagrams-monitored", 1)
			if !hd.OK || hd.SID != cfgs[i].SID || hd.Seq != uint32(sent[i]) {
				run.Violation("C09:wrong-sequence:two-sessions", fmt.Sprintf("history [%s]: datagram %d of session %d carries session ID %#x sequence %d (its BMC session ID is %#x)", order, sent[i], i+1, hd.SID, hd.Seq, cfgs[i].SID), cs, nil)
				return false
			}
		}
		if err != nil {
			run.Violation("C09:command-failed:two-sessions", fmt.Sprintf("history [%s]: %v; BMC slots: %v %v", order, err, problems(slots[0]), problems(slots[1])), cs, nil)
			return false
		}
		if got := sessions[i].AuthenticatedSequenceNumbers.Inbound; got != uint32(sent[i]) {
			run.Violation("C09:counter-disagrees:two-sessions", fmt.Sprintf("history [%s]: session %d counter %d after %d datagrams", order, i+1, got, sent[i]), cs, nil)
			return false
		}
		return true
	}
	for k := r.Intn(3); k > 0; k-- {
		if !use(0) {
			return
		}
	}
	if !open(1) {
		return
	}
	for k := 0; k < 10; k++ {
		if !use(r.Intn(2)) {
			return
		}
	}
	run.Event("two-session-histories", 1)
	run.Nontrivial(fmt.Sprintf("two|%v|%d|%d", su, sent[0] > 5, sent[1] > 5))
}
