package checks

import (
	"errors"
	"fmt"

	"verifharness/ev"
	"verifharness/memtr"
	"verifharness/refbmc"

	"github.com/gebn/bmc"
	"github.com/gebn/bmc/pkg/ipmi"
)

// the universe of suites for the selection enumeration
var c12U = []refbmc.Suite{
	{Auth: 3, Integ: 4, Conf: 1},          // 17
	{Auth: 1, Integ: 1, Conf: 1},          // 3
	{Auth: 1, Integ: 0, Conf: 0},          // 1
	{Auth: 1, Integ: 1, Conf: 0},          // 2
	{Auth: 2, Integ: 2, Conf: 1},          // 8
	{Auth: 0x31, Integ: 0x32, Conf: 0x33}, // OEM algorithms
}
var c12IDs = []byte{17, 3, 1, 2, 8, 0x81}

type c12Sel struct {
	Prefs      []int // indices into c12U
	Advertised int   // bit mask over c12U
	Shuffle    int
	// Empty selects how "no preference" is expressed when Prefs is empty: 0 nil, 1 an
	// empty non-nil slice, 2 a longer slice resliced to length 0
	Empty int `json:",omitempty"`
	// FaultAt > 0: the FaultAt-th Get Channel Cipher Suites request (1-based, so a later
	// list index when > 1) is answered with completion code FaultCode instead of data
	FaultAt   int `json:",omitempty"`
	FaultCode int `json:",omitempty"`
	// Refuse: the BMC advertises the suite the selection arrives at but answers the Open
	// Session Request for it with status 0x11 (its advertisement and its session code
	// disagree); the other suites it would accept
	Refuse bool `json:",omitempty"`
}

type c12Ans struct {
	Proposal refbmc.Suite
	Answer   refbmc.Suite
	Follow   bool // the BMC also switches its session to the answered suite
	// List, when non-empty, is the caller's explicit preference list (indices
	// into the nine AES suites); the proposal is then its first entry, found by
	// discovery against a BMC advertising everything
	List []int
	// ZeroLen is a bit mask (1 authentication, 2 integrity, 4 confidentiality) of the
	// answer's algorithm payloads whose length byte is 0 instead of 8
	ZeroLen int `json:",omitempty"`
	// LenMask/LenVal: the length byte of the payloads in LenMask is LenVal instead of 8
	LenMask int `json:",omitempty"`
	LenVal  int `json:",omitempty"`
	// Used: the connection has completed a well-formed handshake for the same proposal before
	Used bool `json:",omitempty"`
}

type c12Batch struct {
	Kind     string
	From, To int
	Seed     int64
	Proposal refbmc.Suite
}

func init() {
	register(&Check{
		ID:    "C12",
		Level: "exploration",
		Rule: "selection: every ordered preference list of length 0..3 over a 6-suite universe (157) x every advertised subset (64), exhaustive, each run for real against the simulated BMC, " +
			"comparing discovery use, the Open Session Request's proposal and the error with a 5-line model; answer side: the BMC's Open Session Response algorithm triple is rewritten to every value 0..63 per position " +
			"(others matching) plus PRNG triples (thorough: all 64^3) for three proposals, expecting an error unless the triple equals the proposal; " +
			"non-trivial = the library reached the decision point (sent a proposal, or returned the no-suite error); distinct = distinct (prefs, advertised) / (proposal, answer) pairs",
		Assumptions: []string{"the simulated BMC advertises suites as standard/OEM cipher suite records in 16-byte chunks and accepts any proposal"},
		Exhaustive:  func(tier string) bool { return tier == "thorough" },
		Gen:         c12Gen,
		Exec:        c12Exec,
		Anchors:     []string{"determineCipherSuite", "newV2Session", "RetrieveSupportedCipherSuites", "algorithmHasher", "algorithmCipher", "algorithmAuthenticationHashGenerator"},
	})
}

func c12Lists() [][]int {
	lists := [][]int{{}}
	n := len(c12U)
	for a := 0; a < n; a++ {
		lists = append(lists, []int{a}, []int{a, a})
		for b := 0; b < n; b++ {
			if b == a {
				continue
			}
			lists = append(lists, []int{a, b})
			// lists that name a suite more than once
			lists = append(lists, []int{a, b, a}, []int{a, a, b}, []int{a, b, b}, []int{b, a, b, a})
			for c := 0; c < n; c++ {
				if c == a || c == b {
					continue
				}
				lists = append(lists, []int{a, b, c})
			}
		}
	}
	return lists
}

func c12Gen(tier string, seed int64) []ev.Case {
	var cs []ev.Case
	nl := len(c12Lists())
	for from := 0; from < nl; from += 8 {
		cs = append(cs, ev.MkCase("batch", c12Batch{Kind: "sel", From: from, To: from + 8, Seed: seed}))
	}
	cs = append(cs, ev.MkCase("batch", c12Batch{Kind: "ans-list", Seed: seed}))
	// suites mixing hash families between authentication and integrity (legal, if unusual)
	for _, p := range []refbmc.Suite{{Auth: 1, Integ: 4, Conf: 1}, {Auth: 3, Integ: 1, Conf: 1}, {Auth: 2, Integ: 4, Conf: 1}, {Auth: 1, Integ: 2, Conf: 1}} {
		cs = append(cs, ev.MkCase("batch", c12Batch{Kind: "ans-axes", Proposal: p, Seed: seed}))
	}
	for _, p := range []refbmc.Suite{c12U[0], c12U[1], c12U[4]} {
		cs = append(cs, ev.MkCase("batch", c12Batch{Kind: "ans-axes", Proposal: p, Seed: seed}))
		if tier == "thorough" {
			for a := 0; a < 64; a++ {
				cs = append(cs, ev.MkCase("batch", c12Batch{Kind: "ans-all", Proposal: p, From: a, Seed: seed}))
			}
		} else {
			for k := 0; k < 8; k++ {
				cs = append(cs, ev.MkCase("batch", c12Batch{Kind: "ans-rand", Proposal: p, From: k, Seed: seed}))
			}
		}
	}
	return cs
}

func c12Exec(run *ev.Run, c ev.Case) {
	switch c.Kind {
	case "sel":
		var s c12Sel
		c.Decode(&s)
		c12Select(run, s)
	case "unknown-auth":
		var su refbmc.Suite
		c.Decode(&su)
		c12UnknownAuth(run, su.Auth, su.Integ, su.Conf)
	case "ans":
		var a c12Ans
		c.Decode(&a)
		c12Answer(run, a)
	case "batch":
		var b c12Batch
		c.Decode(&b)
		switch b.Kind {
		case "sel":
			lists := c12Lists()
			for i := b.From; i < b.To && i < len(lists); i++ {
				for adv := 0; adv < 64; adv++ {
					c12Select(run, c12Sel{Prefs: lists[i], Advertised: adv, Shuffle: int(b.Seed) + i + adv})
					if len(lists[i]) != 1 && (i+adv)%3 == 0 {
						c12Select(run, c12Sel{Prefs: lists[i], Advertised: adv, Shuffle: int(b.Seed) + i + adv, FaultAt: 1 + (i+adv)%4, FaultCode: []int{0xff, 0xc1, 0xcc, 0xd4, 0x80}[(i+adv)%5]})
					}
					if (i+adv)%4 == 1 {
						c12Select(run, c12Sel{Prefs: lists[i], Advertised: adv, Shuffle: int(b.Seed) + i + adv, Refuse: true})
					}
					if len(lists[i]) == 0 {
						c12Select(run, c12Sel{Prefs: lists[i], Advertised: adv, Shuffle: int(b.Seed) + i + adv, Empty: 1})
						c12Select(run, c12Sel{Prefs: lists[i], Advertised: adv, Shuffle: int(b.Seed) + i + adv, Empty: 2})
					}
				}
			}
		case "ans-list":
			{
				for auth := 4; auth < 64; auth++ {
					c12UnknownAuth(run, byte(auth), []byte{1, 2, 4}[auth%3], 1)
				}
			}
			// every ordered pair and some triples of the nine AES suites as the caller's list;
			// the BMC answers with each listed suite and with unlisted ones
			all := stdSuites()
			for i := 0; i < 9; i++ {
				for j := 0; j < 9; j++ {
					if i == j {
						continue
					}
					k := (i + j*2 + 1) % 9
					lists := [][]int{{i, j}}
					if k != i && k != j {
						lists = append(lists, []int{i, j, k})
					}
					for _, l := range lists {
						for _, a := range []int{j, k, (j + 4) % 9, i} {
							c12Answer(run, c12Ans{Proposal: all[i], Answer: all[a], Follow: true, List: l})
						}
					}
				}
			}
		case "ans-axes":
			for pos := 0; pos < 3; pos++ {
				for v := 0; v < 64; v++ {
					a := b.Proposal
					switch pos {
					case 0:
						a.Auth = byte(v)
					case 1:
						a.Integ = byte(v)
					case 2:
						a.Conf = byte(v)
					}
					c12Answer(run, c12Ans{Proposal: b.Proposal, Answer: a, Follow: true})
					c12Answer(run, c12Ans{Proposal: b.Proposal, Answer: a, Follow: false})
				}
			}
			// answers whose algorithm payloads are not the 8-byte form: a zero length byte (the
			// request-side wildcard notation) with algorithm None, alone and in combination
			for mask := 1; mask < 8; mask++ {
				a := b.Proposal
				if mask&1 != 0 {
					a.Auth = 0
				}
				if mask&2 != 0 {
					a.Integ = 0
				}
				if mask&4 != 0 {
					a.Conf = 0
				}
				for _, follow := range []bool{true, false} {
					c12Answer(run, c12Ans{Proposal: b.Proposal, Answer: a, Follow: follow, ZeroLen: mask})
					c12Answer(run, c12Ans{Proposal: b.Proposal, Answer: a, Follow: follow, ZeroLen: 7})
					// the same answers on a connection that has been through a well-formed handshake
					c12Answer(run, c12Ans{Proposal: b.Proposal, Answer: a, Follow: follow, ZeroLen: mask, Used: true})
					c12Answer(run, c12Ans{Proposal: b.Proposal, Answer: b.Proposal, Follow: follow, ZeroLen: mask, Used: true})
				}
			}
			// answers whose payload length byte is neither 0 nor 8: naming other algorithms, and
			// naming the proposed ones (the answer is then malformed: either refusal or
			// acceptance of the confirmed proposal is in order, a panic is not)
			for mask := 1; mask < 8; mask++ {
				for _, lv := range []int{1, 7, 9, 0x10, 0x24, 0x80, 0xff} {
					a := b.Proposal
					if mask&2 != 0 && lv%2 == 1 {
						a.Integ = 0
					}
					c12Answer(run, c12Ans{Proposal: b.Proposal, Answer: a, Follow: lv%3 == 0, LenMask: mask, LenVal: lv})
				}
			}
		case "ans-all":
			for i := 0; i < 64; i++ {
				for j := 0; j < 64; j++ {
					c12Answer(run, c12Ans{Proposal: b.Proposal, Answer: refbmc.Suite{Auth: byte(b.From), Integ: byte(i), Conf: byte(j)}, Follow: (i+j)%2 == 0})
				}
			}
		case "ans-rand":
			r := rng(b.Seed+int64(b.From), "c12ans"+b.Proposal.String())
			for i := 0; i < 250; i++ {
				a := refbmc.Suite{Auth: byte(r.Intn(64)), Integ: byte(r.Intn(64)), Conf: byte(r.Intn(64))}
				if r.Intn(3) == 0 {
					// near misses: supported algorithms only
					a = refbmc.Suite{Auth: []byte{0, 1, 2, 3}[r.Intn(4)], Integ: []byte{0, 1, 2, 4}[r.Intn(4)], Conf: []byte{0, 1}[r.Intn(2)]}
				}
				c12Answer(run, c12Ans{Proposal: b.Proposal, Answer: a, Follow: r.Intn(2) == 0})
			}
		}
	}
}

func c12Records(adv int, shuffle int) []refbmc.SuiteRecord {
	var recs []refbmc.SuiteRecord
	// suites 3 (1/1/1) and 2 (1/1/0) differ only in the confidentiality algorithm: in half of the
	// cases they are advertised as ONE record listing two confidentiality algorithms
	merged := adv&0b1010 == 0b1010 && shuffle%2 == 0
	for i, su := range c12U {
		if adv&(1<<i) == 0 {
			continue
		}
		if merged && i == 3 {
			continue
		}
		if merged && i == 1 {
			confs := []byte{1, 0}
			if shuffle%4 == 0 {
				confs = []byte{0, 1}
			}
			recs = append(recs, refbmc.SuiteRecord{ID: 3, Auth: 1, Integs: []byte{1}, Confs: confs})
			continue
		}
		rec := refbmc.SuiteRecord{ID: c12IDs[i], Auth: su.Auth}
		if i == 5 {
			rec.OEM, rec.IANA = true, 0x00a2b3
		}
		if su.Integ != 0 {
			rec.Integs = []byte{su.Integ}
		}
		if su.Conf != 0 {
			rec.Confs = []byte{su.Conf}
		}
		recs = append(recs, rec)
	}
	// rotate to vary the advertised order (the BMC's order must not matter)
	if len(recs) > 1 {
		k := shuffle % len(recs)
		recs = append(recs[k:], recs[:k]...)
	}
	if shuffle%7 == 0 {
		// a long advertisement (well over 256 bytes): vendor suites with algorithms nobody asks
		// for, ahead of, between and behind the real ones
		var long []refbmc.SuiteRecord
		pad := func(k int) {
			for i := 0; i < k; i++ {
				long = append(long, refbmc.SuiteRecord{ID: byte(0xa0 + len(long)%64), OEM: true, IANA: 0x0019a4, Auth: byte(0x20 + (len(long)+shuffle)%16), Integs: []byte{byte(0x20 + len(long)%8)}, Confs: []byte{byte(0x28 + len(long)%8)}})
			}
		}
		pad(14 + shuffle%20)
		for _, rec := range recs {
			long = append(long, rec)
			pad(5)
		}
		pad(shuffle % 10)
		recs = long
	}
	if shuffle%3 == 0 && len(recs) > 0 {
		// some suites are advertised more than once: under the standard ID and again under an
		// OEM ID (as the BMCs the library's own parser test vector comes from do)
		var dup []refbmc.SuiteRecord
		for i, rec := range recs {
			dup = append(dup, rec)
			if (i+shuffle)%2 == 0 {
				d := rec
				d.ID, d.OEM, d.IANA = rec.ID|0x80, true, 0x002a7c
				dup = append(dup, d)
				if shuffle%5 == 0 {
					dup = append(dup, d)
				}
			}
		}
		recs = dup
	}
	return recs
}

func c12Select(run *ev.Run, s c12Sel) {
	run.Eval(1)
	cs := ev.MkCase("sel", s)
	r := rng(int64(s.Shuffle), "c12sel")
	cfg := defaultCfg(r)
	cfg.Suites = c12U
	e := NewEnv(cfg, memtr.Window)
	server := &refbmc.CipherSuiteServer{Channel: 1, Data: refbmc.EncodeSuiteRecords(c12Records(s.Advertised, s.Shuffle))}
	e.BMC.Handler = refbmc.Chain(server.Handle)
	armed := false
	if s.FaultAt > 0 {
		nreq := 0
		e.BMC.Handler = refbmc.Chain(func(evn *refbmc.Event) (byte, []byte, bool) {
			if armed && evn.NetFn == 6 && evn.Cmd == 0x54 {
				nreq++
				if nreq == s.FaultAt {
					server.Requests = append(server.Requests, 0xee)
					return byte(s.FaultCode), nil, true
				}
			}
			return 0, nil, false
		}, server.Handle)
	}
	var prefs []ipmi.CipherSuite
	for _, i := range s.Prefs {
		prefs = append(prefs, libSuite(c12U[i]))
	}
	if len(s.Prefs) == 0 {
		switch s.Empty {
		case 1:
			prefs = []ipmi.CipherSuite{}
		case 2:
			prefs = []ipmi.CipherSuite{libSuite(c12U[3]), libSuite(c12U[2])}[:0]
		}
	}
	// model
	list := s.Prefs
	if len(list) == 0 {
		list = []int{0, 1}
	}
	wantDiscovery := len(list) > 1
	want := -1
	if !wantDiscovery {
		want = list[0]
	} else {
		for _, i := range list {
			if s.Advertised&(1<<i) != 0 {
				want = i
				break
			}
		}
	}
	used := s.Shuffle%2 == 1
	if used {
		// the connection has been through a handshake with discovery before (another
		// preference list); what it learnt then must not influence this one
		pc, pcancel := e.LimitCtx(160)
		ps, _ := e.ST.NewV2Session(pc, &bmc.V2SessionOpts{
			SessionOpts:  bmc.SessionOpts{Username: cfg.Username, Password: cfg.Password, MaxPrivilegeLevel: ipmi.PrivilegeLevelAdministrator},
			CipherSuites: []ipmi.CipherSuite{libSuite(c12U[(s.Shuffle/2)%2]), libSuite(c12U[4])},
		})
		if ps != nil {
			ps.Close(pc)
		}
		pcancel()
		e.BMC.ResetLog()
		server.Requests = nil
	}
	armed = true
	if s.Refuse && want >= 0 {
		var accepted []refbmc.Suite
		for i, su := range c12U {
			if i != want {
				accepted = append(accepted, su)
			}
		}
		e.BMC.Cfg.Suites = accepted
	}
	ctx, cancel := e.LimitCtx(160)
	defer cancel()
	var sess *bmc.V2Session
	var err error
	pv, st := safe(func() {
		sess, err = e.ST.NewV2Session(ctx, &bmc.V2SessionOpts{
			SessionOpts:  bmc.SessionOpts{Username: cfg.Username, Password: cfg.Password, MaxPrivilegeLevel: ipmi.PrivilegeLevelAdministrator},
			CipherSuites: prefs,
		})
	})
	desc := fmt.Sprintf("prefs %v (empty form %d, connection used before: %v) advertised %06b", s.Prefs, s.Empty, used, s.Advertised)
	if pv != nil {
		run.Violation("C12:panic:"+panicSite(st), fmt.Sprintf("NewV2Session panicked (%s): %v\n%s", desc, pv, trimStack(st)), cs, nil)
		return
	}
	var proposal *refbmc.Suite
	opens, disc := 0, len(server.Requests)
	for _, evn := range e.BMC.Events() {
		if evn.Kind == "open" && len(evn.Payload) == 32 {
			opens++
			if proposal == nil {
				p := evn.Payload
				proposal = &refbmc.Suite{Auth: p[12], Integ: p[20], Conf: p[28]}
			}
		}
		run.Event(evn.Kind, 1)
	}
	run.Nontrivial(fmt.Sprintf("sel %v %d %d %v", s.Prefs, s.Advertised, s.Empty, used))
	if s.FaultAt > 0 && wantDiscovery && disc >= s.FaultAt {
		// discovery did not complete: there is no list to choose from, so nothing may be proposed
		run.Nontrivial(fmt.Sprintf("sel-fault %v %d %d/%#x", s.Prefs, s.Advertised, s.FaultAt, s.FaultCode))
		if err == nil || sess != nil || opens != 0 {
			run.Violation("C12:proposal-from-incomplete-discovery", fmt.Sprintf("%s: Get Channel Cipher Suites request %d was refused with %#x, yet the library went on (err=%v, %d Open Session Requests, proposal %v)", desc, s.FaultAt, s.FaultCode, err, opens, proposal), cs, nil)
		}
		return
	}
	if (disc > 0) != wantDiscovery {
		run.Violation("C12:discovery-use", fmt.Sprintf("%s: %d Get Channel Cipher Suites requests, discovery expected: %v", desc, disc, wantDiscovery), cs, nil)
		return
	}
	if want < 0 {
		if !errors.Is(err, bmc.ErrNoSupportedCipherSuite) || sess != nil || opens != 0 {
			run.Violation("C12:no-suite-error", fmt.Sprintf("%s: expected ErrNoSupportedCipherSuite and no proposal, got err=%v opens=%d", desc, err, opens), cs, nil)
		}
		return
	}
	if proposal == nil {
		run.Violation("C12:no-proposal", fmt.Sprintf("%s: expected proposal %v but no Open Session Request was seen (err=%v)", desc, c12U[want], err), cs, nil)
		return
	}
	if *proposal != c12U[want] {
		run.Violation("C12:wrong-proposal", fmt.Sprintf("%s: proposed %v, want %v", desc, *proposal, c12U[want]), cs, nil)
		return
	}
	if s.Refuse {
		// the one suite that may be proposed was refused: an error, and no second proposal
		run.Nontrivial(fmt.Sprintf("sel-refused %v %d", s.Prefs, s.Advertised))
		if err == nil || sess != nil || opens != 1 {
			run.Violation("C12:another-suite-after-refusal", fmt.Sprintf("%s: the BMC refused the Open Session Request for %v with status 0x11; expected an error after that one proposal, got err=%v, session=%v, %d Open Session Requests", desc, c12U[want], err, sess != nil, opens), cs, nil)
		}
		return
	}
	su := c12U[want]
	if err == nil {
		if sess == nil || byte(sess.AuthenticationAlgorithm) != su.Auth || byte(sess.IntegrityAlgorithm) != su.Integ || byte(sess.ConfidentialityAlgorithm) != su.Conf {
			run.Violation("C12:session-algorithms", fmt.Sprintf("%s: session algorithms differ from proposal %v", desc, su), cs, nil)
		}
	} else if su.Integ != 0 && su.Conf == 1 && su.Auth <= 3 {
		run.Violation("C12:supported-suite-fails", fmt.Sprintf("%s: handshake for supported suite %v failed: %v; %v", desc, su, err, problems(e.BMC)), cs, nil)
	}
	if s.Advertised%13 == 0 && len(s.Prefs) == 3 {
		run.Sample("selection", map[string]any{"prefs": s.Prefs, "advertised_mask": s.Advertised, "discovery_requests": disc, "proposal": proposal.String(), "err": errStr(err)})
	}
}

// c12UnknownAuth: the caller's only suite names an authentication algorithm the library has no
// implementation of (OEM or reserved numbers), and the BMC plays along: it confirms exactly that
// suite and answers RAKP Message 1 with status OK. The library cannot compute the codes, so the
// outcome is an error - not a session, and not a panic.
func c12UnknownAuth(run *ev.Run, auth, integ, conf byte) {
	run.Eval(1)
	su := refbmc.Suite{Auth: auth, Integ: integ, Conf: conf}
	cs := ev.MkCase("unknown-auth", su)
	r := rng(int64(auth)<<8|int64(integ), "c12unknownauth")
	cfg := defaultCfg(r)
	e := NewEnv(cfg, memtr.Window)
	e.Filter = func(n int, req, reply []byte) ([]byte, error) {
		if len(req) < 24 {
			return reply, nil
		}
		p := req[16:]
		switch req[5] & 0x3f {
		case 0x10:
			return refbmc.RMCP(refbmc.SessHdr(0x11, 0, 0, refbmc.OpenRsp(p[0], 0, 4, uint32(p[4])|uint32(p[5])<<8|uint32(p[6])<<16|uint32(p[7])<<24, cfg.SID, su))), nil
		case 0x12:
			m := append([]byte{p[0], 0, 0, 0}, 1, 0, 0, 0)
			m = append(m, rbytes(r, 16)...)
			m = append(m, cfg.GUID[:]...)
			m = append(m, rbytes(r, []int{0, 12, 16, 20, 32}[int(auth)%5])...)
			return refbmc.RMCP(refbmc.SessHdr(0x13, 0, 0, m)), nil
		case 0x14:
			return refbmc.RMCP(refbmc.SessHdr(0x15, 0, 0, append([]byte{p[0], 0, 0, 0, 1, 0, 0, 0}, rbytes(r, 12)...))), nil
		}
		return reply, nil
	}
	ctx, cancel := e.LimitCtx(12)
	defer cancel()
	var sess *bmc.V2Session
	var err error
	pv, st := safe(func() {
		sess, err = e.ST.NewV2Session(ctx, &bmc.V2SessionOpts{
			SessionOpts:  bmc.SessionOpts{Username: cfg.Username, Password: cfg.Password, MaxPrivilegeLevel: ipmi.PrivilegeLevelAdministrator},
			CipherSuites: []ipmi.CipherSuite{libSuite(su)},
		})
	})
	desc := fmt.Sprintf("single preference %v (authentication algorithm %#x not implemented) confirmed by the BMC, RAKP Message 2 with status OK", su, auth)
	run.Nontrivial(fmt.Sprintf("unknown-auth %v", su))
	if pv != nil {
		run.Violation("C12:panic:"+panicSite(st), fmt.Sprintf("%s: panic %v\n%s", desc, pv, trimStack(st)), cs, nil)
		return
	}
	if err == nil || sess != nil {
		run.Violation("C12:session-on-unknown-algorithm", fmt.Sprintf("%s: a session was returned", desc), cs, nil)
	}
}

func c12Answer(run *ev.Run, a c12Ans) {
	run.Eval(1)
	cs := ev.MkCase("ans", a)
	r := rng(int64(a.Answer.Auth)<<16|int64(a.Answer.Integ)<<8|int64(a.Answer.Conf), "c12answer")
	cfg := defaultCfg(r)
	cfg.Suites = []refbmc.Suite{a.Proposal}
	e := NewEnv(cfg, memtr.Window)
	e.BMC.Handler = refbmc.Fixed(6, 0x01, 0, []byte{0x20, 0x81, 0x03, 0x15, 0x02, 0xbf, 0x57, 0x01, 0x00, 0x34, 0x12})
	prefs := []ipmi.CipherSuite{libSuite(a.Proposal)}
	if len(a.List) > 0 {
		prefs = nil
		var recs []refbmc.SuiteRecord
		for i, su := range stdSuites() {
			recs = append(recs, refbmc.SuiteRecord{ID: byte(0x20 + i), Auth: su.Auth, Integs: []byte{su.Integ}, Confs: []byte{su.Conf}})
		}
		for _, i := range a.List {
			prefs = append(prefs, libSuite(stdSuites()[i]))
		}
		cfg.Suites = stdSuites()
		e.BMC.Cfg.Suites = stdSuites()
		server := &refbmc.CipherSuiteServer{Channel: 1, Data: refbmc.EncodeSuiteRecords(recs)}
		e.BMC.Handler = refbmc.Chain(server.Handle, refbmc.Fixed(6, 0x01, 0, []byte{0x20, 0x81, 0x03, 0x15, 0x02, 0xbf, 0x57, 0x01, 0x00, 0x34, 0x12}))
	}
	if a.Used {
		pc, pcancel := e.LimitCtx(40)
		ps, perr := e.ST.NewV2Session(pc, &bmc.V2SessionOpts{
			SessionOpts:  bmc.SessionOpts{Username: cfg.Username, Password: cfg.Password, MaxPrivilegeLevel: ipmi.PrivilegeLevelAdministrator},
			CipherSuites: prefs,
		})
		if perr == nil && a.ZeroLen%2 == 0 {
			ps.Close(pc)
		}
		pcancel()
		if perr != nil {
			if a.Proposal.Integ != 0 && a.Proposal.Conf == 1 && a.Proposal.Auth <= 3 {
				run.Violation("C12:confirmed-proposal-fails", fmt.Sprintf("preliminary handshake for %v: %v", a.Proposal, perr), cs, nil)
			}
			return
		}
	}
	e.Filter = func(n int, req, reply []byte) ([]byte, error) {
		if len(req) > 5 && req[5]&0x3f == 0x10 && len(reply) == 52 && reply[17] == 0 {
			m := append([]byte(nil), reply...)
			m[32], m[40], m[48] = a.Answer.Auth, a.Answer.Integ, a.Answer.Conf
			for axis, off := range []int{31, 39, 47} {
				if a.ZeroLen&(1<<axis) != 0 {
					m[off] = 0
				}
				if a.LenMask&(1<<axis) != 0 {
					m[off] = byte(a.LenVal)
				}
			}
			if a.Follow && e.BMC.Sess != nil {
				ok := refbmc.HashFor(a.Answer.Auth) != nil
				if _, n := refbmc.IntegFor(a.Answer.Integ); n == 0 && a.Answer.Integ != 0 {
					ok = false
				}
				if a.Answer.Conf > 1 {
					ok = false
				}
				if ok {
					e.BMC.Sess.Suite = a.Answer
				}
			}
			return m, nil
		}
		return reply, nil
	}
	ctx, cancel := e.LimitCtx(20)
	defer cancel()
	var sess *bmc.V2Session
	var err, devErr error
	pv, st := safe(func() {
		sess, err = e.ST.NewV2Session(ctx, &bmc.V2SessionOpts{
			SessionOpts:  bmc.SessionOpts{Username: cfg.Username, Password: cfg.Password, MaxPrivilegeLevel: ipmi.PrivilegeLevelAdministrator},
			CipherSuites: prefs,
		})
		if err == nil && sess != nil {
			// a returned session must at least not blow up on first use - and one on exactly the
			// proposed and confirmed suite must work
			c2, cancel2 := e.LimitCtx(4)
			defer cancel2()
			_, devErr = sess.GetDeviceID(c2)
		}
	})
	desc := fmt.Sprintf("proposal %v (caller's list %v) answered %v (bmc follows: %v, zero-length payload mask %d, length byte %#x on mask %d, connection used before: %v)", a.Proposal, a.List, a.Answer, a.Follow, a.ZeroLen, a.LenVal, a.LenMask, a.Used)
	run.Nontrivial(fmt.Sprintf("ans %v %v %v %v %d %d/%d", a.Proposal, a.Answer, a.Follow, a.List, a.ZeroLen, a.LenMask, a.LenVal))
	run.Event("handshakes", 1)
	if pv != nil {
		run.Violation("C12:panic:"+panicSite(st), fmt.Sprintf("%s: panic %v\n%s", desc, pv, trimStack(st)), cs, nil)
		return
	}
	if a.Answer == a.Proposal && a.ZeroLen != 0 {
		// the algorithm bytes behind a zero length byte are not part of the payload: nothing was confirmed on that axis
		if err == nil {
			run.Violation("C12:answer-not-checked:zero-length", fmt.Sprintf("%s: a session was returned although the answer's payload(s) have length 0 and so confirm nothing", desc), cs, nil)
		}
		return
	}
	if a.Answer == a.Proposal && a.LenMask != 0 {
		run.Observe(fmt.Sprintf("malformed-length-byte-confirming-answer-accepted:%v", err == nil), 1)
		return
	}
	if a.Answer == a.Proposal {
		if err != nil {
			run.Violation("C12:confirmed-proposal-fails", fmt.Sprintf("%s: %v", desc, err), cs, nil)
		} else if devErr != nil || len(problems(e.BMC)) > 0 {
			run.Violation("C12:confirmed-suite-not-in-use", fmt.Sprintf("%s: the session was returned, but its first command failed (%v; BMC: %v): what is in use is not the suite that was proposed and confirmed", desc, devErr, problems(e.BMC)), cs, nil)
		}
		return
	}
	if err == nil {
		kind := "other"
		for _, i := range a.List {
			if stdSuites()[i] == a.Answer {
				kind = "another-listed-suite"
			}
		}
		switch {
		case kind != "other":
		case a.Answer.Integ == 0 || a.Answer.Conf == 0:
			kind = "none"
		case refbmc.HashFor(a.Answer.Auth) != nil:
			kind = "downgrade"
		}
		run.Violation("C12:answer-not-checked:"+kind, fmt.Sprintf("%s: a session was returned (algorithms %v/%v/%v)", desc, sess.AuthenticationAlgorithm, sess.IntegrityAlgorithm, sess.ConfidentialityAlgorithm), cs, nil)
		return
	}
	if (int(a.Answer.Auth)+int(a.Answer.Integ)*3+int(a.Answer.Conf)*7)%97 == 0 {
		run.Sample("answer", map[string]any{"proposal": a.Proposal.String(), "answer": a.Answer.String(), "err": errStr(err)})
	}
}
