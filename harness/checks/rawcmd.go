package checks

import (
	"fmt"
	"github.com/gebn/bmc/pkg/ipmi"
	"github.com/google/gopacket"
)

// RawRsp is a response layer that just captures the bytes it is given.
type RawRsp struct {
	Data    []byte
	Decoded bool
	Min     int // minimum length accepted (shorter => error, like a real layer)
}

type rawErr string

func (e rawErr) Error() string { return string(e) }

func (r *RawRsp) DecodeFromBytes(data []byte, df gopacket.DecodeFeedback) error {
	if len(data) < r.Min {
		df.SetTruncated()
		return rawErr("raw response shorter than minimum")
	}
	r.Data = append(r.Data[:0], data...)
	r.Decoded = true
	return nil
}
func (r *RawRsp) CanDecode() gopacket.LayerClass    { return gopacket.LayerTypePayload }
func (r *RawRsp) NextLayerType() gopacket.LayerType { return gopacket.LayerTypeZero }
func (r *RawRsp) LayerPayload() []byte              { return nil }

// RawCmd is a harness-defined ipmi.Command with an opaque request body.
type RawCmd struct {
	Op    ipmi.Operation
	LUN   ipmi.LUN
	Req   []byte
	NoReq bool
	Rsp   RawRsp
	NoRsp bool
	Label string
	// FailAfter > 0: the request serialises that many times and fails from then on (a
	// caller-defined layer whose SerializeTo depends on state of the caller's)
	FailAfter int
	serCount  int
}

type flakyReq struct{ c *RawCmd }

func (f flakyReq) LayerType() gopacket.LayerType { return gopacket.LayerTypePayload }
func (f flakyReq) SerializeTo(b gopacket.SerializeBuffer, opts gopacket.SerializeOptions) error {
	f.c.serCount++
	if f.c.serCount > f.c.FailAfter {
		return fmt.Errorf("verif: request layer refuses to serialise (call %d)", f.c.serCount)
	}
	bytes, err := b.PrependBytes(len(f.c.Req))
	if err != nil {
		return err
	}
	copy(bytes, f.c.Req)
	return nil
}

func (c *RawCmd) Name() string {
	if c.Label != "" {
		return c.Label
	}
	return "Verif Raw"
}
func (c *RawCmd) Operation() *ipmi.Operation { return &c.Op }
func (c *RawCmd) RemoteLUN() ipmi.LUN        { return c.LUN }
func (c *RawCmd) Request() gopacket.SerializableLayer {
	if c.NoReq {
		return nil
	}
	if c.FailAfter > 0 {
		return flakyReq{c}
	}
	return gopacket.Payload(c.Req)
}
func (c *RawCmd) Response() gopacket.DecodingLayer {
	if c.NoRsp {
		return nil
	}
	return &c.Rsp
}
