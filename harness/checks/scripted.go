package checks

import (
	"context"
	"encoding/binary"
	"errors"
	"fmt"
	"strings"
	"time"

	"verifharness/memtr"
	"verifharness/refbmc"
	"verifharness/refcodec"

	"github.com/gebn/bmc/pkg/ipmi"
)

// Outcome names for scripted per-attempt replies:
//
//	ok            valid response, completion code 0, full body
//	cc:<hex>      valid response with that completion code and an empty body
//	ccb:<hex>     valid response with that completion code and the full body
//	busy, tmo     valid response with 0xC0 / 0xC3
//	trunc         valid response, code 0, body one byte shorter than the layer's minimum
//	lost          no reply (transport error)
//	garbage:empty | garbage:rmcp | garbage:chk | garbage:noise | garbage:len
//	garbage:authmsg   (in-session) authentic packet whose plaintext is not a valid message
//	badsig        (in-session) authentic reply with one AuthCode bit flipped
type scriptState struct {
	script   []string
	attempt  int
	okBody   []byte
	minBody  int
	log      []attemptRec
	cancelAt int // cancel the caller's context while handling this attempt (1-based); 0 = never
	cancel   context.CancelFunc
}

type attemptRec struct {
	Outcome string
	Req     []byte
	Event   *refbmc.Event // BMC's view of the request (nil if not an IPMI request)
}

// hdr is the parsed RMCP+ session header of a transmitted datagram.
type hdr struct {
	OK        bool
	PType     byte
	Enc, Auth bool
	SID, Seq  uint32
	PLen      int
}

func parseHdr(raw []byte) hdr {
	if len(raw) < 16 || raw[0] != 6 || raw[1] != 0 || raw[2] != 0xff || raw[3] != 7 || raw[4] != 6 {
		return hdr{}
	}
	s := raw[4:]
	return hdr{OK: true, PType: s[1] & 0x3f, Enc: s[1]&0x80 != 0, Auth: s[1]&0x40 != 0,
		SID: binary.LittleEndian.Uint32(s[2:6]), Seq: binary.LittleEndian.Uint32(s[6:10]), PLen: int(binary.LittleEndian.Uint16(s[10:12]))}
}

// ScriptEnv is an Env whose replies to IPMI commands follow a script.
type ScriptEnv struct {
	*Env
	st *scriptState
	// Filter2 may replace replies while no script is active (handshakes).
	Filter2 func(req, reply []byte) []byte
	// Strict makes the BMC refuse (0xCC) requests that violate their request table
	// (wrong length, reserved bits set), as a strict implementation does.
	Strict bool
}

func NewScriptEnv(cfg refbmc.Config, mode memtr.Delivery) *ScriptEnv {
	se := &ScriptEnv{Env: NewEnv(cfg, mode)}
	se.BMC.Handler = func(ev *refbmc.Event) (byte, []byte, bool) {
		st := se.st
		if st == nil {
			return 0xc1, nil, true
		}
		return se.answer(ev)
	}
	// "request-lost": the datagram never reaches the BMC (which therefore neither acts on it nor
	// advances its own sequence number) - as opposed to "lost", where the reply goes missing
	se.PreFilter = func(n int, req []byte) []byte {
		if se.st != nil && se.current() == "request-lost" {
			return nil
		}
		return req
	}
	se.Filter = func(n int, req, reply []byte) ([]byte, error) {
		st := se.st
		if st == nil {
			if se.Filter2 != nil {
				return se.Filter2(req, reply), nil
			}
			return reply, nil
		}
		return se.transform(req, reply)
	}
	return se
}

func (se *ScriptEnv) current() string {
	st := se.st
	if st.attempt < len(st.script) {
		return st.script[st.attempt]
	}
	return "ok"
}

// answer is the BMC's command handler: it decides code and body per the script.
func (se *ScriptEnv) answer(ev *refbmc.Event) (byte, []byte, bool) {
	st := se.st
	o := se.current()
	body := st.okBody
	if ev.NetFn == 0x2c && (len(body) == 0 || body[0] != 0xdc) {
		body = append([]byte{0xdc}, body...)
	}
	// a response always carries the group extension / enterprise number of its request
	var ident []byte
	switch {
	case ev.NetFn == 0x2c:
		ident = []byte{0xdc}
	case ev.NetFn == 0x2e && len(body) >= 3:
		ident = body[:3]
	}
	// a strict BMC: a request that violates its table (wrong length, reserved bits set) is
	// refused whatever the script says
	if _, perr := refcodec.ParseRequest(ev.NetFn, ev.Cmd, ev.Data); se.Strict && perr != nil && !errors.Is(perr, refcodec.ErrNoTable) {
		return 0xcc, ident, true
	}
	switch {
	case o == "ok":
		return 0, body, true
	case o == "busy":
		return 0xc0, ident, true
	case o == "tmo":
		return 0xc3, ident, true
	case o == "busy:data":
		// a BMC that does not cut its response short after a temporary code
		return 0xc0, body, true
	case o == "tmo:data":
		return 0xc3, body, true
	case strings.HasPrefix(o, "cc:"):
		var c byte
		fmt.Sscanf(o[3:], "%x", &c)
		if ev.NetFn == 0x2c {
			return c, []byte{0xdc}, true
		}
		if ev.NetFn == 0x2e && len(body) >= 3 {
			return c, body[:3], true // OEM responses always echo the enterprise number
		}
		return c, nil, true
	case strings.HasPrefix(o, "ccb:"):
		var c byte
		fmt.Sscanf(o[4:], "%x", &c)
		return c, body, true
	case o == "trunc":
		n := st.minBody - 1
		if n < 0 {
			n = 0
		}
		if n > len(body) {
			n = len(body)
		}
		return 0, body[:n], true
	}
	// outcomes that replace the datagram still let the BMC process the request
	return 0, body, true
}

func (se *ScriptEnv) transform(req, reply []byte) ([]byte, error) {
	st := se.st
	o := se.current()
	rec := attemptRec{Outcome: o, Req: req}
	if e := lastEvent(se.BMC); e != nil {
		rec.Event = e
	}
	st.log = append(st.log, rec)
	st.attempt++
	if st.cancelAt > 0 && st.attempt == st.cancelAt && st.cancel != nil {
		st.cancel()
	}
	sess := se.BMC.Sess
	switch o {
	case "lost":
		return nil, nil
	case "refused":
		return nil, memtr.ErrRefused
	case "garbage:empty":
		return []byte{}, nil
	case "garbage:rmcp":
		return []byte{6, 0, 0xff, 7}, nil
	case "garbage:short":
		return []byte{6, 0, 0xff, 7, 6, 0xc0, 1}, nil // RMCP + a session header cut after 3 bytes
	case "garbage:noise":
		return []byte{0x13, 0x37, 0xde, 0xad, 0xbe, 0xef, 0x00, 0x11, 0x22, 0x33, 0x44, 0x55, 0x66, 0x77, 0x88, 0x99, 0xaa}, nil
	case "garbage:chk":
		// a well-formed sessionless wrapper whose message has a wrong checksum
		m := refbmc.BuildRsp(0x81, 7, 0, 0x20, 1, 0, 0x38, 0, []byte{1, 2, 3})
		m[len(m)-1] ^= 0x5a
		return refbmc.RMCP(refbmc.SessHdr(0, 0, 0, m)), nil
	case "garbage:len":
		m := refbmc.BuildRsp(0x81, 7, 0, 0x20, 1, 0, 0x38, 0, []byte{1, 2, 3})
		d := refbmc.RMCP(refbmc.SessHdr(0, 0, 0, m))
		d[14] += 9 // length field exceeds data
		return d, nil
	case "garbage:authmsg":
		if sess != nil && sess.Active {
			return sess.Wrap([]byte{0x81, 0x1c, 0x63, 0x20, 0x04}, refbmc.WrapOpts{}), nil
		}
		return []byte{6, 0, 0xff, 7, 6}, nil
	case "ok:signed-plain":
		// the authentic reply, signed under K1 but sent in the clear (payload-encrypted bit
		// off): a valid response all the same
		if last := se.BMC.Last(); last != nil && sess != nil && sess.Active {
			body := st.okBody
			if last.NetFn == 0x2c && (len(body) == 0 || body[0] != 0xdc) {
				body = append([]byte{0xdc}, body...)
			}
			return sess.Wrap(refbmc.RespMsg(last, 0, body), refbmc.WrapOpts{NoEncrypt: true}), nil
		}
		return reply, nil
	case "garbage:nomsg":
		// a datagram that parses as RMCP+ but carries no IPMI message: a late Open Session
		// Response, or an IPMI payload of length zero
		if st.attempt%2 == 0 {
			return refbmc.RMCP(refbmc.SessHdr(0x11, 0, 0, []byte{0, 1, 0, 0, 0xa4, 0xa3, 0xa2, 0xa0})), nil
		}
		return refbmc.RMCP(refbmc.SessHdr(0, 0, 0, nil)), nil
	case "garbage:reflect":
		// the console's own request comes back (a reflector, or the other end issuing the same
		// command): same NetFn pair and command, but a request, not a response
		if last := se.BMC.Last(); last != nil {
			if sess != nil && sess.Active && last.Kind == "session-ipmi" {
				m := refbmc.BuildRsp(0x81, last.NetFn&^1, 0, 0x20, last.RqSeq, 0, last.Cmd, 0, last.Data)
				return sess.Wrap(m, refbmc.WrapOpts{}), nil
			}
			return append([]byte(nil), req...), nil
		}
		return nil, nil
	case "stray:othercmd":
		// a well-formed (in-session: authentic) response to a different command
		if last := se.BMC.Last(); last != nil {
			m := refbmc.BuildRsp(0x81, 0x07, 0, 0x20, last.RqSeq, 0, 0x3e, 0, []byte{0xde, 0xad})
			if sess != nil && sess.Active && last.Kind == "session-ipmi" {
				return sess.Wrap(m, refbmc.WrapOpts{}), nil
			}
			return refbmc.RMCP(refbmc.SessHdr(0, 0, 0, m)), nil
		}
		return nil, nil
	case "garbage:unauth-hiseq", "garbage:othersid-hiseq", "garbage:badsig-hiseq", "garbage:unauth-seq0":
		// datagrams that are not valid responses (unauthenticated / for another session / wrongly
		// signed) and carry a BMC session sequence number far ahead of (or, for -seq0, behind) the
		// real one: being no responses, they leave nothing behind
		if last := se.BMC.Last(); last != nil && sess != nil && sess.Active {
			hi := uint32(0xfffffff0) + uint32(st.attempt%8)
			m := refbmc.RespMsg(last, 0, st.okBody)
			switch o {
			case "garbage:unauth-hiseq":
				return sess.Wrap(m, refbmc.WrapOpts{NoAuthFlag: true, DropTrailer: true, NoEncrypt: true, Seq: &hi}), nil
			case "garbage:unauth-seq0":
				zero := uint32(0)
				return sess.Wrap(m, refbmc.WrapOpts{NoAuthFlag: true, DropTrailer: true, NoEncrypt: true, Seq: &zero}), nil
			case "garbage:othersid-hiseq":
				other := sess.ConsoleSID ^ 0x00ff0000
				return sess.Wrap(m, refbmc.WrapOpts{SID: &other, Seq: &hi}), nil
			default:
				d := sess.Wrap(m, refbmc.WrapOpts{Seq: &hi})
				d[len(d)-1] ^= 0x01
				return d, nil
			}
		}
		return []byte{6, 0, 0xff, 7, 6}, nil
	case "unauth":
		// the right response, but unauthenticated and in the clear
		if last := se.BMC.Last(); last != nil && sess != nil && sess.Active {
			return sess.Wrap(refbmc.RespMsg(last, 0, st.okBody), refbmc.WrapOpts{NoAuthFlag: true, DropTrailer: true, NoEncrypt: true}), nil
		}
		return nil, nil
	case "othersid":
		if last := se.BMC.Last(); last != nil && sess != nil && sess.Active {
			other := sess.ConsoleSID ^ 0x00ff0000
			return sess.Wrap(refbmc.RespMsg(last, 0, st.okBody), refbmc.WrapOpts{SID: &other}), nil
		}
		return nil, nil
	case "strayhdr":
		// (session-less) a stray in-session-looking packet: non-null session ID and sequence, flags set
		if last := se.BMC.Last(); last != nil {
			m := refbmc.BuildRsp(0x81, 0x07, 0, 0x20, last.RqSeq, 0, 0x3e, 0, []byte{1})
			return refbmc.RMCP(refbmc.SessHdr(0x00, 0xa0a1a2a3, 9, m)), nil
		}
		return nil, nil
	case "badsig":
		if reply != nil && len(reply) > 20 {
			m := append([]byte(nil), reply...)
			m[len(m)-1] ^= 0x01
			return m, nil
		}
		return reply, nil
	}
	return reply, nil
}

// CallResult is what one scripted call produced.
type CallResult struct {
	Code     ipmi.CompletionCode
	Err      error
	Panic    any
	Stack    string
	Attempts []attemptRec
	Sends    []memtr.SendRec
}

// Run performs one library call under a script. okBody is the body the BMC
// returns on "ok"; minBody the response layer's minimum length.
func (se *ScriptEnv) Run(script []string, okBody []byte, minBody int, cancelAt int, maxSends int, call func(ctx context.Context) (ipmi.CompletionCode, error)) CallResult {
	before := se.T.Len()
	ctx, cancel := context.WithTimeout(context.Background(), 30*time.Second)
	st := &scriptState{script: script, okBody: okBody, minBody: minBody, cancelAt: cancelAt, cancel: cancel}
	se.st = st
	start := se.T.Transmissions()
	prev := se.T.BeforeReply
	se.T.BeforeReply = func(n int) {
		if n-start >= maxSends {
			cancel()
		}
	}
	var res CallResult
	res.Panic, res.Stack = safe(func() { res.Code, res.Err = call(ctx) })
	cancel()
	se.T.BeforeReply = prev
	se.st = nil
	res.Attempts = st.log
	res.Sends = se.T.Since(before)
	return res
}
