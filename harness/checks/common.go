// Package checks holds one check per property plus the shared driver.
package checks

import (
	"context"
	"fmt"
	"math/rand"
	"runtime"
	"runtime/debug"
	"strings"
	"sync"
	"time"

	"verifharness/ev"
	"verifharness/memtr"
	"verifharness/refbmc"
	"verifharness/udpbmc"

	"github.com/cenkalti/backoff/v4"
	"github.com/gebn/bmc"
	"github.com/gebn/bmc/pkg/ipmi"
)

// Check is the registration record of one property's check.
type Check struct {
	ID          string
	Level       string // exploration | fault_enumeration
	Rule        string
	Assumptions []string
	Exhaustive  func(tier string) bool
	// Gen lists the (coarse) cases of a run; a pure function of tier and seed.
	Gen func(tier string, seed int64) []ev.Case
	// Exec runs one case (coarse or a fine-grained replay case).
	Exec func(r *ev.Run, c ev.Case)
	// Serial forces one case at a time (process-global state observed).
	Serial bool
	// Workers overrides the default parallelism.
	Workers int
	// Post runs after all cases (global conservation checks, summaries).
	Post func(r *ev.Run, tier string, seed int64)
	// Anchors are function-name fragments (as printed by `go tool covdata
	// func`) that the run is expected to reach.
	Anchors []string
}

var Registry = map[string]*Check{}

func register(c *Check) { Registry[c.ID] = c }

// RunCheck executes a whole check and returns the exit status.
func RunCheck(c *Check, tier string, seed int64, replayPath string) int {
	r := ev.NewRun(c.ID, tier, seed, c.Level)
	r.Rule = c.Rule
	r.Assumptions = c.Assumptions
	if c.Exhaustive != nil {
		r.Exhaustive = c.Exhaustive(tier)
	}
	if replayPath != "" {
		rc, err := ev.LoadReplay(replayPath)
		if err != nil {
			fmt.Println("cannot load replay:", err)
			return 2
		}
		r.SetReplayMode()
		c.Exec(r, rc)
		st := r.Finish()
		if st == 0 {
			fmt.Printf("REPLAY property=%s: case no longer violates\n", c.ID)
		}
		return st
	}
	cases := c.Gen(tier, seed)
	workers := c.Workers
	if workers == 0 {
		workers = runtime.NumCPU()
	}
	if c.Serial {
		workers = 1
	}
	var wg sync.WaitGroup
	ch := make(chan ev.Case)
	for i := 0; i < workers; i++ {
		wg.Add(1)
		go func() {
			defer wg.Done()
			for cs := range ch {
				func() {
					defer func() {
						if p := recover(); p != nil {
							// a panic escaping an executor is a harness bug unless the
							// executor is the panic oracle itself (C05 recovers its own)
							r.Violation("harness:escaped-panic:"+panicSite(string(debug.Stack())),
								fmt.Sprintf("panic escaped case %s: %v\n%s", cs.Kind, p, trimStack(string(debug.Stack()))), cs, nil)
						}
					}()
					c.Exec(r, cs)
				}()
			}
		}()
	}
	for _, cs := range cases {
		ch <- cs
	}
	close(ch)
	wg.Wait()
	if c.Post != nil {
		c.Post(r, tier, seed)
	}
	checkAnchors(r, c)
	return r.Finish()
}

// rng returns a PRNG derived from the run seed and a label.
func rng(seed int64, label string) *rand.Rand {
	h := int64(1469598103934665603)
	for _, ch := range label {
		h ^= int64(ch)
		h *= 1099511628211
	}
	return rand.New(rand.NewSource(seed*1000003 ^ h))
}

func rbytes(r *rand.Rand, n int) []byte {
	b := make([]byte, n)
	r.Read(b)
	return b
}

// safe runs f and reports a recovered panic with the stack.
func safe(f func()) (pv any, stack string) {
	defer func() {
		if p := recover(); p != nil {
			pv = p
			stack = string(debug.Stack())
		}
	}()
	f()
	return nil, ""
}

// panicSite extracts the innermost library (or gopacket) frame of a panic
// stack: the canonical identity of a crash site.
func panicSite(stack string) string {
	lines := strings.Split(stack, "\n")
	seenPanic := false
	for _, l := range lines {
		if strings.HasPrefix(l, "panic(") {
			seenPanic = true
			continue
		}
		if !seenPanic {
			continue
		}
		if strings.HasPrefix(l, "\t") || strings.HasPrefix(l, " ") {
			continue
		}
		if strings.HasPrefix(l, "runtime.") {
			continue
		}
		// function line like github.com/gebn/bmc/pkg/ipmi.(*Message).decodeDataHeader(...)
		if i := strings.LastIndex(l, "("); i > 0 {
			l = l[:i]
		}
		l = strings.TrimPrefix(l, "github.com/gebn/bmc/")
		return l
	}
	return "unknown"
}

func trimStack(s string) string {
	lines := strings.Split(s, "\n")
	if len(lines) > 40 {
		lines = lines[:40]
	}
	return strings.Join(lines, "\n")
}

// Env is one library connection over an in-memory transport to one simulated BMC.
type Env struct {
	BMC *refbmc.BMC
	T   *memtr.T
	ST  *bmc.V2SessionlessTransport
	// Filter, when set, may replace the BMC's reply to the n-th transmission.
	Filter func(n int, req, reply []byte) ([]byte, error)
	// PreFilter, when set, may rewrite a request before the BMC sees it (a
	// man in the middle).
	PreFilter func(n int, req []byte) []byte
}

// stdSuites are the nine authentication x integrity combinations with AES.
func stdSuites() []refbmc.Suite {
	var o []refbmc.Suite
	for _, a := range []byte{1, 2, 3} {
		for _, i := range []byte{1, 2, 4} {
			o = append(o, refbmc.Suite{Auth: a, Integ: i, Conf: 1})
		}
	}
	return o
}

func libSuite(s refbmc.Suite) ipmi.CipherSuite {
	return ipmi.CipherSuite{
		AuthenticationAlgorithm:  ipmi.AuthenticationAlgorithm(s.Auth),
		IntegrityAlgorithm:       ipmi.IntegrityAlgorithm(s.Integ),
		ConfidentialityAlgorithm: ipmi.ConfidentialityAlgorithm(s.Conf),
	}
}

// NewEnv builds a BMC, a transport whose replies come from it, and the hooked
// library connection with a zero back-off.
func NewEnv(cfg refbmc.Config, mode memtr.Delivery) *Env {
	e := &Env{BMC: refbmc.New(cfg)}
	e.T = memtr.New(func(n int, req []byte) ([]byte, error) {
		if e.PreFilter != nil {
			req = e.PreFilter(n, req)
		}
		rsp := e.BMC.Handle(req)
		if e.Filter != nil {
			return e.Filter(n, req, rsp)
		}
		return rsp, nil
	})
	e.T.Mode = mode
	e.ST = bmc.VerifNewV2SessionlessTransport(e.T, 10*time.Second, &backoff.ZeroBackOff{})
	return e
}

// LimitCtx returns a context that the transport cancels after max
// transmissions: a logical bound on retry loops that would otherwise spin on
// the zero back-off.
func (e *Env) LimitCtx(max int) (context.Context, context.CancelFunc) {
	ctx, cancel := context.WithTimeout(context.Background(), 20*time.Second)
	start := e.T.Transmissions()
	prev := e.T.BeforeReply
	e.T.BeforeReply = func(n int) {
		if prev != nil {
			prev(n)
		}
		if n-start >= max {
			cancel()
		}
	}
	return ctx, func() { cancel(); e.T.BeforeReply = prev }
}

func defaultCfg(r *rand.Rand) refbmc.Config {
	cfg := refbmc.Config{
		Username: "admin",
		Password: []byte("password"),
		SID:      0x02000a00 | uint32(r.Intn(250)+1),
		Suites:   stdSuites(),
	}
	r.Read(cfg.GUID[:])
	r.Read(cfg.Rc[:])
	return cfg
}

// OpenSession opens a session for a configuration with a single cipher suite.
func (e *Env) OpenSession(ctx context.Context, su refbmc.Suite) (*bmc.V2Session, error) {
	return e.ST.NewV2Session(ctx, &bmc.V2SessionOpts{
		SessionOpts: bmc.SessionOpts{
			Username:          e.BMC.Cfg.Username,
			Password:          e.BMC.Cfg.Password,
			MaxPrivilegeLevel: ipmi.PrivilegeLevelAdministrator,
		},
		KG:           e.BMC.Cfg.KG,
		CipherSuites: []ipmi.CipherSuite{libSuite(su)},
	})
}

func bg(d time.Duration) (context.Context, context.CancelFunc) {
	return context.WithTimeout(context.Background(), d)
}

func errStr(err error) string {
	if err == nil {
		return ""
	}
	return err.Error()
}

// UDPEnv is a library connection made with the production DialV2 over
// loopback UDP to a simulated BMC.
type UDPEnv struct {
	BMC *refbmc.BMC
	Srv *udpbmc.Server
	ST  *bmc.V2SessionlessTransport
}

func newUDPEnv(cfg refbmc.Config) (*UDPEnv, error) {
	b := refbmc.New(cfg)
	srv, err := udpbmc.Listen(b)
	if err != nil {
		return nil, err
	}
	st, err := bmc.DialV2(srv.Addr(), bmc.WithTimeout(2*time.Second))
	if err != nil {
		srv.Close()
		return nil, err
	}
	return &UDPEnv{BMC: b, Srv: srv, ST: st}, nil
}

func (u *UDPEnv) Close() {
	u.ST.Close()
	u.Srv.Close()
}
