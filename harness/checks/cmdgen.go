package checks

import (
	"context"
	"math/rand"
	"time"

	"verifharness/refcodec"

	"github.com/gebn/bmc"
	"github.com/gebn/bmc/pkg/dcmi"
	"github.com/gebn/bmc/pkg/iana"
	"github.com/gebn/bmc/pkg/ipmi"
)

// genCmd is a library command with field values drawn from the wire domain,
// the field values an independent parse of its request must yield, and a
// valid response body for the simulated BMC to answer with.
type genCmd struct {
	Cmd      ipmi.Command
	NetFn    byte
	CmdNo    byte
	LUN      byte
	Want     refcodec.Fields
	RawData  []byte // for opaque commands: the exact bytes expected after the command byte
	OkBody   []byte
	Label    string
	SerFail  bool
	InSessOK bool // may be sent inside a session
	// Call, when set, performs the request through a higher-level API instead of SendCommand(Cmd)
	Call func(ctx context.Context, conn bmc.Connection) (ipmi.CompletionCode, error) `json:"-"`
}

var cmdKinds = []string{"authcaps", "ciphersuites", "sessioninfo", "setpriv", "close", "chassiscontrol", "getsdr", "sensorreading",
	"devid", "chassisstatus", "guid", "repoinfo", "reserve", "dcmicap", "power", "sensorinfo", "raw-normal", "raw-group", "raw-oem"}

func specBody(r *rand.Rand, name string) []byte {
	b, _, _ := specByName(name).Gen(r)
	return b
}

func genCommand(r *rand.Rand, kind string, rawLen int) genCmd {
	g := genCmd{Label: kind, InSessOK: true, Want: refcodec.Fields{}}
	switch kind {
	case "authcaps":
		c := &ipmi.GetChannelAuthenticationCapabilitiesCmd{Req: ipmi.GetChannelAuthenticationCapabilitiesReq{ExtendedData: rb(r), Channel: ipmi.Channel(r.Intn(16)), MaxPrivilegeLevel: ipmi.PrivilegeLevel(r.Intn(16))}}
		g.Cmd, g.NetFn, g.CmdNo = c, 6, 0x38
		g.Want = refcodec.Fields{"extended": b2u(c.Req.ExtendedData), "channel": uint64(c.Req.Channel), "privilege": uint64(c.Req.MaxPrivilegeLevel)}
		g.OkBody = specBody(r, "GetChannelAuthenticationCapabilitiesRsp")
	case "ciphersuites":
		c := &ipmi.GetChannelCipherSuitesCmd{Req: ipmi.GetChannelCipherSuitesReq{Channel: ipmi.Channel(r.Intn(16)), PayloadType: ipmi.PayloadType(r.Intn(64)), ListIndex: uint8(r.Intn(64))}}
		g.Cmd, g.NetFn, g.CmdNo = c, 6, 0x54
		g.Want = refcodec.Fields{"channel": uint64(c.Req.Channel), "payload_type": uint64(c.Req.PayloadType), "list_suites": 1, "index": uint64(c.Req.ListIndex)}
		g.OkBody = specBody(r, "GetChannelCipherSuitesRsp")
	case "sessioninfo":
		c := &ipmi.GetSessionInfoCmd{}
		switch r.Intn(4) {
		case 0:
			c.Req.Index = ipmi.SessionIndexHandle
			c.Req.Handle = ipmi.SessionHandle(r.Intn(256))
			g.Want = refcodec.Fields{"index": 0xfe, "handle": uint64(c.Req.Handle)}
		case 1:
			c.Req.Index = ipmi.SessionIndexID
			c.Req.ID = r.Uint32()
			g.Want = refcodec.Fields{"index": 0xff, "id": uint64(c.Req.ID)}
		default:
			c.Req.Index = ipmi.SessionIndex(r.Intn(0xfe))
			c.Req.Handle, c.Req.ID = ipmi.SessionHandle(r.Intn(256)), r.Uint32() // must not be sent
			g.Want = refcodec.Fields{"index": uint64(c.Req.Index)}
		}
		g.Cmd, g.NetFn, g.CmdNo = c, 6, 0x3d
		g.OkBody = specBody(r, "GetSessionInfoRsp")
	case "setpriv":
		lvl := r.Intn(16)
		c := &ipmi.SetSessionPrivilegeLevelCmd{Req: ipmi.SetSessionPrivilegeLevelReq{PrivilegeLevel: ipmi.PrivilegeLevel(lvl)}}
		g.Cmd, g.NetFn, g.CmdNo = c, 6, 0x3b
		g.Want = refcodec.Fields{"privilege": uint64(lvl)}
		g.SerFail = lvl == 1
		g.OkBody = []byte{byte(lvl)}
	case "close":
		c := &ipmi.CloseSessionCmd{}
		if rb(r) {
			c.Req.ID = r.Uint32() | 1
			c.Req.Handle = ipmi.SessionHandle(r.Intn(256)) // must not be sent
			g.Want = refcodec.Fields{"id": uint64(c.Req.ID)}
		} else {
			c.Req.Handle = ipmi.SessionHandle(r.Intn(256))
			g.Want = refcodec.Fields{"id": 0, "handle": uint64(c.Req.Handle)}
		}
		g.Cmd, g.NetFn, g.CmdNo = c, 6, 0x3c
	case "chassiscontrol":
		c := &ipmi.ChassisControlCmd{Req: ipmi.ChassisControlReq{ChassisControl: ipmi.ChassisControl(r.Intn(16))}}
		g.Cmd, g.NetFn, g.CmdNo = c, 0, 0x02
		g.Want = refcodec.Fields{"control": uint64(c.Req.ChassisControl)}
	case "getsdr":
		c := &ipmi.GetSDRCmd{Req: ipmi.GetSDRReq{ReservationID: ipmi.ReservationID(r.Intn(65536)), RecordID: ipmi.RecordID(r.Intn(65536)), Offset: uint8(r.Intn(256)), Length: uint8(r.Intn(256))}}
		switch r.Intn(4) {
		case 0:
			c.Req.RecordID = 0
		case 1:
			c.Req.RecordID = 0xffff
			c.Req.Length = 0xff
		}
		g.Cmd, g.NetFn, g.CmdNo = c, 0x0a, 0x23
		g.Want = refcodec.Fields{"reservation": uint64(c.Req.ReservationID), "record": uint64(c.Req.RecordID), "offset": uint64(c.Req.Offset), "length": uint64(c.Req.Length)}
		g.OkBody = specBody(r, "GetSDRRsp")
	case "sensorreading":
		c := &ipmi.GetSensorReadingCmd{Req: ipmi.GetSensorReadingReq{Number: uint8(r.Intn(256))}, OwnerLUN: ipmi.LUN(r.Intn(4))}
		g.Cmd, g.NetFn, g.CmdNo, g.LUN = c, 4, 0x2d, byte(c.OwnerLUN)
		g.Want = refcodec.Fields{"number": uint64(c.Req.Number)}
		g.OkBody = specBody(r, "GetSensorReadingRsp")
	case "devid":
		g.Cmd, g.NetFn, g.CmdNo, g.OkBody = &ipmi.GetDeviceIDCmd{}, 6, 0x01, specBody(r, "GetDeviceIDRsp")
	case "chassisstatus":
		g.Cmd, g.NetFn, g.CmdNo, g.OkBody = &ipmi.GetChassisStatusCmd{}, 0, 0x01, specBody(r, "GetChassisStatusRsp")
	case "guid":
		g.Cmd, g.NetFn, g.CmdNo, g.OkBody = &ipmi.GetSystemGUIDCmd{}, 6, 0x37, specBody(r, "GetSystemGUIDRsp")
	case "repoinfo":
		g.Cmd, g.NetFn, g.CmdNo, g.OkBody = &ipmi.GetSDRRepositoryInfoCmd{}, 0x0a, 0x20, specBody(r, "GetSDRRepositoryInfoRsp")
	case "reserve":
		g.Cmd, g.NetFn, g.CmdNo, g.OkBody = &ipmi.ReserveSDRRepositoryCmd{}, 0x0a, 0x22, specBody(r, "ReserveSDRRepositoryRsp")
	case "dcmicap":
		p := r.Intn(256)
		var body string
		switch r.Intn(5) {
		case 0:
			c := dcmi.NewGetDCMICapabilitiesInfoSupportedCapabilitiesCmd()
			c.Parameter = dcmi.CapabilitiesParameter(p)
			g.Cmd, body = c, "DCMISupportedCapabilitiesRsp"
		case 1:
			c := dcmi.NewGetDCMICapabilitiesInfoMandatoryPlatformAttrsCmd()
			c.Parameter = dcmi.CapabilitiesParameter(p)
			g.Cmd, body = c, "DCMIMandatoryPlatformAttrsRsp"
		case 2:
			c := dcmi.NewGetDCMICapabilitiesInfoOptionalPlatformAttrsCmd()
			c.Parameter = dcmi.CapabilitiesParameter(p)
			g.Cmd, body = c, "DCMIOptionalPlatformAttrsRsp"
		case 3:
			c := dcmi.NewGetDCMICapabilitiesInfoManageabilityAccessAttrsCmd()
			c.Parameter = dcmi.CapabilitiesParameter(p)
			g.Cmd, body = c, "DCMIManageabilityAccessAttrsRsp"
		default:
			c := dcmi.NewGetDCMICapabilitiesInfoEnhancedSystemPowerStatisticsAttrsCmd()
			c.Parameter = dcmi.CapabilitiesParameter(p)
			g.Cmd, body = c, "DCMIEnhancedPowerAttrsRsp"
		}
		g.NetFn, g.CmdNo = 0x2c, 0x01
		g.Want = refcodec.Fields{"parameter": uint64(p)}
		g.OkBody = append([]byte{0xdc}, specBody(r, body)...)
	case "power":
		c := &dcmi.GetPowerReadingCmd{}
		unit, val := byte(r.Intn(4)), byte(r.Intn(64))
		pb, d := refcodec.PeriodByte(unit, val)
		// canonical durations only: the value must not be expressible in a larger unit
		if (unit == 0 && val >= 60) || (unit == 1 && val >= 60) || (unit == 2 && val >= 24) || val == 0 {
			pb, d = 0x05, 5*time.Second
		}
		if rb(r) {
			c.Req.Mode = dcmi.SystemPowerStatisticsModeEnhanced
			c.Req.Period = d
			g.Want = refcodec.Fields{"mode": 2, "period": uint64(pb)}
		} else {
			c.Req.Mode = dcmi.SystemPowerStatisticsModeNormal
			c.Req.Period = d // ignored in normal mode
			g.Want = refcodec.Fields{"mode": 1, "period": 0}
		}
		g.Cmd, g.NetFn, g.CmdNo = c, 0x2c, 0x02
		g.OkBody = append([]byte{0xdc}, specBody(r, "GetPowerReadingRsp")...)
	case "sensorinfo":
		c := &dcmi.GetDCMISensorInfoCmd{Req: dcmi.GetDCMISensorInfoReq{Type: ipmi.SensorType(r.Intn(256)), Entity: ipmi.EntityID(r.Intn(256)), InstanceStart: uint8(r.Intn(256))}}
		start := uint64(c.Req.InstanceStart)
		if rb(r) {
			c.Req.Instance = ipmi.EntityInstance(1 + r.Intn(255))
			start = 0
		}
		g.Cmd, g.NetFn, g.CmdNo = c, 0x2c, 0x07
		g.Want = refcodec.Fields{"type": uint64(c.Req.Type), "entity": uint64(c.Req.Entity), "instance": uint64(c.Req.Instance), "start": start}
		g.OkBody = append([]byte{0xdc}, specBody(r, "GetDCMISensorInfoRsp")...)
	case "raw-normal":
		body := rbytes(r, rawLen)
		nf := []byte{0x06, 0x00, 0x04, 0x0a, 0x0c, 0x30, 0x3e, 0x08}[r.Intn(8)]
		c := &RawCmd{Op: ipmi.Operation{Function: ipmi.NetworkFunction(nf), Command: ipmi.CommandNumber(0x60 + r.Intn(0x90))}, LUN: ipmi.LUN(r.Intn(4)), Req: body}
		g.Cmd, g.NetFn, g.CmdNo, g.LUN, g.RawData = c, nf, byte(c.Op.Command), byte(c.LUN), body
		g.OkBody = rbytes(r, r.Intn(30))
	case "raw-group":
		body := rbytes(r, rawLen)
		bc := byte(r.Intn(256))
		c := &RawCmd{Op: ipmi.Operation{Function: ipmi.NetworkFunctionGroupReq, Body: ipmi.BodyCode(bc), Command: ipmi.CommandNumber(r.Intn(256))}, LUN: ipmi.LUN(r.Intn(4)), Req: body}
		g.Cmd, g.NetFn, g.CmdNo, g.LUN = c, 0x2c, byte(c.Op.Command), byte(c.LUN)
		g.RawData = append([]byte{bc}, body...)
		g.OkBody = append([]byte{bc}, rbytes(r, r.Intn(30))...)
	case "raw-oem":
		body := rbytes(r, rawLen)
		en := uint32(r.Intn(1 << 24))
		c := &RawCmd{Op: ipmi.Operation{Function: ipmi.NetworkFunctionOEMReq, Enterprise: iana.Enterprise(en), Command: ipmi.CommandNumber(r.Intn(256))}, LUN: ipmi.LUN(r.Intn(4)), Req: body}
		g.Cmd, g.NetFn, g.CmdNo, g.LUN = c, 0x2e, byte(c.Op.Command), byte(c.LUN)
		g.RawData = append([]byte{byte(en), byte(en >> 8), byte(en >> 16)}, body...)
		g.OkBody = append([]byte{byte(en), byte(en >> 8), byte(en >> 16)}, rbytes(r, r.Intn(30))...)
	default:
		panic("unknown command kind " + kind)
	}
	return g
}

func b2u(b bool) uint64 {
	if b {
		return 1
	}
	return 0
}
