package checks

import (
	"context"
	"fmt"
	"sort"
	"strings"
	"sync"
	"time"

	"verifharness/ev"
	"verifharness/memtr"
	"verifharness/refbmc"
	"verifharness/udpbmc"

	"github.com/cenkalti/backoff/v4"
	"github.com/gebn/bmc"
	"github.com/gebn/bmc/pkg/ipmi"
	"github.com/prometheus/client_golang/prometheus"
	"github.com/prometheus/client_golang/prometheus/collectors"
	dto "github.com/prometheus/client_model/go"
)

type c18Hist struct {
	Seed  int64
	Steps int
	Suite int
}

func init() {
	register(&Check{
		ID:     "C18",
		Level:  "exploration",
		Serial: true,
		Rule: "random histories of up to 60 steps over {dial ok / bad address / transport close (real DialV2 over loopback UDP), session open ok / wrong password / no common suite after discovery / garbage replies, " +
			"in-session and session-less commands answered ok / error code with empty body / busy-then-ok / noise-then-ok / truncated body / lost, request that fails to serialise, close ok / close answered with an error code} run one at a time in the process; " +
			"prometheus.DefaultGatherer is read before and after every step and the delta of every bmc_* counter and gauge is compared with a model fed from the harness's own knowledge (calls and their error-ness per Name(), transmissions counted by the transport, valid responses delivered per completion code, opens and closes). " +
			"non-trivial = a step changed at least one metric; distinct = distinct (step kind, preceding step kind) pairs plus distinct histories",
		Assumptions: []string{"metric label text is taken from the library's own Name() and CompletionCode.String()",
			"only outcomes whose classification is unambiguous under the statement are generated; forged or mis-addressed replies are left to C04/C11",
			"connections built through the verif hook touch no connection metric and are never closed"},
		Gen: func(tier string, seed int64) []ev.Case {
			n := 300
			if tier == "thorough" {
				n = 3000
			}
			var cs []ev.Case
			for i := 0; i < n; i++ {
				cs = append(cs, ev.MkCase("hist", c18Hist{Seed: seed*7919 + int64(i), Steps: 10 + (i*7)%51, Suite: i % 9}))
			}
			return cs
		},
		Exec:    c18Exec,
		Anchors: []string{"V2Sessionless).SendCommand", "V2Session).SendCommand", "NewV2Session", "closeSession", "DialV2", "V2SessionlessTransport).Close"},
	})
}

// c18Snapshot reads every bmc_* counter and gauge.
func c18Snapshot() map[string]float64 {
	out := map[string]float64{}
	mfs, err := prometheus.DefaultGatherer.Gather()
	if err != nil {
		return out
	}
	for _, mf := range mfs {
		if !strings.HasPrefix(mf.GetName(), "bmc_") {
			continue
		}
		if mf.GetType() != dto.MetricType_COUNTER && mf.GetType() != dto.MetricType_GAUGE {
			continue
		}
		for _, m := range mf.GetMetric() {
			var ls []string
			for _, l := range m.GetLabel() {
				ls = append(ls, l.GetName()+"="+l.GetValue())
			}
			sort.Strings(ls)
			key := mf.GetName() + "{" + strings.Join(ls, ",") + "}"
			if mf.GetType() == dto.MetricType_COUNTER {
				out[key] = m.GetCounter().GetValue()
			} else {
				out[key] = m.GetGauge().GetValue()
			}
		}
	}
	return out
}

type c18Model map[string]float64

func (m c18Model) add(name string, labels string, v float64) { m[name+"{"+labels+"}"] += v }

var c18Once sync.Once

func c18Exec(run *ev.Run, c ev.Case) {
	c18Once.Do(func() {
		// the Go runtime and process collectors of the default registry are not
		// under observation and make every Gather() slow
		prometheus.Unregister(collectors.NewGoCollector())
		prometheus.Unregister(collectors.NewProcessCollector(collectors.ProcessCollectorOpts{}))
	})
	var h c18Hist
	c.Decode(&h)
	r := rng(h.Seed, "c18")
	cfg := defaultCfg(r)
	cfg.XRC4 = true
	cfg.Suites = append(append([]refbmc.Suite(nil), cfg.Suites...), refbmc.Suite{Auth: 1, Integ: 1, Conf: 2}, refbmc.Suite{Auth: 3, Integ: 4, Conf: 3})
	su := stdSuites()[h.Suite%9]
	se := NewScriptEnv(cfg, memtr.Window)
	css := &refbmc.CipherSuiteServer{Channel: 1, Data: refbmc.EncodeSuiteRecords([]refbmc.SuiteRecord{{ID: 3, Auth: 1, Integs: []byte{1}, Confs: []byte{1}}, {ID: 17, Auth: 3, Integs: []byte{4}, Confs: []byte{1}}, {ID: 0x90, OEM: true, IANA: 77, Auth: 1, Integs: []byte{1, 2, 4}, Confs: []byte{1}}})}
	scripted := se.BMC.Handler
	se.BMC.Handler = func(evn *refbmc.Event) (byte, []byte, bool) {
		if evn.NetFn == 6 && evn.Cmd == 0x54 {
			return css.Handle(evn)
		}
		return scripted(evn)
	}
	var sess *bmc.V2Session
	type udpConn struct {
		srv *udpbmc.Server
		st  *bmc.V2SessionlessTransport
	}
	var conns []udpConn
	defer func() {
		for _, u := range conns {
			u.srv.Close()
		}
	}()
	prevKind := "start"
	var trace []string
	for step := 0; step < h.Steps; step++ {
		kinds := []string{"dial-ok", "dial-bad", "open-ok", "open-wrongpw", "open-nosuite", "open-garbage", "open-unimplemented", "sl-ok", "sl-busy-ok", "sl-lost-ok", "sl-cc", "sl-ctx-done", "sl-any", "sl-any", "sl-stray-ok", "dial-odd-timeout", "sl-busy-giveup", "open-cancelled-late"}
		if len(conns) > 0 {
			kinds = append(kinds, "conn-close", "udp-session-lifecycle")
		}
		if sess != nil {
			kinds = []string{"cmd-ok", "cmd-ok", "cmd-cc", "cmd-busy-ok", "cmd-garbage-ok", "cmd-trunc", "cmd-lost", "cmd-serfail", "cmd-nobody-ok", "close-ok", "close-fail", "sl-ok", "dial-ok", "dial-bad", "cmd-ctx-done", "sl-cc", "cmd-any", "cmd-any", "cmd-any", "sl-any", "sl-stray-ok", "cmd-stray-ok", "cmd-busy-giveup", "dial-odd-timeout", "cmd-busy-ok-at-wrap"}
		}
		kind := kinds[r.Intn(len(kinds))]
		if r.Intn(70) == 0 {
			// the caller's deadline falls inside a (non-zero) back-off wait: the
			// scheduled retry is never transmitted and must not be counted
			kind = []string{"sl-deadline-in-backoff", "cmd-deadline-in-backoff"}[r.Intn(2)]
		}
		trace = append(trace, kind)
		run.Eval(1)
		before := c18Snapshot()
		model := c18Model{}
		cs := ev.MkCase("hist", h)
		lbl := func(c ipmi.CompletionCode) string { return "code=" + c.String() }
		// command helper: runs a scripted command and feeds the model
		command := func(conn bmc.Connection, cmd ipmi.Command, script []string, okBody []byte, minBody int) CallResult {
			res := se.Run(script, okBody, minBody, 0, len(script)+3, func(ctx context.Context) (ipmi.CompletionCode, error) { return conn.SendCommand(ctx, cmd) })
			model.add("bmc_command_attempts_total", "command="+cmd.Name(), 1)
			if res.Err != nil {
				model.add("bmc_command_failures_total", "command="+cmd.Name(), 1)
			}
			sends := 0
			for _, s := range res.Sends {
				if !s.CtxDone {
					sends++
				}
			}
			if sends > 1 {
				model.add("bmc_command_retries_total", "", float64(sends-1))
			}
			for i, a := range res.Attempts {
				_ = i
				switch {
				case a.Outcome == "ok", a.Outcome == "trunc":
					model.add("bmc_command_responses_total", lbl(0), 1)
				case a.Outcome == "busy":
					model.add("bmc_command_responses_total", lbl(0xc0), 1)
				case a.Outcome == "tmo":
					model.add("bmc_command_responses_total", lbl(0xc3), 1)
				case strings.HasPrefix(a.Outcome, "cc:"), strings.HasPrefix(a.Outcome, "ccb:"):
					var code byte
					fmt.Sscanf(a.Outcome[strings.Index(a.Outcome, ":")+1:], "%x", &code)
					model.add("bmc_command_responses_total", lbl(ipmi.CompletionCode(code)), 1)
				}
			}
			return res
		}
		devid := []byte{0x20, 0x81, 0x03, 0x15, 0x02, 0xbf, 0x57, 0x01, 0x00, 0x34, 0x12, 1, 2, 3, 4}
		authcaps := []byte{1, 0x80, 0x14, 0x02, 0, 0, 0, 0}
		wantPanic := false
		pv, stk := safe(func() {
			switch kind {
			case "dial-ok":
				b := refbmc.New(cfg)
				listen := udpbmc.Listen
				if r.Intn(3) == 0 {
					listen = udpbmc.ListenV6 // a BMC reached over IPv6 ("[::1]:port")
				}
				srv, err := listen(b)
				if err != nil {
					run.Inconclusive("udp listen: " + err.Error())
					return
				}
				var st *bmc.V2SessionlessTransport
				if r.Intn(2) == 0 {
					// the version-agnostic entry point (an IPMI v2.0 connection is what it makes)
					var generic bmc.SessionlessTransport
					generic, err = bmc.Dial(context.Background(), srv.Addr(), bmc.WithTimeout(200*time.Millisecond))
					if err == nil {
						st, _ = generic.(*bmc.V2SessionlessTransport)
						if st == nil {
							run.Violation("C18:dial-type", fmt.Sprintf("bmc.Dial returned a %T", generic), cs, nil)
							srv.Close()
							return
						}
					}
				} else {
					st, err = bmc.DialV2(srv.Addr(), bmc.WithTimeout(200*time.Millisecond))
				}
				model.add("bmc_connection_open_attempts_total", "version=2.0", 1)
				if err != nil {
					model.add("bmc_connection_open_failures_total", "version=2.0", 1)
					srv.Close()
					return
				}
				model.add("bmc_connections_open", "version=2.0", 1)
				conns = append(conns, udpConn{srv, st})
			case "dial-odd-timeout":
				// a dial with a zero or negative per-request timeout: whether the library accepts
				// it or refuses it, the counters have to say the same
				b := refbmc.New(cfg)
				srv, err := udpbmc.Listen(b)
				if err != nil {
					run.Inconclusive("udp listen: " + err.Error())
					return
				}
				st, err := bmc.DialV2(srv.Addr(), bmc.WithTimeout([]time.Duration{0, -time.Second, -1}[r.Intn(3)]))
				model.add("bmc_connection_open_attempts_total", "version=2.0", 1)
				if err != nil {
					model.add("bmc_connection_open_failures_total", "version=2.0", 1)
					srv.Close()
					return
				}
				model.add("bmc_connections_open", "version=2.0", 1)
				conns = append(conns, udpConn{srv, st})
			case "sl-busy-giveup", "cmd-busy-giveup":
				// the retry policy (not the caller's context) gives up while the BMC is still busy
				se2 := NewScriptEnv(cfg, memtr.Window)
				se2.ST = bmc.VerifNewV2SessionlessTransport(se2.T, 5*time.Second, backoff.WithMaxRetries(&backoff.ZeroBackOff{}, uint64(1+r.Intn(3))))
				var conn bmc.Connection = se2.ST
				hsSends := 0
				if kind == "cmd-busy-giveup" {
					ctx, cancel := bg(10 * time.Second)
					s2, err := se2.ST.NewV2Session(ctx, &bmc.V2SessionOpts{SessionOpts: bmc.SessionOpts{Username: cfg.Username, Password: cfg.Password, MaxPrivilegeLevel: ipmi.PrivilegeLevelAdministrator}, CipherSuites: []ipmi.CipherSuite{libSuite(su)}})
					cancel()
					model.add("bmc_session_open_attempts_total", "", 1)
					if err != nil {
						model.add("bmc_session_open_failures_total", "", 1)
						return
					}
					model.add("bmc_sessions_open", "", 1) // never closed: the gauge model keeps it
					conn = s2
					hsSends = se2.T.Transmissions()
				}
				var cmd ipmi.Command = &ipmi.GetDeviceIDCmd{}
				okBody := devid
				if r.Intn(2) == 0 {
					cmd, okBody = &ipmi.ChassisControlCmd{Req: ipmi.ChassisControlReq{ChassisControl: ipmi.ChassisControlPowerOn}}, nil
				}
				outcome := []string{"busy", "tmo"}[r.Intn(2)]
				st := &scriptState{script: []string{outcome, outcome, outcome, outcome, outcome, outcome, outcome, outcome}, okBody: okBody, minBody: 0}
				se2.st = st
				ctx, cancel := bg(10 * time.Second)
				_, err := conn.SendCommand(ctx, cmd)
				cancel()
				se2.st = nil
				model.add("bmc_command_attempts_total", "command="+cmd.Name(), 1)
				if err != nil {
					model.add("bmc_command_failures_total", "command="+cmd.Name(), 1)
				}
				if sends := se2.T.Transmissions() - hsSends; sends > 1 {
					model.add("bmc_command_retries_total", "", float64(sends-1))
				}
				for _, a := range st.log {
					switch a.Outcome {
					case "busy":
						model.add("bmc_command_responses_total", lbl(0xc0), 1)
					case "tmo":
						model.add("bmc_command_responses_total", lbl(0xc3), 1)
					}
				}
			case "dial-bad":
				// bad ports, and IPv6 literals without the brackets the address syntax requires
				_, err := bmc.DialV2([]string{"127.0.0.1:99999", "127.0.0.1:-1", "127.0.0.1:70000", "::1", "2001:db8::10", "fe80::1", "[::1", "::1]:623"}[r.Intn(8)])
				model.add("bmc_connection_open_attempts_total", "version=2.0", 1)
				if err != nil {
					model.add("bmc_connection_open_failures_total", "version=2.0", 1)
				} else {
					model.add("bmc_connections_open", "version=2.0", 1)
				}
			case "udp-session-lifecycle":
				// a session over a dialled connection (the production transport): opened, closed - the BMC
				// refusing the Close Session in two cases of three - and then the connection itself closed
				i := r.Intn(len(conns))
				cb := conns[i].srv.BMC
				closeCode := []byte{0x00, 0x87, 0xd4}[r.Intn(3)]
				cb.Handler = refbmc.Fixed(6, 0x3c, closeCode, nil)
				conns[i].st.SetTimeout(500 * time.Millisecond) // whatever it was dialled with
				octx, ocancel := bg(10 * time.Second)
				us, oerr := conns[i].st.NewV2Session(octx, &bmc.V2SessionOpts{SessionOpts: bmc.SessionOpts{Username: cfg.Username, Password: cfg.Password, MaxPrivilegeLevel: ipmi.PrivilegeLevelAdministrator}, CipherSuites: []ipmi.CipherSuite{libSuite(su)}})
				model.add("bmc_session_open_attempts_total", "", 1)
				if oerr != nil {
					ocancel()
					model.add("bmc_session_open_failures_total", "", 1)
					run.Inconclusive("C18: session over loopback UDP could not be opened: " + oerr.Error())
					break
				}
				model.add("bmc_sessions_open", "", 1)
				cerr := us.Close(octx)
				ocancel()
				model.add("bmc_command_attempts_total", "command=Close Session", 1)
				model.add("bmc_command_responses_total", lbl(ipmi.CompletionCode(closeCode)), 1)
				if cerr != nil {
					model.add("bmc_command_failures_total", "command=Close Session", 0) // Close goes through closeSession, which does not count a refusal as a command failure
				}
				model.add("bmc_sessions_open", "", -1)
				conns[i].st.Close()
				conns[i].srv.Close()
				conns = append(conns[:i], conns[i+1:]...)
				model.add("bmc_connections_open", "version=2.0", -1)
			case "conn-close":
				i := r.Intn(len(conns))
				conns[i].st.Close()
				conns[i].srv.Close()
				conns = append(conns[:i], conns[i+1:]...)
				model.add("bmc_connections_open", "version=2.0", -1)
			case "open-ok", "open-wrongpw", "open-nosuite", "open-garbage", "open-unimplemented", "open-cancelled-late":
				opts := &bmc.V2SessionOpts{SessionOpts: bmc.SessionOpts{Username: cfg.Username, Password: cfg.Password, MaxPrivilegeLevel: ipmi.PrivilegeLevelAdministrator}, CipherSuites: []ipmi.CipherSuite{libSuite(su)}}
				switch kind {
				case "open-wrongpw":
					opts.Password = []byte("nope")
				case "open-unimplemented":
					// the BMC completes the handshake for a suite whose confidentiality
					// algorithm the library has no implementation of
					opts.CipherSuites = []ipmi.CipherSuite{[]ipmi.CipherSuite{{AuthenticationAlgorithm: 1, IntegrityAlgorithm: 1, ConfidentialityAlgorithm: 2}, {AuthenticationAlgorithm: 3, IntegrityAlgorithm: 4, ConfidentialityAlgorithm: 3}}[r.Intn(2)]}
				case "open-nosuite":
					opts.CipherSuites = []ipmi.CipherSuite{{AuthenticationAlgorithm: 2, IntegrityAlgorithm: 2, ConfidentialityAlgorithm: 1}, {AuthenticationAlgorithm: 2, IntegrityAlgorithm: 1, ConfidentialityAlgorithm: 1}}
					n := len(css.Data)/16 + 1
					model.add("bmc_command_attempts_total", "command=Get Channel Cipher Suites", float64(n))
					model.add("bmc_command_responses_total", lbl(0), float64(n))
				case "open-garbage":
					se.Filter2 = func(req, reply []byte) []byte {
						if len(req) > 5 && req[5]&0x3f == 0x12 {
							return []byte{6, 0, 0xff, 7, 6, 0x13}
						}
						return reply
					}
				}
				ctx, cancel := se.LimitCtx(8)
				if kind == "open-cancelled-late" {
					// the caller gives up while the last handshake exchange is in flight; the BMC's
					// (valid) RAKP Message 4 still arrives. Whether that open counts as made or as
					// failed is the library's choice - the counters have to agree with its answer.
					se.Filter2 = func(req, reply []byte) []byte {
						if len(req) > 5 && req[5]&0x3f == 0x14 {
							cancel()
						}
						return reply
					}
				}
				s, err := se.ST.NewV2Session(ctx, opts)
				cancel()
				se.Filter2 = nil
				model.add("bmc_session_open_attempts_total", "", 1)
				if err != nil {
					model.add("bmc_session_open_failures_total", "", 1)
				} else {
					model.add("bmc_sessions_open", "", 1)
					sess = s
				}
				if kind != "open-cancelled-late" && (kind == "open-ok") != (err == nil) {
					run.Violation("C18:harness-open", fmt.Sprintf("step %s: err=%v", kind, err), cs, nil)
				}
			case "sl-deadline-in-backoff", "cmd-deadline-in-backoff":
				se2 := NewScriptEnv(cfg, memtr.Window)
				se2.ST = bmc.VerifNewV2SessionlessTransport(se2.T, 5*time.Second, backoff.NewConstantBackOff(3*time.Second))
				var conn bmc.Connection = se2.ST
				if kind == "cmd-deadline-in-backoff" {
					ctx, cancel := bg(10 * time.Second)
					s2, err := se2.ST.NewV2Session(ctx, &bmc.V2SessionOpts{SessionOpts: bmc.SessionOpts{Username: cfg.Username, Password: cfg.Password, MaxPrivilegeLevel: ipmi.PrivilegeLevelAdministrator}, CipherSuites: []ipmi.CipherSuite{libSuite(su)}})
					cancel()
					model.add("bmc_session_open_attempts_total", "", 1)
					if err != nil {
						model.add("bmc_session_open_failures_total", "", 1)
						return
					}
					model.add("bmc_sessions_open", "", 1) // never closed: the gauge model keeps it
					conn = s2
				}
				outcome := []string{"busy", "garbage:noise", "tmo"}[r.Intn(3)]
				cmd := &ipmi.GetDeviceIDCmd{}
				st := &scriptState{script: []string{outcome, outcome, outcome}, okBody: devid, minBody: 11}
				se2.st = st
				ctx, cancel := context.WithTimeout(context.Background(), 15*time.Millisecond)
				_, err := conn.SendCommand(ctx, cmd)
				cancel()
				se2.st = nil
				model.add("bmc_command_attempts_total", "command="+cmd.Name(), 1)
				if err != nil {
					model.add("bmc_command_failures_total", "command="+cmd.Name(), 1)
				}
				sends := se2.T.Transmissions()
				if kind == "cmd-deadline-in-backoff" {
					sends -= 3 // the handshake
				}
				if sends > 1 {
					model.add("bmc_command_retries_total", "", float64(sends-1))
				}
				for _, a := range st.log {
					switch a.Outcome {
					case "busy":
						model.add("bmc_command_responses_total", lbl(0xc0), 1)
					case "tmo":
						model.add("bmc_command_responses_total", lbl(0xc3), 1)
					}
				}
				if sends != 1 || err == nil {
					run.Observe("deadline-in-backoff-step-not-as-intended", 1)
				}
			case "sl-ok":
				command(se.ST, &ipmi.GetChannelAuthenticationCapabilitiesCmd{}, nil, authcaps, 8)
			case "sl-stray-ok":
				// replies to other commands (late duplicates) arrive first; they are not responses to this call
				command(se.ST, &ipmi.GetSystemGUIDCmd{}, [][]string{{"stray:othercmd"}, {"stray:othercmd", "stray:othercmd"}, {"busy", "stray:othercmd"}, {"garbage:reflect"}, {"busy", "garbage:nomsg"}, {"tmo", "garbage:nomsg", "garbage:nomsg"}, {"garbage:nomsg", "busy"}}[r.Intn(7)], make([]byte, 16), 16)
			case "cmd-stray-ok":
				command(sess, &ipmi.GetDeviceIDCmd{}, [][]string{{"stray:othercmd"}, {"stray:othercmd", "busy"}, {"unauth"}, {"othersid"}, {"garbage:reflect"}}[r.Intn(5)], devid, 11)
			case "sl-busy-ok":
				command(se.ST, &ipmi.GetChannelAuthenticationCapabilitiesCmd{}, []string{"busy", "tmo"}[:1+r.Intn(2)], authcaps, 8)
			case "sl-lost-ok":
				command(se.ST, &ipmi.GetSystemGUIDCmd{}, []string{"lost", "garbage:chk", "lost"}[:1+r.Intn(3)], make([]byte, 16), 16)
			case "sl-cc":
				code := []int{0xc1, 0xd4, 0xff, 0x80, 0xfe, 0x01, r.Intn(256)}[r.Intn(7)]
				if code == 0xc0 || code == 0xc3 || code == 0 {
					code = 0xff
				}
				command(se.ST, &ipmi.GetSystemGUIDCmd{}, []string{fmt.Sprintf("cc:%02x", code)}, make([]byte, 16), 16)
			case "cmd-any", "sl-any":
				// any of the library's commands, several of which share one NetFn/command pair under different names
				var g genCmd
				for {
					g = genCommand(r, cmdKinds[r.Intn(len(cmdKinds))], 6)
					if !g.SerFail && g.Label != "close" && g.Label != "setpriv" && g.Label != "ciphersuites" {
						break
					}
				}
				trace[len(trace)-1] += "(" + g.Label + ")"
				var conn bmc.Connection = se.ST
				if kind == "cmd-any" {
					conn = sess
				}
				command(conn, g.Cmd, [][]string{nil, nil, {"cc:c1"}, {"busy"}, {"ccb:d4"}}[r.Intn(5)], g.OkBody, 0)
			case "cmd-ok":
				command(sess, &ipmi.GetDeviceIDCmd{}, nil, devid, 11)
			case "cmd-nobody-ok":
				command(sess, &ipmi.ChassisControlCmd{Req: ipmi.ChassisControlReq{ChassisControl: ipmi.ChassisControlPowerOn}}, []string{"ccb:d5"}[:r.Intn(2)], nil, 0)
			case "cmd-cc":
				code := []int{0xd4, 0xc1, 0xcc, 0xff, 0x01, 0x7f, 0x80, 0xc5, 0xc9, 0xfe, r.Intn(256)}[r.Intn(11)]
				if code == 0xc0 || code == 0xc3 || code == 0 {
					code = 0xff
				}
				command(sess, &ipmi.GetDeviceIDCmd{}, []string{fmt.Sprintf("%s:%02x", []string{"cc", "ccb"}[r.Intn(2)], code)}, devid, 11)
			case "cmd-ctx-done", "sl-ctx-done":
				// the caller's context is already over: an attempt that fails without anything being transmitted
				var conn bmc.Connection = se.ST
				if kind == "cmd-ctx-done" {
					conn = sess
				}
				cmd := &ipmi.GetDeviceIDCmd{}
				ctx, cancel := context.WithCancel(context.Background())
				cancel()
				before := se.T.Transmissions()
				_, err := conn.SendCommand(ctx, cmd)
				model.add("bmc_command_attempts_total", "command="+cmd.Name(), 1)
				if err != nil {
					model.add("bmc_command_failures_total", "command="+cmd.Name(), 1)
				}
				if n := se.T.Transmissions() - before; n > 1 {
					model.add("bmc_command_retries_total", "", float64(n-1))
				}
				if err == nil {
					run.Violation("C18:harness-ctx-done", "command with a cancelled context succeeded", cs, nil)
				}
			case "cmd-busy-ok-at-wrap":
				// a session that has carried 2^32 - k datagrams: the exported counter is put just below
				// its wrap (and the BMC's duplicate window moved along), so that the retransmissions
				// of one call straddle 0xffffffff -> 0
				sess.AuthenticatedSequenceNumbers.Inbound = 0xffffffff - uint32(r.Intn(4))
				se.BMC.ForgetSequenceNumbers()
				command(sess, &ipmi.GetChassisStatusCmd{}, []string{"busy", "tmo", "busy", "garbage:noise"}[:2+r.Intn(3)], []byte{0x21, 0x10, 0x40, 0x54}, 3)
			case "cmd-busy-ok":
				command(sess, &ipmi.GetChassisStatusCmd{}, []string{"busy", "tmo", "busy"}[:1+r.Intn(3)], []byte{0x21, 0x10, 0x40, 0x54}, 3)
			case "cmd-garbage-ok":
				command(sess, &ipmi.GetDeviceIDCmd{}, []string{"garbage:noise", "badsig", "garbage:authmsg"}[:1+r.Intn(3)], devid, 11)
			case "cmd-trunc":
				command(sess, &ipmi.GetDeviceIDCmd{}, []string{"trunc"}, devid, 11)
			case "cmd-lost":
				command(sess, &ipmi.GetDeviceIDCmd{}, []string{"busy", "lost"}[r.Intn(2):], devid, 11)
			case "cmd-serfail":
				command(sess, &ipmi.SetSessionPrivilegeLevelCmd{Req: ipmi.SetSessionPrivilegeLevelReq{PrivilegeLevel: ipmi.PrivilegeLevelCallback}}, nil, []byte{2}, 1)
			case "close-ok", "close-fail":
				script := []string(nil)
				if kind == "close-fail" {
					script = []string{"cc:87"}
				}
				res := se.Run(script, nil, 0, 0, 4, func(ctx context.Context) (ipmi.CompletionCode, error) { return 0, sess.Close(ctx) })
				model.add("bmc_command_attempts_total", "command=Close Session", 1)
				code := ipmi.CompletionCode(0)
				if kind == "close-fail" {
					code = 0x87
				}
				model.add("bmc_command_responses_total", lbl(code), 1)
				model.add("bmc_sessions_open", "", -1)
				if (res.Err != nil) != (kind == "close-fail") {
					run.Violation("C18:harness-close", fmt.Sprintf("step %s: err=%v", kind, res.Err), cs, nil)
				}
				sess = nil
				if se.BMC.Sess != nil {
					se.BMC.Sess.Active = false
				}
			}
		})
		if pv != nil && !wantPanic {
			run.Violation("C18:panic:"+panicSite(stk), fmt.Sprintf("step %d (%s): %v\n%s", step, kind, pv, trimStack(stk)), cs, nil)
			return
		}
		after := c18Snapshot()
		changed := false
		keys := map[string]bool{}
		for k := range before {
			keys[k] = true
		}
		for k := range after {
			keys[k] = true
		}
		for k := range model {
			keys[k] = true
		}
		var diffs []string
		for k := range keys {
			d := after[k] - before[k]
			if d != 0 {
				changed = true
			}
			if d != model[k] {
				diffs = append(diffs, fmt.Sprintf("%s changed by %v, model says %v", k, d, model[k]))
			}
		}
		run.Event("metric-snapshots", 2)
		if changed {
			run.Nontrivial(kind + "<-" + prevKind)
		}
		if len(diffs) > 0 {
			sort.Strings(diffs)
			name := strings.SplitN(diffs[0], "{", 2)[0]
			run.Violation("C18:"+kind+":"+name, fmt.Sprintf("history seed %d step %d (%s after %v): %v", h.Seed, step, kind, trace, diffs), cs, nil)
			return
		}
		prevKind = kind
	}
	run.Nontrivial(strings.Join(trace, ","))
	if h.Steps%10 == 0 {
		run.Sample("history", map[string]any{"seed": h.Seed, "steps": trace})
	}
}
