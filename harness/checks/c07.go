package checks

import (
	"bytes"
	"fmt"
	"math/rand"
	"sort"
	"strings"
	"time"

	"verifharness/ev"
	"verifharness/memtr"
	"verifharness/mon"
	"verifharness/refbmc"
	"verifharness/refcodec"

	"github.com/gebn/bmc"
	"github.com/gebn/bmc/pkg/dcmi"
	"github.com/gebn/bmc/pkg/ipmi"
	"github.com/google/gopacket"
)

type c07Batch struct {
	What  string // random | fsr-sweep | idstrings | reject | api
	Layer string
	Seed  int64
	Count int
}

type c07One struct {
	Layer string
	Hex   string
	Seed  int64 // regenerates the expected value (Gen is deterministic per seed)
	Index int
}

func init() {
	register(&Check{
		ID:    "C07",
		Level: "exploration",
		Rule: "for each response layer, value assignments are drawn over the wire domain (every flag independent, every optional-tail form, DCMI versions 1.0/1.1/1.5), encoded by the independent refcodec encoders and decoded by the library into a fresh layer; every exported field must equal the assignment. " +
			"Full Sensor Record sweeps all 1024 values of M, B, accuracy, all 16 exponent values, tolerance 0..63 and ID strings in all four type codes for every length 0..31 with every code of the encoding at every position (8-bit: boundary codes). " +
			"Rejection: every wrong value of each message checksum, wrapper lengths exceeding the data, and every prefix shorter than the layer's minimum. The same values are also fetched through the high-level API over a session. " +
			"non-trivial = encode+decode+compare ran; distinct = distinct (layer, branch, structural class)",
		Assumptions: []string{
			"refcodec follows the library's documented interpretation where the specification is under-determined (SDR version nibble order, DCMI SEL entries, Unicode type decoded as Latin-1)",
			"a length of 1 in the 8-bit ID string encodings is reserved and not generated",
		},
		Gen: func(tier string, seed int64) []ev.Case {
			n := 6000
			if tier == "thorough" {
				n = 150000
			}
			var cs []ev.Case
			for _, sp := range specs() {
				if sp.Name == "AES128CBC" {
					continue
				}
				for i := 0; i < n; i += 6000 {
					cs = append(cs, ev.MkCase("batch", c07Batch{What: "random", Layer: sp.Name, Seed: seed*31 + int64(i), Count: 6000}))
				}
				cs = append(cs, ev.MkCase("batch", c07Batch{What: "reject", Layer: sp.Name, Seed: seed}))
			}
			cs = append(cs, ev.MkCase("batch", c07Batch{What: "fsr-sweep", Seed: seed}))
			for enc := 0; enc < 4; enc++ {
				cs = append(cs, ev.MkCase("batch", c07Batch{What: "idstrings", Seed: seed, Count: enc}))
			}
			cs = append(cs, ev.MkCase("batch", c07Batch{What: "reject-wrapper", Seed: seed}))
			na := 40
			if tier == "thorough" {
				na = 1500
			}
			for su := 0; su < 3; su++ {
				cs = append(cs, ev.MkCase("batch", c07Batch{What: "api", Seed: seed + int64(su), Count: na}))
				cs = append(cs, ev.MkCase("batch", c07Batch{What: "packet", Seed: seed*13 + int64(su), Count: na}))
			}
			return cs
		},
		Exec: c07Exec,
		Anchors: []string{"GetDeviceIDRsp).DecodeFromBytes", "GetChassisStatusRsp).DecodeFromBytes", "GetChannelAuthenticationCapabilitiesRsp).DecodeFromBytes", "GetSessionInfoRsp).DecodeFromBytes",
			"GetSDRRepositoryInfoRsp).DecodeFromBytes", "GetSensorReadingRsp).DecodeFromBytes", "FullSensorRecord).DecodeFromBytes", "SDR).DecodeFromBytes", "OpenSessionRsp).DecodeFromBytes",
			"RAKPMessage2).DecodeFromBytes", "RAKPMessage4).DecodeFromBytes", "GetPowerReadingRsp).DecodeFromBytes", "GetDCMISensorInfoRsp).DecodeFromBytes", "Message).DecodeFromBytes"},
	})
}

// valueFields renders the decoded-value fields of a layer (everything except
// the BaseLayer byte windows).
func valueFields(v any) map[string]string {
	f := mon.Fields(v)
	for k := range f {
		if strings.HasPrefix(k, "BaseLayer") {
			delete(f, k)
		}
	}
	return f
}

func fieldDiff(got, want map[string]string) []string {
	var d []string
	for k, w := range want {
		if g, ok := got[k]; !ok || g != w {
			d = append(d, fmt.Sprintf("%s: decoded %s, encoded value %s", k, got[k], w))
		}
	}
	sort.Strings(d)
	return d
}

// c07Reused holds one long-lived layer per (goroutine batch, layer): the
// zero-allocation usage pattern decodes every response into the same value.
type c07Reused map[string]decodable

// c07Held remembers, per layer type, the value decoded one step earlier into
// its own fresh layer (kept by a caller) together with what it must contain.
type c07Held struct {
	l    decodable
	want any
	enc  []byte
}

var c07HeldKey = "\x00held:"

// c07HeldLayer lets a c07Held sit in the c07Reused map (it is never decoded into).
type c07HeldLayer struct{ c07Held }

func (*c07HeldLayer) DecodeFromBytes([]byte, gopacket.DecodeFeedback) error { return nil }

func c07Compare(run *ev.Run, sp *layerSpec, enc []byte, want any, branch string, cs ev.Case, class string) {
	c07CompareIn(run, sp, enc, want, branch, cs, class, nil)
}

func c07CompareIn(run *ev.Run, sp *layerSpec, enc []byte, want any, branch string, cs ev.Case, class string, reused c07Reused) {
	if reused != nil {
		l, ok := reused[sp.Name]
		if !ok {
			l = sp.New()
			reused[sp.Name] = l
		}
		var err error
		pv, _ := safe(func() { err = l.DecodeFromBytes(exactCopy(enc), gopacket.NilDecodeFeedback) })
		if pv == nil && err == nil {
			if d := fieldDiff(valueFields(l), valueFields(want)); len(d) > 0 {
				first := strings.SplitN(d[0], ":", 2)[0]
				run.Violation("C07:"+sp.Name+":field-on-reused-layer:"+first, fmt.Sprintf("%s decoded %x (branch %s) into a layer used before with wrong fields: %v", sp.Name, enc, branch, d), cs, nil)
				return
			}
		}
	}
	run.Eval(1)
	run.Event("decodes-compared", 1)
	l := sp.New()
	var err error
	pv, st := safe(func() { err = l.DecodeFromBytes(exactCopy(enc), gopacket.NilDecodeFeedback) })
	run.Nontrivial(fmt.Sprintf("%s|%s|%s", sp.Name, branch, class))
	if pv != nil {
		run.Violation("C07:"+sp.Name+":panic", fmt.Sprintf("%s panicked on valid encoding %x: %v\n%s", sp.Name, enc, pv, trimStack(st)), cs, nil)
		return
	}
	if err != nil {
		key := "C07:" + sp.Name + ":valid-encoding-rejected"
		if sp.Name == "FullSensorRecord" && len(enc) == 43 && (enc[42]>>6 == 3 || enc[42]>>6 == 0) {
			key = "C07:FullSensorRecord:zero-length-8bit-id"
		}
		run.Violation(key, fmt.Sprintf("%s rejected the valid encoding %x (branch %s): %v", sp.Name, enc, branch, err), cs, nil)
		return
	}
	if d := fieldDiff(valueFields(l), valueFields(want)); len(d) > 0 {
		first := strings.SplitN(d[0], ":", 2)[0]
		run.Violation("C07:"+sp.Name+":field:"+first, fmt.Sprintf("%s decoded %x (branch %s) with wrong fields: %v", sp.Name, enc, branch, d), cs, nil)
		return
	}
	if reused != nil {
		// a value decoded earlier into a layer of its own still holds what it held
		if h, ok := reused[c07HeldKey+sp.Name].(*c07HeldLayer); ok {
			if d := fieldDiff(valueFields(h.l), valueFields(h.want)); len(d) > 0 {
				first := strings.SplitN(d[0], ":", 2)[0]
				run.Violation("C07:"+sp.Name+":earlier-value-changed:"+first, fmt.Sprintf("%s: the value decoded from %x into its own layer changed when %x was decoded into another layer: %v", sp.Name, h.enc, enc, d), cs, nil)
				return
			}
		}
		reused[c07HeldKey+sp.Name] = &c07HeldLayer{c07Held{l: l, want: want, enc: enc}}
	}
	// trailing payload where the layer defines one
	switch sp.Name {
	case "FullSensorRecord":
		fsr := l.(*ipmi.FullSensorRecord)
		// the record ends with its ID string: type/length byte 42, then 1 byte per character
		// (8-bit encodings), a nibble (BCD plus) or 6 bits (packed ASCII), rounded up
		chars := int(enc[42] & 0x1f)
		idBytes := map[byte]int{0: chars, 1: (chars + 1) / 2, 2: (chars*6 + 7) / 8, 3: chars}[enc[42]>>6]
		end := 43 + idBytes
		if end > len(enc) || len(fsr.LayerContents()) != end || !bytes.Equal(fsr.LayerPayload(), enc[end:]) {
			run.Violation("C07:FullSensorRecord:extent", fmt.Sprintf("record %x (branch %s, %d ID string bytes): the layer claims %d bytes and leaves %x as payload, the record is %d bytes followed by %x", enc, branch, idBytes, len(fsr.LayerContents()), fsr.LayerPayload(), end, enc[min(end, len(enc)):]), cs, nil)
			return
		}
		if reused != nil {
			// the record cut anywhere inside its ID string is shorter than it says it is
			for cut := 43; cut < end; cut++ {
				t := sp.New()
				var terr error
				pv, _ := safe(func() { terr = t.DecodeFromBytes(exactCopy(enc[:cut]), gopacket.NilDecodeFeedback) })
				if pv == nil && terr == nil {
					run.Violation("C07:FullSensorRecord:short-body-accepted", fmt.Sprintf("record %x cut to %d of its %d bytes (inside the ID string) decoded without error", enc, cut, len(enc)), cs, nil)
					return
				}
			}
		}
	case "GetSDRRsp":
		if p := l.(*ipmi.GetSDRRsp).LayerPayload(); !bytes.Equal(p, enc[2:]) {
			run.Violation("C07:GetSDRRsp:payload", fmt.Sprintf("record data %x, want %x", p, enc[2:]), cs, nil)
		}
	case "SDR":
		if p := l.(*ipmi.SDR).LayerPayload(); !bytes.Equal(p, enc[5:]) {
			run.Violation("C07:SDR:payload", fmt.Sprintf("record body %x, want %x", p, enc[5:]), cs, nil)
		}
	case "V1Session", "V2Session", "Message":
		type payloader interface{ LayerPayload() []byte }
		p := l.(payloader).LayerPayload()
		var wantP []byte
		switch sp.Name {
		case "V1Session":
			off := 10
			if enc[0] != 0 {
				off = 26
			}
			wantP = enc[off:]
		case "V2Session":
			off := 12
			if enc[1]&0x3f == 2 {
				off = 18
			}
			wantP = enc[off:]
		case "Message":
			m := want.(*ipmi.Message)
			off := 6
			if !m.Function.IsRequest() {
				off++
			}
			switch m.Function {
			case 0x2c, 0x2d:
				off++
			case 0x2e, 0x2f:
				off += 3
			}
			wantP = enc[off : len(enc)-1]
		}
		if !bytes.Equal(p, wantP) {
			run.Violation("C07:"+sp.Name+":payload", fmt.Sprintf("inner payload %x, want %x (encoding %x)", p, wantP, enc), cs, nil)
		}
	}
}

func c07Exec(run *ev.Run, c ev.Case) {
	switch c.Kind {
	case "one":
		var o c07One
		c.Decode(&o)
		sp := specByName(o.Layer)
		r := rng(o.Seed, "c07"+o.Layer)
		reused := c07Reused{}
		for i := 0; i <= o.Index; i++ {
			enc, want, br := sp.Gen(r)
			c07CompareIn(run, sp, enc, want, br, c, "replay", reused)
		}
	case "batch":
		var b c07Batch
		c.Decode(&b)
		switch b.What {
		case "random":
			sp := specByName(b.Layer)
			r := rng(b.Seed, "c07"+b.Layer)
			reused := c07Reused{}
			for i := 0; i < b.Count; i++ {
				enc, want, br := sp.Gen(r)
				c07CompareIn(run, sp, enc, want, br, ev.MkCase("one", c07One{Layer: b.Layer, Seed: b.Seed, Index: i}), fmt.Sprint(len(enc)%8), reused)
				if i == 0 {
					run.Sample(sp.Name, map[string]any{"layer": sp.Name, "encoding": ev.Hex(enc), "branch": br, "value": valueFields(want)})
				}
			}
		case "reject":
			c07Reject(run, specByName(b.Layer), b.Seed, c)
		case "reject-wrapper":
			c07RejectWrapper(run, b.Seed, c)
		case "fsr-sweep":
			c07FSRSweep(run, b.Seed, c)
		case "idstrings":
			c07IDStrings(run, byte(b.Count), b.Seed, c)
		case "api":
			c07API(run, b.Seed, b.Count, c)
		case "packet":
			c07Packet(run, b.Seed, b.Count, c)
		}
	}
}

func c07Reject(run *ev.Run, sp *layerSpec, seed int64, cs ev.Case) {
	r := rng(seed, "c07reject"+sp.Name)
	for k := 0; k < 6; k++ {
		enc, _, br := sp.Gen(r)
		for n := 0; n < sp.MinLen && n <= len(enc); n++ {
			run.Eval(1)
			in := append([]byte(nil), enc[:n]...)
			if sp.FixUp != nil {
				in = sp.FixUp(in)
			}
			l := sp.New()
			var err error
			pv, _ := safe(func() { err = l.DecodeFromBytes(exactCopy(in), gopacket.NilDecodeFeedback) })
			run.Nontrivial(fmt.Sprintf("%s|short|%d", sp.Name, n))
			if pv == nil && err == nil {
				run.Violation("C07:"+sp.Name+":short-body-accepted", fmt.Sprintf("%s accepted %d bytes %x although its minimum is %d (branch %s)", sp.Name, n, in, sp.MinLen, br), ev.MkCase("batch", c07Batch{What: "reject", Layer: sp.Name, Seed: seed}), nil)
				return
			}
		}
	}
	if okMin, errMin := map[string]int{"OpenSessionRsp": 36, "RAKPMessage2": 40, "RAKPMessage4": 8}[sp.Name], map[string]int{"OpenSessionRsp": 7, "RAKPMessage2": 8, "RAKPMessage4": 8}[sp.Name]; okMin > 0 {
		// every length below the successful form's size, with a successful and
		// with failing status codes: the status decides which minimum applies
		for n := 0; n < okMin+4; n++ {
			for _, status := range []byte{0, 0, 1, 0x12, 0xff} {
				in := rbytes(r, n)
				must := "" // "" = either, "reject"
				statusAt := 1
				if sp.Name == "OpenSessionRsp" && n == 1 {
					statusAt = 0 // the one-byte form some BMCs use for refusals
				}
				if n > statusAt {
					in[statusAt] = status
				}
				switch {
				case n == 0, n < errMin && !(sp.Name == "OpenSessionRsp" && n == 1):
					must = "reject"
				case status == 0 && n < okMin:
					must = "reject"
				}
				run.Eval(1)
				l := sp.New()
				var err error
				pv, _ := safe(func() { err = l.DecodeFromBytes(exactCopy(in), gopacket.NilDecodeFeedback) })
				run.Nontrivial(fmt.Sprintf("%s|status-length|%d|%v", sp.Name, n, status == 0))
				if must == "reject" && pv == nil && err == nil {
					run.Violation("C07:"+sp.Name+":short-body-accepted", fmt.Sprintf("%s accepted %d bytes %x (status %#x): shorter than the %d bytes of a successful message / %d of a refusal", sp.Name, n, in, status, okMin, errMin), ev.MkCase("batch", c07Batch{What: "reject", Layer: sp.Name, Seed: seed}), nil)
					return
				}
				if must == "" && status != 0 && (pv != nil || err != nil) {
					run.Violation("C07:"+sp.Name+":refusal-not-decoded", fmt.Sprintf("%s did not decode the %d-byte refusal %x (status %#x): panic=%v err=%v", sp.Name, n, in, status, pv, err), ev.MkCase("batch", c07Batch{What: "reject", Layer: sp.Name, Seed: seed}), nil)
					return
				}
			}
		}
	}
	if sp.Name != "Message" {
		return
	}
	// group-extension and OEM messages carry a body code / enterprise number after the
	// command (and completion code): every length around their minimum, checksums valid
	for _, nf := range []byte{0x2c, 0x2d, 0x2e, 0x2f, 0x06, 0x07} {
		for n := 6; n <= 12; n++ {
			m := rbytes(r, n)
			m[1] = nf<<2 | m[1]&3
			m = fixMsgChecksums(m)
			min := 7 // rsAddr netFn chk rqAddr rqSeq cmd chk
			if nf&1 == 1 {
				min++ // completion code
			}
			switch nf &^ 1 {
			case 0x2c:
				min++
			case 0x2e:
				min += 3
			}
			run.Eval(1)
			var msg ipmi.Message
			var err error
			pv, st := safe(func() { err = msg.DecodeFromBytes(exactCopy(m), gopacket.NilDecodeFeedback) })
			run.Nontrivial(fmt.Sprintf("Message|netfn-min|%#x|%d", nf, n))
			if pv != nil {
				run.Violation("C07:Message:panic", fmt.Sprintf("NetFn %#x message of %d bytes %x (checksums valid): %v\n%s", nf, n, m, pv, trimStack(st)), cs, nil)
				return
			}
			if n < min && err == nil {
				run.Violation("C07:Message:short-body-accepted", fmt.Sprintf("NetFn %#x message of %d bytes %x decoded without error; the shortest message of that kind has %d bytes", nf, n, m, min), cs, nil)
				return
			}
			if n >= min && err != nil {
				run.Violation("C07:Message:valid-encoding-rejected", fmt.Sprintf("NetFn %#x message of %d bytes %x (checksums valid, minimum %d) rejected: %v", nf, n, m, min, err), cs, nil)
				return
			}
		}
	}
	// both checksums wrong at once, with the two errors cancelling modulo 256, and byte transpositions across the two blocks
	for k := 0; k < 40; k++ {
		enc, _, _ := sp.Gen(r)
		for d := 1; d < 256; d += 1 + k%3 {
			variants := [][]byte{}
			a := append([]byte(nil), enc...)
			a[2] += byte(d)
			a[len(a)-1] -= byte(d)
			variants = append(variants, a)
			b2 := append([]byte(nil), enc...)
			b2[1] += byte(d) // a byte under checksum 1 ...
			b2[5] -= byte(d) // ... and one under checksum 2
			variants = append(variants, b2)
			c2 := append([]byte(nil), enc...)
			c2[0] += byte(d)
			c2[len(c2)-1] -= byte(d)
			variants = append(variants, c2)
			for vi, in := range variants {
				run.Eval(1)
				var m ipmi.Message
				err := m.DecodeFromBytes(in, gopacket.NilDecodeFeedback)
				run.Nontrivial(fmt.Sprintf("Message|compensating|%d|%d", vi, d%16))
				if err == nil {
					run.Violation("C07:Message:compensating-checksum-errors-accepted", fmt.Sprintf("message %x (derived from %x by two changes that cancel modulo 256) decoded without error", in, enc), cs, nil)
					return
				}
			}
		}
		if len(enc) > 4 && enc[2] != enc[3] {
			in := append([]byte(nil), enc...)
			in[2], in[3] = in[3], in[2]
			run.Eval(1)
			var m ipmi.Message
			if err := m.DecodeFromBytes(in, gopacket.NilDecodeFeedback); err == nil {
				run.Violation("C07:Message:compensating-checksum-errors-accepted", fmt.Sprintf("message %x with checksum 1 and the following byte transposed decoded without error", in), cs, nil)
				return
			}
		}
	}
	// every wrong value of each checksum
	for k := 0; k < 8; k++ {
		enc, _, _ := sp.Gen(r)
		for _, idx := range []int{2, len(enc) - 1} {
			good := enc[idx]
			for v := 0; v < 256; v++ {
				if byte(v) == good {
					continue
				}
				run.Eval(1)
				in := append([]byte(nil), enc...)
				in[idx] = byte(v)
				var m ipmi.Message
				err := m.DecodeFromBytes(in, gopacket.NilDecodeFeedback)
				run.Nontrivial(fmt.Sprintf("Message|checksum|%d|%d", idx == 2, v))
				if err == nil {
					run.Violation("C07:Message:bad-checksum-accepted", fmt.Sprintf("message %x with checksum byte %d = %#x (correct %#x) decoded without error", in, idx, v, good), cs, nil)
					return
				}
			}
		}
	}
}

func c07RejectWrapper(run *ev.Run, seed int64, cs ev.Case) {
	r := rng(seed, "c07wrapper")
	sp := specByName("V2Session")
	for k := 0; k < 200; k++ {
		enc, _, _ := sp.Gen(r)
		off := 10
		if enc[1]&0x3f == 2 {
			off = 16
		}
		l := int(enc[off]) | int(enc[off+1])<<8
		for _, d := range []int{1, 2, 3, 255, 0xffff - l} {
			run.Eval(1)
			in := append([]byte(nil), enc...)
			nl := l + d
			in[off], in[off+1] = byte(nl), byte(nl>>8)
			var s ipmi.V2Session
			err := s.DecodeFromBytes(in, gopacket.NilDecodeFeedback)
			run.Nontrivial(fmt.Sprintf("V2Session|length+%d", d))
			if err == nil {
				run.Violation("C07:V2Session:overlong-length-accepted", fmt.Sprintf("wrapper %x whose length field (%d) exceeds the %d payload bytes present decoded without error", in, nl, l), cs, nil)
				return
			}
		}
	}
	// composed: a whole datagram through the library's own decoding chain must fail too
	for k := 0; k < 50; k++ {
		msg := refbmc.BuildRsp(0x81, 7, 0, 0x20, 1, 0, 0x38, 0, rbytes(r, 8))
		d := refbmc.RMCP(refbmc.SessHdr(0, 0, 0, msg))
		d[14] += byte(1 + r.Intn(3))
		run.Eval(1)
		p := gopacket.NewPacket(d, layersRMCP(), gopacket.Default)
		if p.ErrorLayer() == nil && p.Layer(ipmi.LayerTypeMessage) != nil {
			run.Violation("C07:V2Session:overlong-length-accepted", fmt.Sprintf("datagram %x with over-long wrapper length decoded down to a message", d), cs, nil)
			return
		}
	}
}

func c07FSRSweep(run *ev.Run, seed int64, cs ev.Case) {
	sp := specByName("FullSensorRecord")
	r := rng(seed, "c07fsrsweep")
	one := func(mod func(v *ipmi.FullSensorRecord), class string) {
		enc, v, _ := genFSR(r, 3, 4)
		// re-encode with the modification applied
		mod(v)
		tl, idb := refcodec.IDString(3, []rune(v.Identity))
		enc = refcodec.FullSensorRecord(v, tl, idb, rbytes(r, 43))
		c07Compare(run, sp, enc, v, "sweep", cs, class)
	}
	for x := -512; x < 512; x++ {
		x := x
		one(func(v *ipmi.FullSensorRecord) { v.M = int16(x) }, fmt.Sprintf("M=%d", x))
		one(func(v *ipmi.FullSensorRecord) { v.B = int16(x) }, fmt.Sprintf("B=%d", x))
		one(func(v *ipmi.FullSensorRecord) { v.Accuracy = int16(x) }, fmt.Sprintf("Acc=%d", x))
	}
	for x := -8; x < 8; x++ {
		for y := -8; y < 8; y++ {
			x, y := x, y
			one(func(v *ipmi.FullSensorRecord) { v.RExp, v.BExp = int8(x), int8(y) }, fmt.Sprintf("exp=%d,%d", x, y))
		}
	}
	for x := 0; x < 64; x++ {
		x := x
		one(func(v *ipmi.FullSensorRecord) { v.Tolerance = uint8(x) }, fmt.Sprintf("tol=%d", x))
	}
	for x := 0; x < 128; x++ {
		x := x
		one(func(v *ipmi.FullSensorRecord) { v.Linearisation = ipmi.Linearisation(x) }, fmt.Sprintf("lin=%d", x))
		one(func(v *ipmi.FullSensorRecord) { v.Instance = ipmi.EntityInstance(x) }, fmt.Sprintf("inst=%d", x))
	}
}

func c07IDStrings(run *ev.Run, enc byte, seed int64, cs ev.Case) {
	sp := specByName("FullSensorRecord")
	r := rng(seed, "c07ids")
	var codes []rune
	switch enc {
	case 1:
		codes = []rune("0123456789 -.:,_")
	case 2:
		for c := 0; c < 64; c++ {
			codes = append(codes, rune(0x20+c))
		}
	default:
		codes = []rune{0x00, 0x01, 0x1f, 0x20, 0x41, 0x7e, 0x7f, 0x80, 0xa0, 0xe9, 0xff}
	}
	for n := 0; n <= 31; n++ {
		if (enc == 0 || enc == 3) && n == 1 {
			continue
		}
		positions := n
		if n == 0 {
			positions = 1
		}
		for pos := 0; pos < positions; pos++ {
			for _, code := range codes {
				_, v, _ := genFSR(r, enc, n)
				s := []rune(v.Identity)
				if n > 0 {
					s[pos] = code
				}
				v.Identity = string(s)
				tl, idb := refcodec.IDString(enc, s)
				e := refcodec.FullSensorRecord(v, tl, idb, rbytes(r, 43))
				if r.Intn(3) == 0 {
					e = append(e, rbytes(r, 1+r.Intn(3))...) // bytes after the record must not be consumed
				}
				c07Compare(run, sp, e, v, fmt.Sprintf("id-enc-%d", enc), cs, fmt.Sprintf("n=%d", n))
				if n == 0 {
					break
				}
			}
		}
	}
}

// c07API fetches generated values through the high-level API over a session.
func c07API(run *ev.Run, seed int64, count int, cs ev.Case) {
	r := rng(seed, "c07api")
	cfg := defaultCfg(r)
	e := NewEnv(cfg, memtr.Window)
	var body []byte
	e.BMC.Handler = func(evn *refbmc.Event) (byte, []byte, bool) {
		if evn.NetFn == 0x2c {
			return 0, append([]byte{0xdc}, body...), true
		}
		return 0, body, true
	}
	ctx, cancel := bg(60 * time.Second)
	defer cancel()
	sess, err := e.OpenSession(ctx, stdSuites()[int(seed%9+9)%9])
	if err != nil {
		run.Violation("C07:api:handshake-failed", err.Error(), cs, nil)
		return
	}
	dc := dcmi.NewSessionCommander(sess)
	lunN := 0
	type api struct {
		spec string
		call func() (any, error)
	}
	apis := []api{
		{"GetDeviceIDRsp", func() (any, error) { return sess.GetDeviceID(ctx) }},
		{"GetChassisStatusRsp", func() (any, error) { return sess.GetChassisStatus(ctx) }},
		{"GetSystemGUIDRsp", func() (any, error) {
			g, err := sess.GetSystemGUID(ctx)
			return &ipmi.GetSystemGUIDRsp{GUID: g}, err
		}},
		{"GetChannelAuthenticationCapabilitiesRsp", func() (any, error) {
			return sess.GetChannelAuthenticationCapabilities(ctx, &ipmi.GetChannelAuthenticationCapabilitiesReq{Channel: ipmi.ChannelPresentInterface})
		}},
		{"GetSessionInfoRsp", func() (any, error) { return sess.GetSessionInfo(ctx, &ipmi.GetSessionInfoReq{}) }},
		{"GetSDRRepositoryInfoRsp", func() (any, error) { return sess.GetSDRRepositoryInfo(ctx) }},
		{"ReserveSDRRepositoryRsp", func() (any, error) { return sess.ReserveSDRRepository(ctx) }},
		{"GetSensorReadingRsp", func() (any, error) { return sess.GetSensorReading(ctx, 7) }},
		{"GetSensorReadingRsp", func() (any, error) {
			// a sensor behind another logical unit of the BMC, as Full Sensor Records with an owner LUN name them
			lunN++
			cmd := &ipmi.GetSensorReadingCmd{Req: ipmi.GetSensorReadingReq{Number: uint8(lunN)}, OwnerLUN: ipmi.LUN(1 + lunN%3)}
			lctx, lcancel := e.LimitCtx(6)
			defer lcancel()
			if err := bmc.ValidateResponse(sess.SendCommand(lctx, cmd)); err != nil {
				return nil, err
			}
			return &cmd.Rsp, nil
		}},
		{"SetSessionPrivilegeLevelRsp", func() (any, error) {
			p, err := sess.GetSessionPrivilegeLevel(ctx)
			return &ipmi.SetSessionPrivilegeLevelRsp{PrivilegeLevel: p}, err
		}},
		{"DCMISupportedCapabilitiesRsp", func() (any, error) { return dc.GetDCMICapabilitiesInfoSupportedCapabilities(ctx) }},
		{"DCMIMandatoryPlatformAttrsRsp", func() (any, error) { return dc.GetDCMICapabilitiesInfoMandatoryPlatformAttrs(ctx) }},
		{"DCMIOptionalPlatformAttrsRsp", func() (any, error) { return dc.GetDCMICapabilitiesInfoOptionalPlatformAttrs(ctx) }},
		{"DCMIManageabilityAccessAttrsRsp", func() (any, error) { return dc.GetDCMICapabilitiesInfoManageabilityAccessAttrs(ctx) }},
		{"DCMIEnhancedPowerAttrsRsp", func() (any, error) { return dc.GetDCMICapabilitiesInfoEnhancedSystemPowerStatisticsAttrs(ctx) }},
		{"GetPowerReadingRsp", func() (any, error) {
			return dc.GetPowerReading(ctx, &dcmi.GetPowerReadingReq{Mode: dcmi.SystemPowerStatisticsModeNormal})
		}},
		{"GetDCMISensorInfoRsp", func() (any, error) {
			return dc.GetDCMISensorInfo(ctx, &dcmi.GetDCMISensorInfoReq{Type: ipmi.SensorTypeTemperature, Entity: 0x40})
		}},
	}
	for i := 0; i < count; i++ {
		for _, a := range apis {
			sp := specByName(a.spec)
			enc, want, br := sp.Gen(r)
			body = enc
			run.Eval(1)
			var got any
			var err error
			pv, st := safe(func() { got, err = a.call() })
			run.Nontrivial("api|" + a.spec + "|" + br)
			if pv != nil {
				run.Violation("C07:api:"+a.spec+":panic", fmt.Sprintf("%v\n%s", pv, trimStack(st)), cs, nil)
				return
			}
			if err != nil {
				run.Violation("C07:api:"+a.spec+":error", fmt.Sprintf("high-level call failed for valid response body %x: %v", enc, err), cs, nil)
				return
			}
			if d := fieldDiff(valueFields(got), valueFields(want)); len(d) > 0 {
				run.Violation("C07:api:"+a.spec+":field", fmt.Sprintf("high-level call returned wrong values for body %x: %v", enc, d), cs, nil)
				return
			}
			// the same call answered (completion code 0) with a body below the layer's minimum:
			// nothing at all, one byte, one byte short
			if i%4 != 0 || sp.MinLen == 0 {
				continue
			}
			for _, k := range []int{0, 1, sp.MinLen - 1} {
				if k >= sp.MinLen || k > len(enc) || (k == 1 && sp.MinLen == 2) {
					continue
				}
				body = enc[:k]
				run.Eval(1)
				pv, st := safe(func() { got, err = a.call() })
				run.Nontrivial(fmt.Sprintf("api-short|%s|%d", a.spec, k))
				if pv != nil {
					run.Violation("C07:api:"+a.spec+":panic", fmt.Sprintf("%v\n%s", pv, trimStack(st)), cs, nil)
					return
				}
				if err == nil {
					run.Violation("C07:api:"+a.spec+":short-body-accepted", fmt.Sprintf("high-level call returned success (%+v) for a response body of %d bytes (%x); the layer's minimum is %d", got, k, body, sp.MinLen), cs, nil)
					return
				}
				run.Event("short-bodies-through-the-api", 1)
			}
		}
	}
	_ = bmc.ValidateResponse
	_ = rand.Int
}

// c07Packet decodes through gopacket's packet API (the registered layer
// decoders, which RetrieveSDRRepository uses too): a rejected input first, then
// valid encodings whose layers the caller keeps; each kept layer must still hold
// its own values after later packets were decoded.
func c07Packet(run *ev.Run, seed int64, count int, cs ev.Case) {
	r := rng(seed, "c07packet")
	types := []struct {
		spec string
		lt   gopacket.LayerType
	}{{"FullSensorRecord", ipmi.LayerTypeFullSensorRecord}, {"SDR", ipmi.LayerTypeSDR}, {"GetDeviceIDRsp", ipmi.LayerTypeGetDeviceIDRsp}, {"GetSDRRsp", ipmi.LayerTypeGetSDRRsp}}
	for _, ty := range types {
		sp := specByName(ty.spec)
		type kept struct {
			l    gopacket.Layer
			want any
			enc  []byte
		}
		var held []kept
		for i := 0; i < count; i++ {
			run.Eval(1)
			enc, want, br := sp.Gen(r)
			if i%5 == 0 && len(enc) > 2 {
				// an input the decoder refuses (cut short)
				p := gopacket.NewPacket(exactCopy(enc[:1+r.Intn(sp.MinLen)]), ty.lt, gopacket.Default)
				_ = p.ErrorLayer()
				run.Event("rejected-packets", 1)
			}
			p := gopacket.NewPacket(exactCopy(enc), ty.lt, gopacket.Default)
			run.Nontrivial(fmt.Sprintf("packet|%s|%s|%d", ty.spec, br, i%5))
			l := p.Layer(ty.lt)
			if l == nil {
				// (layers that name a next layer go on to decode their payload, which may
				// fail for these generated bodies: only the layer itself is required)
				run.Violation("C07:"+ty.spec+":packet-api-rejects-valid-encoding", fmt.Sprintf("%s: gopacket.NewPacket does not yield the layer for %x: %v", ty.spec, enc, p.ErrorLayer()), cs, nil)
				break
			}
			if d := fieldDiff(valueFields(l), valueFields(want)); len(d) > 0 {
				run.Violation("C07:"+ty.spec+":packet-api-field:"+strings.SplitN(d[0], ":", 2)[0], fmt.Sprintf("%s decoded %x through the packet API with wrong fields: %v", ty.spec, enc, d), cs, nil)
				break
			}
			bad := false
			for _, h := range held {
				if h.l == l {
					run.Violation("C07:"+ty.spec+":packet-api-shares-layer", fmt.Sprintf("%s: two packets (%x and %x) were given the same layer value", ty.spec, h.enc, enc), cs, nil)
					bad = true
					break
				}
				if d := fieldDiff(valueFields(h.l), valueFields(h.want)); len(d) > 0 {
					run.Violation("C07:"+ty.spec+":earlier-value-changed:"+strings.SplitN(d[0], ":", 2)[0], fmt.Sprintf("%s: the layer of an earlier packet (%x) changed when %x was decoded: %v", ty.spec, h.enc, enc, d), cs, nil)
					bad = true
					break
				}
			}
			if bad {
				break
			}
			held = append(held, kept{l, want, enc})
			if len(held) > 4 {
				held = held[1:]
			}
		}
	}
}
