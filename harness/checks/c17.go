package checks

import (
	"bytes"
	"context"
	"crypto/hmac"
	"crypto/md5"
	"crypto/sha1"
	"crypto/sha256"
	"fmt"
	"hash"
	"sort"
	"strings"
	"time"

	"verifharness/ev"
	"verifharness/memtr"
	"verifharness/mon"
	"verifharness/refbmc"

	"github.com/cenkalti/backoff/v4"
	"github.com/gebn/bmc"
	"github.com/gebn/bmc/pkg/ipmi"
	"github.com/google/gopacket"
)

type c17Batch struct {
	What  string // layer | conn
	Layer string
	Seed  int64
	Count int
}

type c17Pair struct {
	Layer string
	A, B  string // hex
}

type c17Conn struct {
	First, Second int // indices into c17Cmds
	FirstOutcome  string
	InSession     bool
	Suite         int
	ReuseCmd      bool
	Seed          int64
	// SecondOutcome scripts the reply to the second command: "" (ok), "empty" (code 0, empty body),
	// "cc:c1" (error code, empty body), "trunc"
	SecondOutcome string
}

var c17Cmds = []string{"devid", "chassisstatus", "guid", "authcaps", "sessioninfo", "repoinfo", "reserve", "sensorreading", "getsdr", "setpriv", "power", "sensorinfo"}

func init() {
	register(&Check{
		ID:    "C17",
		Level: "exploration",
		Rule: "layer level: for every decodable layer, ordered pairs (earlier, later) of valid encodings drawn so that every combination of optional-tail form / branch occurs, plus later inputs that are truncations (every length) and byte mutations of valid encodings; the later input is decoded into the used layer and into a fresh one and every exported field (including BaseLayer contents/payload, by value; nil and empty slices equal) must match. " +
			"connection level: every ordered pair of 12 commands, the first answered normally / with an error code / with a truncated body / with noise-then-ok, the second compared with the same command on a fresh connection to a BMC in the same state, session-less and in-session, with fresh and with reused command values. " +
			"non-trivial = pair with differing branch or length; distinct = distinct (layer, branch A, branch B) / (first, second, outcome, mode)",
		Assumptions: []string{"later inputs include every truncation and small mutations of valid encodings; whatever the decoder accepts must decode the same into a used and a fresh layer"},
		Gen: func(tier string, seed int64) []ev.Case {
			n := 4000
			if tier == "thorough" {
				n = 150000
			}
			var cs []ev.Case
			for _, sp := range specs() {
				for i := 0; i < n; i += 4000 {
					cs = append(cs, ev.MkCase("batch", c17Batch{What: "layer", Layer: sp.Name, Seed: seed*131 + int64(i), Count: 4000}))
				}
			}
			reps := 1
			if tier == "thorough" {
				reps = 10
			}
			for k := 0; k < reps*4; k++ {
				cs = append(cs, ev.MkCase("batch", c17Batch{What: "discovery", Count: 60, Seed: seed*17 + int64(k)}))
				cs = append(cs, ev.MkCase("batch", c17Batch{What: "authwrapper", Count: 1500, Seed: seed*19 + int64(k)}))
			}
			for k := 0; k < 12; k++ {
				cs = append(cs, ev.MkCase("alias", c17Alias{Seed: seed*37 + int64(k), InSession: k%3 != 0}))
			}
			for _, n := range []int{70, 130, 260, 300, 600} {
				cs = append(cs, ev.MkCase("long", c17LongSess{Seed: seed + int64(n), N: n}))
			}
			for k := 0; k < reps; k++ {
				for at := 1; at <= 9; at++ {
					for _, kind := range []string{"erase", "replace", "add", "cancel", "cancel-lenient"} {
						cs = append(cs, ev.MkCase("sdr", c17SDRHist{Seed: seed*29 + int64(k), At: at, Kind: kind}))
					}
				}
			}
			for k := 0; k < reps; k++ {
				for f := 0; f < len(c17Cmds); f++ {
					cs = append(cs, ev.MkCase("batch", c17Batch{What: "conn", Count: f, Seed: seed + int64(k)*71}))
				}
			}
			return cs
		},
		Exec:    c17Exec,
		Anchors: []string{"V1Session).DecodeFromBytes", "GetSessionInfoRsp).DecodeFromBytes", "GetChassisStatusRsp).DecodeFromBytes", "GetDeviceIDRsp).DecodeFromBytes", "OpenSessionRsp).DecodeFromBytes", "GetDCMISensorInfoRsp).DecodeFromBytes", "buildAndSendCommand", "V2Session).buildAndSend"},
	})
}

func c17Exec(run *ev.Run, c ev.Case) {
	switch c.Kind {
	case "pair":
		var p c17Pair
		c.Decode(&p)
		c17Pairwise(run, specByName(p.Layer), unhex(p.A), unhex(p.B), "replay", "replay", true)
	case "conn":
		var o c17Conn
		c.Decode(&o)
		c17ConnPair(run, o)
	case "sdr":
		var o c17SDRHist
		c.Decode(&o)
		c17SDR(run, o)
	case "alias":
		var o c17Alias
		c.Decode(&o)
		c17AliasRun(run, o)
	case "long":
		var o c17LongSess
		c.Decode(&o)
		c17Long(run, o)
	case "disc":
		var o c17Disc
		c.Decode(&o)
		c17Discovery(run, o)
	case "batch":
		var b c17Batch
		c.Decode(&b)
		switch b.What {
		case "layer":
			sp := specByName(b.Layer)
			r := rng(b.Seed, "c17"+b.Layer)
			for i := 0; i < b.Count; i++ {
				ea, _, bra := sp.Gen(r)
				eb, _, brb := sp.Gen(r)
				c17Pairwise(run, sp, ea, eb, bra, brb, true)
				if i%8 == 0 {
					// later inputs that are not valid encodings but that the decoder may
					// still accept: every truncation, and small mutations
					for cut := sp.MinLen; cut < len(eb); cut++ {
						t := append([]byte(nil), eb[:cut]...)
						if sp.FixUp != nil {
							t = sp.FixUp(t)
						}
						c17Pairwise(run, sp, ea, t, bra, fmt.Sprintf("truncated-%d", len(eb)-cut), true)
					}
					// earlier inputs that a decoder refuses part-way (datagram cut short, bytes
					// damaged in transit): whatever they leave behind must not affect the next decode
					for k := 1; k <= 20 && k < len(ea); k += 1 + k/6 {
						c17Pairwise(run, sp, append([]byte(nil), ea[:len(ea)-k]...), eb, "damaged-earlier", brb, true)
					}
					if len(ea) > 0 {
						m := append([]byte(nil), ea...)
						m[r.Intn(len(m))] ^= 1 << uint(r.Intn(8))
						c17Pairwise(run, sp, m, eb, "damaged-earlier", brb, true)
					}
					if len(eb) > 0 {
						m := append([]byte(nil), eb...)
						for k := 1 + r.Intn(3); k > 0; k-- {
							m[r.Intn(len(m))] = byte(r.Intn(256))
						}
						if sp.FixUp != nil {
							m = sp.FixUp(m)
						}
						c17Pairwise(run, sp, ea, m, bra, "mutated", true)
					}
				}
			}
		case "authwrapper":
			c17AuthWrapper(run, b.Seed, b.Count, c)
		case "discovery":
			r := rng(b.Seed, "c17disc")
			for i := 0; i < b.Count; i++ {
				d := c17Disc{Seed: r.Int63(), FailAt: r.Intn(6), FailKind: []string{"cc", "empty", "cancel", "lost-forever"}[r.Intn(4)], Change: r.Intn(3) > 0, NewSession: r.Intn(3) == 0}
				if r.Intn(4) == 0 {
					d.FirstSession, d.FailAt, d.NewSession, d.Change = true, 0, r.Intn(4) > 0, r.Intn(5) > 0
				}
				c17Discovery(run, d)
			}
		case "conn":
			for second := 0; second < len(c17Cmds); second++ {
				for _, oc := range []string{"ok", "cc:c1", "ccb:d4", "trunc", "garbage-then-ok", "busy-then-ok", "lost", "refused", "request-lost"} {
					for _, inSess := range []bool{false, true} {
						c17ConnPair(run, c17Conn{First: b.Count, Second: second, FirstOutcome: oc, InSession: inSess, Suite: (b.Count + second) % 9, ReuseCmd: b.Count == second, Seed: b.Seed})
						if oc == "ok" && second%3 == 0 {
							c17ConnPair(run, c17Conn{First: b.Count, Second: second, FirstOutcome: "busy-giveup", SecondOutcome: "busy-then-ok", InSession: inSess, Suite: (b.Count + second) % 9, ReuseCmd: b.Count == second, Seed: b.Seed})
						}
						if oc == "ok" || oc == "ccb:d4" {
							for _, so := range []string{"empty", "cc:c1", "trunc", "busy-then-ok", "garbage-then-ok", "lost-then-ok"} {
								if so == "lost-then-ok" && inSess {
									continue // a lost reply ends an in-session command
								}
								c17ConnPair(run, c17Conn{First: b.Count, Second: second, FirstOutcome: oc, SecondOutcome: so, InSession: inSess, Suite: (b.Count + second) % 9, ReuseCmd: b.Count == second, Seed: b.Seed})
							}
						}
					}
				}
			}
		}
	}
}

func c17Pairwise(run *ev.Run, sp *layerSpec, a, b []byte, bra, brb string, deciding bool) {
	run.Eval(1)
	cs := ev.MkCase("pair", c17Pair{Layer: sp.Name, A: ev.Hex(a), B: ev.Hex(b)})
	used, fresh := sp.New(), sp.New()
	var erra, errb, errf error
	var fu, ff map[string]string
	pv, st := safe(func() {
		erra = used.DecodeFromBytes(exactCopy(a), gopacket.NilDecodeFeedback)
		errb = used.DecodeFromBytes(exactCopy(b), gopacket.NilDecodeFeedback)
		fu = mon.Fields(used)
		errf = fresh.DecodeFromBytes(exactCopy(b), gopacket.NilDecodeFeedback)
		ff = mon.Fields(fresh)
	})
	if pv != nil {
		if deciding {
			run.Violation("C17:"+sp.Name+":panic", fmt.Sprintf("panic decoding %x then %x: %v\n%s", a, b, pv, trimStack(st)), cs, nil)
		}
		return
	}
	if erra != nil && deciding && bra != "damaged-earlier" {
		run.Violation("C17:"+sp.Name+":valid-encoding-rejected", fmt.Sprintf("valid encoding %x rejected: %v", a, erra), cs, nil)
		return
	}
	if (errb == nil) != (errf == nil) {
		if deciding {
			run.Violation("C17:"+sp.Name+":acceptance-depends-on-history", fmt.Sprintf("decoding %x after %x gives err=%v, into a fresh layer err=%v", b, a, errb, errf), cs, nil)
		} else {
			run.Observe("observation:acceptance-depends-on-history:"+sp.Name, 1)
		}
		return
	}
	if errf != nil {
		return
	}
	if bra != brb || len(a) != len(b) {
		run.Nontrivial(fmt.Sprintf("%s|%s|%s|%v", sp.Name, bra, brb, deciding))
	}
	var diff []string
	for k, v := range ff {
		if fu[k] != v {
			diff = append(diff, fmt.Sprintf("%s: reused %s, fresh %s", k, fu[k], v))
		}
	}
	for k := range fu {
		if _, ok := ff[k]; !ok {
			diff = append(diff, fmt.Sprintf("%s: only on reused layer (%s)", k, fu[k]))
		}
	}
	if len(diff) == 0 {
		return
	}
	sort.Strings(diff)
	field := strings.SplitN(diff[0], ":", 2)[0]
	if !deciding {
		run.Observe("observation:stale-field-after-non-valid-input:"+sp.Name+"."+field, 1)
		return
	}
	run.Violation("C17:"+sp.Name+":stale:"+field, fmt.Sprintf("%s: decoding %x (branch %s) after %x (branch %s) leaves earlier data: %v", sp.Name, b, brb, a, bra, diff), cs, nil)
}

// c17Result renders what a caller observes from one command.
func c17Result(cmd ipmi.Command, code ipmi.CompletionCode, err error) string {
	s := fmt.Sprintf("code=%v err=%v", code, err != nil)
	if err == nil && cmd.Response() != nil {
		f := valueFields(cmd.Response())
		keys := make([]string, 0, len(f))
		for k := range f {
			keys = append(keys, k)
		}
		sort.Strings(keys)
		for _, k := range keys {
			s += " " + k + "=" + f[k]
		}
	}
	return s
}

func c17ConnPair(run *ev.Run, o c17Conn) {
	run.Eval(1)
	cs := ev.MkCase("conn", o)
	// two environments with BMCs in the same state; the second command's
	// response body is the same on both
	r := rng(o.Seed+int64(o.First*16+o.Second), "c17conn"+o.FirstOutcome)
	g1 := genCommand(r, c17Cmds[o.First], 0)
	g2 := genCommand(r, c17Cmds[o.Second], 0)
	g2f := g2 // fresh copy of the second command for the fresh connection
	var g1f genCmd
	{
		r2 := rng(o.Seed+int64(o.First*16+o.Second), "c17conn"+o.FirstOutcome)
		g1f = genCommand(r2, c17Cmds[o.First], 0)
		g2f = genCommand(r2, c17Cmds[o.Second], 0)
	}
	if o.ReuseCmd && o.First == o.Second {
		// both connections answer the second call with the same body
		g2.OkBody, g2f.OkBody = g1.OkBody, g1.OkBody
		if len(g2.OkBody) > 0 {
			alt := append([]byte(nil), g2.OkBody...)
			alt[len(alt)-1] ^= 0x01
			if sp := c17SpecFor(c17Cmds[o.Second]); sp != nil {
				if b, _, _ := sp.Gen(r); true {
					alt = b
					if g2.NetFn == 0x2c {
						alt = append([]byte{0xdc}, b...)
					}
				}
			}
			g2.OkBody, g2f.OkBody = alt, alt
		}
	}
	if g1.SerFail || g2.SerFail {
		return
	}
	run1 := func(first bool, gsecond genCmd) (string, bool) {
		cfg := defaultCfg(rng(o.Seed, "c17cfg"))
		se := NewScriptEnv(cfg, memtr.Window)
		se.Strict = true
		if o.FirstOutcome == "busy-giveup" {
			// a retry policy with a count (three retries per command), on the used and on the fresh connection alike
			se.ST = bmc.VerifNewV2SessionlessTransport(se.T, 10*time.Second, backoff.WithMaxRetries(&backoff.ZeroBackOff{}, 3))
		}
		var conn bmc.Connection = se.ST
		if o.InSession {
			ctx, cancel := se.LimitCtx(20)
			s, err := se.OpenSession(ctx, stdSuites()[o.Suite%9])
			cancel()
			if err != nil {
				run.Violation("C17:handshake-failed", err.Error(), cs, nil)
				return "", false
			}
			conn = s
		}
		if first {
			script := []string{o.FirstOutcome}
			switch o.FirstOutcome {
			case "garbage-then-ok":
				script = []string{"garbage:noise"}
			case "busy-then-ok":
				script = []string{"busy"}
			case "busy-giveup":
				script = []string{"busy", "tmo", "busy", "busy", "busy", "busy", "busy", "busy"}
			}
			min := 1
			if sp := c17SpecFor(c17Cmds[o.First]); sp != nil {
				min = sp.MinLen
				if g1.NetFn == 0x2c {
					min++
				}
			}
			res := se.Run(script, g1.OkBody, min, 0, 6, func(ctx context.Context) (ipmi.CompletionCode, error) { return conn.SendCommand(ctx, g1.Cmd) })
			if res.Panic != nil {
				run.Violation("C17:conn:panic:"+panicSite(res.Stack), fmt.Sprintf("first command panicked: %v", res.Panic), cs, nil)
				return "", false
			}
		}
		cmd := gsecond.Cmd
		if first && o.ReuseCmd && o.First == o.Second {
			// reuse the very command value of the first call (as a long-lived reader or poller does)
			cmd = g1.Cmd
		} else if !first && o.ReuseCmd && o.First == o.Second {
			// the fresh connection sends the same request through a fresh command value
			cmd = g1f.Cmd
		}
		var code ipmi.CompletionCode
		var err error
		var script2 []string
		min2 := 0
		switch o.SecondOutcome {
		case "empty":
			script2, min2 = []string{"trunc"}, 1 // trunc with minimum 1 = code 0 and an empty body
			if gsecond.NetFn == 0x2c {
				min2 = 2 // keep the group extension byte
			}
		case "busy-then-ok":
			script2 = []string{"busy"}
		case "garbage-then-ok":
			script2 = []string{"garbage:noise", "tmo"}
		case "lost-then-ok":
			script2 = []string{"lost"}
		case "cc:c1":
			script2 = []string{"cc:c1"}
		case "trunc":
			script2 = []string{"trunc"}
			if sp := c17SpecFor(c17Cmds[o.Second]); sp != nil {
				min2 = sp.MinLen
				if gsecond.NetFn == 0x2c {
					min2++
				}
			}
		}
		res := se.Run(script2, gsecond.OkBody, min2, 0, 6, func(ctx context.Context) (ipmi.CompletionCode, error) {
			code, err = conn.SendCommand(ctx, cmd)
			return code, err
		})
		if res.Panic != nil {
			run.Violation("C17:conn:panic:"+panicSite(res.Stack), fmt.Sprintf("second command panicked: %v", res.Panic), cs, nil)
			return "", false
		}
		return c17Result(cmd, code, err), true
	}
	used, ok1 := run1(true, g2)
	fresh, ok2 := run1(false, g2f)
	if !ok1 || !ok2 {
		return
	}
	run.Nontrivial(fmt.Sprintf("conn|%d|%d|%s|%s|%v|%v", o.First, o.Second, o.FirstOutcome, o.SecondOutcome, o.InSession, o.ReuseCmd))
	run.Event("command-pairs", 1)
	if used != fresh {
		run.Violation("C17:conn:result-depends-on-history", fmt.Sprintf("%s after %s (%s, in-session %v): on the used connection %q, on a fresh connection %q", c17Cmds[o.Second], c17Cmds[o.First], o.FirstOutcome, o.InSession, used, fresh), cs, nil)
		return
	}
	if o.First == 4 && o.Second == 0 {
		run.Sample("conn", map[string]any{"first": c17Cmds[o.First], "first_outcome": o.FirstOutcome, "second": c17Cmds[o.Second], "in_session": o.InSession, "result": used})
	}
	_ = time.Second
	_ = refbmc.Csum
}

func c17SpecFor(kind string) *layerSpec {
	m := map[string]string{"devid": "GetDeviceIDRsp", "chassisstatus": "GetChassisStatusRsp", "guid": "GetSystemGUIDRsp", "authcaps": "GetChannelAuthenticationCapabilitiesRsp",
		"sessioninfo": "GetSessionInfoRsp", "repoinfo": "GetSDRRepositoryInfoRsp", "reserve": "ReserveSDRRepositoryRsp", "sensorreading": "GetSensorReadingRsp", "getsdr": "GetSDRRsp",
		"setpriv": "SetSessionPrivilegeLevelRsp", "power": "GetPowerReadingRsp", "sensorinfo": "GetDCMISensorInfoRsp"}
	if n, ok := m[kind]; ok {
		return specByName(n)
	}
	return nil
}

// c17Disc is one cipher-suite discovery history: a first retrieval that fails
// at its FailAt-th request (0: it succeeds), then a second one on the same
// connection, compared with the same retrieval on a fresh connection.
type c17Disc struct {
	Seed       int64
	FailAt     int
	FailKind   string // cc | empty | cancel | lost-forever
	Change     bool   // the BMC advertises different records the second time
	NewSession bool   // the second retrieval is the discovery inside NewV2Session
	// FirstSession: the first action is a complete NewV2Session with discovery (which succeeds)
	// instead of a bare retrieval; the BMC's advertisement may change before the second one
	FirstSession bool `json:",omitempty"`
}

func c17Discovery(run *ev.Run, o c17Disc) {
	run.Eval(1)
	cs := ev.MkCase("disc", o)
	r := rng(o.Seed, "c17disc1")
	genRecs := func() []refbmc.SuiteRecord {
		var recs []refbmc.SuiteRecord
		for i, n := 0, 2+r.Intn(9); i < n; i++ {
			rec := refbmc.SuiteRecord{ID: byte(r.Intn(256)), Auth: byte(r.Intn(4))}
			if r.Intn(4) == 0 {
				rec.OEM, rec.IANA = true, uint32(r.Intn(1<<24))
			}
			for k := r.Intn(3); k > 0; k-- {
				rec.Integs = append(rec.Integs, byte(r.Intn(5)))
			}
			for k := r.Intn(3); k > 0; k-- {
				rec.Confs = append(rec.Confs, byte(r.Intn(4)))
			}
			recs = append(recs, rec)
		}
		// always advertise suite 3 so that the session variant can go through
		return append(recs, refbmc.SuiteRecord{ID: 3, Auth: 1, Integs: []byte{1}, Confs: []byte{1}})
	}
	recsA, recsB := genRecs(), genRecs()
	if o.FirstSession {
		// suite 17 present or absent, independently before and after
		s17 := refbmc.SuiteRecord{ID: 17, Auth: 3, Integs: []byte{4}, Confs: []byte{1}}
		if r.Intn(2) == 0 {
			recsA = append([]refbmc.SuiteRecord{s17}, recsA...)
		}
		if r.Intn(2) == 0 {
			recsB = append(recsB, s17)
		}
	}
	dataA, dataB := refbmc.EncodeSuiteRecords(recsA), refbmc.EncodeSuiteRecords(recsB)
	if !o.Change {
		dataB = dataA
	}
	// the session variant uses the library's default preferences (17, then 3) in half of the
	// cases and the same list given explicitly in the other half
	sessionPrefs := []ipmi.CipherSuite{{AuthenticationAlgorithm: 3, IntegrityAlgorithm: 4, ConfidentialityAlgorithm: 1}, ipmi.CipherSuite3}
	if o.Seed%2 == 0 {
		sessionPrefs = nil
	}
	second := func(e *Env, cfg refbmc.Config) string {
		ctx, cancel := e.LimitCtx(80)
		defer cancel()
		if o.NewSession {
			var err error
			var sess *bmc.V2Session
			pv, st := safe(func() {
				sess, err = e.ST.NewV2Session(ctx, &bmc.V2SessionOpts{SessionOpts: bmc.SessionOpts{Username: cfg.Username, Password: cfg.Password, MaxPrivilegeLevel: ipmi.PrivilegeLevelAdministrator},
					CipherSuites: sessionPrefs})
			})
			if pv != nil {
				return fmt.Sprintf("panic %v at %s", pv, panicSite(st))
			}
			if err != nil {
				return "err"
			}
			return fmt.Sprintf("session %v/%v/%v", sess.AuthenticationAlgorithm, sess.IntegrityAlgorithm, sess.ConfidentialityAlgorithm)
		}
		var got []ipmi.CipherSuiteRecord
		var err error
		pv, st := safe(func() { got, err = bmc.RetrieveSupportedCipherSuites(ctx, e.ST) })
		if pv != nil {
			return fmt.Sprintf("panic %v at %s", pv, panicSite(st))
		}
		return fmt.Sprintf("err=%v %v", err != nil, got)
	}
	mk := func(data []byte) (*Env, *refbmc.CipherSuiteServer, refbmc.Config) {
		cfg := defaultCfg(rng(o.Seed, "c17disccfg"))
		cfg.Suites = stdSuites()
		e := NewEnv(cfg, memtr.Window)
		srv := &refbmc.CipherSuiteServer{Channel: 1, Data: data}
		e.BMC.Handler = refbmc.Chain(srv.Handle)
		return e, srv, cfg
	}
	// used connection
	e, srv, cfg := mk(dataA)
	n54 := 0
	var cancelFirst context.CancelFunc
	failing := true
	e.BMC.Handler = refbmc.Chain(func(evn *refbmc.Event) (byte, []byte, bool) {
		if !failing || evn.NetFn != 6 || evn.Cmd != 0x54 {
			return 0, nil, false
		}
		n54++
		if o.FailAt > 0 && n54 >= o.FailAt {
			switch o.FailKind {
			case "cc":
				return 0xc1, nil, true
			case "empty":
				return 0, nil, true
			case "cancel":
				cancelFirst()
			}
		}
		return 0, nil, false
	}, srv.Handle)
	if o.FailKind == "lost-forever" && o.FailAt > 0 {
		e.Filter = func(n int, req, reply []byte) ([]byte, error) {
			if failing && n54 >= o.FailAt {
				if n54 > o.FailAt+2 {
					cancelFirst()
				}
				return nil, nil
			}
			return reply, nil
		}
	}
	ctx1, c1 := e.LimitCtx(80)
	cancelFirst = c1
	var firstErr error
	pv, st := safe(func() {
		if o.FirstSession {
			_, firstErr = e.ST.NewV2Session(ctx1, &bmc.V2SessionOpts{SessionOpts: bmc.SessionOpts{Username: cfg.Username, Password: cfg.Password, MaxPrivilegeLevel: ipmi.PrivilegeLevelAdministrator},
				CipherSuites: sessionPrefs})
			return
		}
		_, firstErr = bmc.RetrieveSupportedCipherSuites(ctx1, e.ST)
	})
	c1()
	if pv != nil {
		run.Violation("C17:discovery:panic:"+panicSite(st), fmt.Sprintf("first retrieval panicked: %v", pv), cs, nil)
		return
	}
	failing = false
	e.Filter = nil
	srv.Data = dataB
	used := second(e, cfg)
	ef, _, cfgf := mk(dataB)
	fresh := second(ef, cfgf)
	run.Event("discovery-histories", 1)
	run.Nontrivial(fmt.Sprintf("disc|%d|%s|%v|%v|%v|%v", o.FailAt, o.FailKind, o.Change, o.NewSession, firstErr != nil, o.FirstSession))
	if o.NewSession {
		// the outcome is also known in absolute terms (state shared by the whole process would
		// affect the fresh connection just the same): suite 17 if advertised, else suite 3
		want := "session RAKP-HMAC-SHA1/HMAC-SHA1-96/AES-CBC-128"
		if ents, ok := c16RefParse(dataB); ok {
			for _, en := range ents {
				if en.Auth == 3 && en.Integ == 4 && en.Conf == 1 {
					want = "session RAKP-HMAC-SHA256/HMAC-SHA256-128/AES-CBC-128"
				}
			}
		}
		norm := func(s string) string { return strings.NewReplacer("(", " ", ")", " ").Replace(s) }
		_ = norm
		if fresh != "err" && used != "err" && (!c17SameSuite(used, want) || !c17SameSuite(fresh, want)) {
			run.Violation("C17:discovery:result-depends-on-process-history", fmt.Sprintf("handshake with preferences 17 then 3 (defaults: %v) against a BMC advertising %x: used connection %q, fresh connection %q, expected %s", sessionPrefs == nil, dataB, used, fresh, want), cs, nil)
			return
		}
	}
	if used != fresh {
		run.Violation("C17:discovery:result-depends-on-history", fmt.Sprintf("cipher suite discovery after an earlier retrieval (failure %s at request %d: err=%v; records changed: %v; through NewV2Session: %v; first action a complete NewV2Session: %v): used connection %q, fresh connection %q", o.FailKind, o.FailAt, firstErr, o.Change, o.NewSession, o.FirstSession, used, fresh), cs, nil)
	}
}

// c17SDRHist is one SDR retrieval during which the repository changes (and the
// reservation is cancelled) before the At-th Get SDR: what the call returns must
// be what a fresh session retrieves from the repository's final state, i.e.
// nothing read before the change may survive into the result.
type c17SDRHist struct {
	Seed int64
	At   int
	Kind string // erase | replace | add
}

func c17SDR(run *ev.Run, o c17SDRHist) {
	run.Eval(1)
	cs := ev.MkCase("sdr", o)
	r := rng(o.Seed, "c17sdr")
	var recs []refbmc.SDRRecord
	for i := 0; i < 5; i++ {
		body, _, _ := genFSR(r, 3, 4+i)
		recs = append(recs, refbmc.SDRRecord{ID: uint16(1 + i*3), Type: 1, Body: body})
	}
	final := append([]refbmc.SDRRecord(nil), recs...)
	switch o.Kind {
	case "erase":
		k := 1 + r.Intn(3)
		final = append(append([]refbmc.SDRRecord(nil), recs[:k]...), recs[k+1:]...)
	case "replace":
		body, _, _ := genFSR(r, 3, 9)
		final[1+r.Intn(3)] = refbmc.SDRRecord{ID: 0x50, Type: 1, Body: body}
	case "add":
		body, _, _ := genFSR(r, 3, 10)
		final = append(final, refbmc.SDRRecord{ID: 0x60, Type: 1, Body: body})
	}
	retrieve := func(repo *refbmc.Repo) (string, bool) {
		cfg := defaultCfg(rng(o.Seed, "c17sdrcfg"))
		e := NewEnv(cfg, memtr.Window)
		e.BMC.Handler = repo.Handle
		ctx, cancel := bg(20 * time.Second)
		defer cancel()
		sess, err := e.OpenSession(ctx, stdSuites()[int(o.Seed)%9])
		if err != nil {
			run.Violation("C17:handshake-failed", err.Error(), cs, nil)
			return "", false
		}
		var m bmc.SDRRepository
		pv, st := safe(func() { m, err = bmc.RetrieveSDRRepository(ctx, sess) })
		if pv != nil {
			run.Violation("C17:sdr:panic:"+panicSite(st), fmt.Sprintf("%v", pv), cs, nil)
			return "", false
		}
		var keys []string
		for k, v := range m {
			keys = append(keys, fmt.Sprintf("%#x:%s", k, mon.Snapshot(v)))
		}
		sort.Strings(keys)
		return fmt.Sprintf("err=%v %v", err != nil, keys), true
	}
	used := refbmc.NewRepo(recs, 70000)
	injected := false
	used.BeforeGet = func(nth int, rp *refbmc.Repo) {
		if nth == o.At && !injected {
			injected = true
			if o.Kind == "cancel" || o.Kind == "cancel-lenient" {
				// only the reservation is lost (another console reserved the repository); the contents stay
				rp.CancelLocked()
				return
			}
			rp.ModifyLocked(final, o.Kind == "erase", true)
		}
	}
	// "cancel-lenient": a BMC that checks the reservation on partial reads only, as the specification allows
	used.ReservationOnPartialOnly = o.Kind == "cancel-lenient"
	a, ok1 := retrieve(used)
	b, ok2 := retrieve(refbmc.NewRepo(final, 70001))
	if !ok1 || !ok2 {
		return
	}
	run.Event("sdr-histories", 1)
	if injected {
		run.Nontrivial(fmt.Sprintf("sdr|%s|%d", o.Kind, o.At))
	}
	if a != b {
		run.Violation("C17:sdr:result-depends-on-history", fmt.Sprintf("repository changed (%s) before Get SDR %d of the retrieval: the call returned %s; a fresh session retrieves %s from the final state", o.Kind, o.At, a, b), cs, nil)
	}
}

// c17AuthWrapper: the authenticated session wrapper shares one keyed hash between
// all the packets of a session. A used layer (and hash) that has just seen a
// damaged packet - cut short in the AuthCode, a bit flipped anywhere - must decode
// the next authentic packet exactly as a fresh layer with a fresh hash does.
func c17AuthWrapper(run *ev.Run, seed int64, count int, cs ev.Case) {
	r := rng(seed, "c17authwrapper")
	key := rbytes(r, 20)
	algs := []struct {
		integ byte
		mk    func() hash.Hash
	}{
		{1, func() hash.Hash { return truncHash{hmac.New(sha1.New, key), 12} }},
		{2, func() hash.Hash { return hmac.New(md5.New, key) }},
		{4, func() hash.Hash { return truncHash{hmac.New(sha256.New, key), 16} }},
	}
	for _, alg := range algs {
		se := &refbmc.Session{ConsoleSID: r.Uint32(), Suite: refbmc.Suite{Auth: 1, Integ: alg.integ, Conf: 1}, K1: key, K2: rbytes(r, 20), Active: true}
		used := &ipmi.V2Session{IntegrityAlgorithm: alg.mk()}
		for i := 0; i < count/len(algs); i++ {
			run.Eval(1)
			valid := se.Wrap(rbytes(r, 1+r.Intn(40)), refbmc.WrapOpts{NoEncrypt: true})[4:]
			var damaged []byte
			kind := ""
			switch r.Intn(4) {
			case 0:
				other := se.Wrap(rbytes(r, 1+r.Intn(40)), refbmc.WrapOpts{NoEncrypt: true})[4:]
				damaged, kind = other[:len(other)-1-r.Intn(15)], "cut-in-authcode"
			case 1:
				other := se.Wrap(rbytes(r, 1+r.Intn(40)), refbmc.WrapOpts{NoEncrypt: true})[4:]
				other[r.Intn(len(other))] ^= 1 << uint(r.Intn(8))
				damaged, kind = other, "bit-flip"
			case 2:
				other := se.Wrap(rbytes(r, 1+r.Intn(40)), refbmc.WrapOpts{NoEncrypt: true})[4:]
				damaged, kind = append(other, rbytes(r, 1+r.Intn(6))...), "extended"
			default:
				kind = "none"
			}
			var e0, eu, ef error
			fresh := &ipmi.V2Session{IntegrityAlgorithm: alg.mk()}
			pv, st := safe(func() {
				if damaged != nil {
					e0 = used.DecodeFromBytes(exactCopy(damaged), gopacket.NilDecodeFeedback)
				}
				eu = used.DecodeFromBytes(exactCopy(valid), gopacket.NilDecodeFeedback)
				ef = fresh.DecodeFromBytes(exactCopy(valid), gopacket.NilDecodeFeedback)
			})
			run.Nontrivial(fmt.Sprintf("authwrapper|%d|%s|%v", alg.integ, kind, e0 != nil))
			desc := fmt.Sprintf("integrity algorithm %d: authentic packet %x decoded after a damaged one (%s, %x, refused: %v)", alg.integ, valid, kind, damaged, e0 != nil)
			if pv != nil {
				run.Violation("C17:V2SessionAuth:panic:"+panicSite(st), fmt.Sprintf("%s: %v", desc, pv), cs, nil)
				return
			}
			if ef != nil {
				run.Violation("C17:V2SessionAuth:authentic-packet-rejected", fmt.Sprintf("%s: a fresh layer rejects it: %v", desc, ef), cs, nil)
				return
			}
			if eu != nil {
				run.Violation("C17:V2SessionAuth:acceptance-depends-on-history", fmt.Sprintf("%s: the used layer rejects it (%v), a fresh one accepts it", desc, eu), cs, nil)
				return
			}
			if used.Length != fresh.Length || used.Pad != fresh.Pad || used.ID != fresh.ID || used.Sequence != fresh.Sequence || used.Authenticated != fresh.Authenticated ||
				used.Encrypted != fresh.Encrypted || !bytes.Equal(used.Signature, fresh.Signature) || !bytes.Equal(used.LayerPayload(), fresh.LayerPayload()) {
				run.Violation("C17:V2SessionAuth:stale", fmt.Sprintf("%s: used layer %s, fresh layer %s", desc, fieldsV2(used), fieldsV2(fresh)), cs, nil)
				return
			}
		}
	}
}

// c17SameSuite compares a rendered "session a/i/c" with the expected one by the
// algorithm numbers it names (the library's String() forms carry the number).
func c17SameSuite(got, want string) bool {
	is17 := strings.Contains(want, "SHA256")
	got17 := strings.Contains(got, "SHA256") || strings.Contains(got, "(3)") && strings.Contains(got, "(4)")
	return is17 == got17
}

// c17Long: a session that has carried many commands answers the next one as a
// fresh session does (counters that wrap, fields narrower than the counters they
// are fed from).
type c17LongSess struct {
	Seed int64
	N    int
}

func c17Long(run *ev.Run, o c17LongSess) {
	run.Eval(1)
	cs := ev.MkCase("long", o)
	r := rng(o.Seed, "c17long")
	cfg := defaultCfg(r)
	e := NewEnv(cfg, memtr.Window)
	e.BMC.KeepLog = false
	devid := []byte{0x20, 0x81, 0x03, 0x15, 0x02, 0xbf, 0x57, 0x01, 0x00, 0x34, 0x12, 1, 2, 3, 4}
	e.BMC.Handler = refbmc.Chain(refbmc.Fixed(6, 0x01, 0, devid), refbmc.Fixed(0, 0x01, 0, []byte{0x21, 0x10, 0x40, 0x54}), refbmc.Fixed(6, 0x3c, 0, nil))
	ctx, cancel := bg(60 * time.Second)
	defer cancel()
	sess, err := e.OpenSession(ctx, stdSuites()[int(o.Seed)%9])
	if err != nil {
		run.Violation("C17:handshake-failed", err.Error(), cs, nil)
		return
	}
	first := ""
	for i := 1; i <= o.N; i++ {
		cctx, ccancel := e.LimitCtx(3)
		var res string
		pv, st := safe(func() {
			if i%5 == 0 {
				v, err := sess.GetChassisStatus(cctx)
				res = fmt.Sprintf("chassis %v err=%v", v != nil && v.PoweredOn, err != nil)
				return
			}
			v, err := sess.GetDeviceID(cctx)
			if v != nil {
				res = fmt.Sprintf("devid %d %d %v err=%v", v.ID, v.MajorFirmwareRevision, v.Manufacturer, err != nil)
			} else {
				res = fmt.Sprintf("devid nil err=%v", err != nil)
			}
		})
		ccancel()
		if pv != nil {
			run.Violation("C17:long-session:panic:"+panicSite(st), fmt.Sprintf("command %d of a session: %v", i, pv), cs, nil)
			return
		}
		if i%5 != 0 {
			if first == "" {
				first = res
			}
			if res != first || strings.Contains(res, "err=true") {
				run.Violation("C17:conn:result-depends-on-history", fmt.Sprintf("Get Device ID as command %d of a session returns %q; as the first command it returns %q", i, res, first), cs, nil)
				return
			}
		} else if strings.Contains(res, "err=true") {
			run.Violation("C17:conn:result-depends-on-history", fmt.Sprintf("Get Chassis Status as command %d of a session fails (%s)", i, res), cs, nil)
			return
		}
	}
	run.Event("long-session-commands", o.N)
	run.Nontrivial(fmt.Sprintf("long|%d", o.N))
}

// c17Alias: a result handed to the caller by one of the high-level calls stays
// what it was when the same call is made again and answered differently (no
// result may live in storage the connection reuses).
type c17Alias struct {
	Seed      int64
	InSession bool
}

func c17AliasRun(run *ev.Run, o c17Alias) {
	r := rng(o.Seed, "c17alias")
	cfg := defaultCfg(r)
	e := NewEnv(cfg, memtr.Window)
	var body []byte
	e.BMC.Handler = func(evn *refbmc.Event) (byte, []byte, bool) {
		if evn.NetFn == 0x2c {
			return 0, append([]byte{0xdc}, body...), true
		}
		return 0, body, true
	}
	ctx, cancel := bg(60 * time.Second)
	defer cancel()
	var sc bmc.SessionCommands
	var slc bmc.SessionlessCommands = e.ST
	if o.InSession {
		sess, err := e.OpenSession(ctx, stdSuites()[int(o.Seed)%9])
		if err != nil {
			run.Violation("C17:handshake-failed", err.Error(), ev.MkCase("alias", o), nil)
			return
		}
		sc, slc = sess, sess
	}
	type api struct {
		spec string
		call func() (any, error)
	}
	apis := []api{
		{"GetChannelAuthenticationCapabilitiesRsp", func() (any, error) {
			return slc.GetChannelAuthenticationCapabilities(ctx, &ipmi.GetChannelAuthenticationCapabilitiesReq{Channel: ipmi.ChannelPresentInterface})
		}},
	}
	if sc != nil {
		apis = append(apis,
			api{"GetDeviceIDRsp", func() (any, error) { return sc.GetDeviceID(ctx) }},
			api{"GetChassisStatusRsp", func() (any, error) { return sc.GetChassisStatus(ctx) }},
			api{"GetSessionInfoRsp", func() (any, error) { return sc.GetSessionInfo(ctx, &ipmi.GetSessionInfoReq{}) }},
			api{"GetSDRRepositoryInfoRsp", func() (any, error) { return sc.GetSDRRepositoryInfo(ctx) }},
			api{"ReserveSDRRepositoryRsp", func() (any, error) { return sc.ReserveSDRRepository(ctx) }},
			api{"GetSensorReadingRsp", func() (any, error) { return sc.GetSensorReading(ctx, 7) }},
		)
	}
	for _, a := range apis {
		sp := specByName(a.spec)
		type held struct {
			v    any
			snap string
			enc  []byte
		}
		var hs []held
		for i := 0; i < 6; i++ {
			run.Eval(1)
			enc, _, br := sp.Gen(r)
			body = enc
			v, err := a.call()
			run.Nontrivial(fmt.Sprintf("alias|%s|%s|%v", a.spec, br, o.InSession))
			if err != nil || v == nil {
				continue
			}
			for _, h := range hs {
				if now := fmt.Sprint(valueFields(h.v)); now != h.snap {
					run.Violation("C17:api:earlier-result-changed:"+a.spec, fmt.Sprintf("%s: the result returned for response %x read %s; after the same call was answered with %x it reads %s", a.spec, h.enc, h.snap, enc, now), ev.MkCase("alias", o), nil)
					return
				}
			}
			hs = append(hs, held{v, fmt.Sprint(valueFields(v)), enc})
		}
	}
	run.Event("api-results-held", 1)
}
