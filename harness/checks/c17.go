package checks

import (
	"context"
	"fmt"
	"sort"
	"strings"
	"time"

	"verifharness/ev"
	"verifharness/memtr"
	"verifharness/mon"
	"verifharness/refbmc"

	"github.com/gebn/bmc"
	"github.com/gebn/bmc/pkg/ipmi"
	"github.com/google/gopacket"
)

type c17Batch struct {
	What  string // layer | conn
	Layer string
	Seed  int64
	Count int
}

type c17Pair struct {
	Layer string
	A, B  string // hex
}

type c17Conn struct {
	First, Second int // indices into c17Cmds
	FirstOutcome  string
	InSession     bool
	Suite         int
	ReuseCmd      bool
	Seed          int64
	// SecondOutcome scripts the reply to the second command: "" (ok), "empty" (code 0, empty body),
	// "cc:c1" (error code, empty body), "trunc"
	SecondOutcome string
}

var c17Cmds = []string{"devid", "chassisstatus", "guid", "authcaps", "sessioninfo", "repoinfo", "reserve", "sensorreading", "getsdr", "setpriv", "power", "sensorinfo"}

func init() {
	register(&Check{
		ID:    "C17",
		Level: "exploration",
		Rule: "layer level: for every decodable layer, ordered pairs (earlier, later) of valid encodings drawn so that every combination of optional-tail form / branch occurs; the later input is decoded into the used layer and into a fresh one and every exported field (including BaseLayer contents/payload, by value; nil and empty slices equal) must match. " +
			"connection level: every ordered pair of 12 commands, the first answered normally / with an error code / with a truncated body / with noise-then-ok, the second compared with the same command on a fresh connection to a BMC in the same state, session-less and in-session, with fresh and with reused command values. " +
			"non-trivial = pair with differing branch or length; distinct = distinct (layer, branch A, branch B) / (first, second, outcome, mode)",
		Assumptions: []string{"inputs that a decoder accepts although they are not valid encodings (e.g. a 13-byte Get Device ID body) are run as observations only and never raise a violation"},
		Gen: func(tier string, seed int64) []ev.Case {
			n := 4000
			if tier == "thorough" {
				n = 150000
			}
			var cs []ev.Case
			for _, sp := range specs() {
				for i := 0; i < n; i += 4000 {
					cs = append(cs, ev.MkCase("batch", c17Batch{What: "layer", Layer: sp.Name, Seed: seed*131 + int64(i), Count: 4000}))
				}
			}
			reps := 1
			if tier == "thorough" {
				reps = 10
			}
			for k := 0; k < reps; k++ {
				for f := 0; f < len(c17Cmds); f++ {
					cs = append(cs, ev.MkCase("batch", c17Batch{What: "conn", Count: f, Seed: seed + int64(k)*71}))
				}
			}
			return cs
		},
		Exec:    c17Exec,
		Anchors: []string{"V1Session).DecodeFromBytes", "GetSessionInfoRsp).DecodeFromBytes", "GetChassisStatusRsp).DecodeFromBytes", "GetDeviceIDRsp).DecodeFromBytes", "OpenSessionRsp).DecodeFromBytes", "GetDCMISensorInfoRsp).DecodeFromBytes", "buildAndSendCommand", "V2Session).buildAndSend"},
	})
}

func c17Exec(run *ev.Run, c ev.Case) {
	switch c.Kind {
	case "pair":
		var p c17Pair
		c.Decode(&p)
		c17Pairwise(run, specByName(p.Layer), unhex(p.A), unhex(p.B), "replay", "replay", true)
	case "conn":
		var o c17Conn
		c.Decode(&o)
		c17ConnPair(run, o)
	case "batch":
		var b c17Batch
		c.Decode(&b)
		switch b.What {
		case "layer":
			sp := specByName(b.Layer)
			r := rng(b.Seed, "c17"+b.Layer)
			for i := 0; i < b.Count; i++ {
				ea, _, bra := sp.Gen(r)
				eb, _, brb := sp.Gen(r)
				c17Pairwise(run, sp, ea, eb, bra, brb, true)
				if i%8 == 0 {
					// observation only: later input is a truncation the decoder may still accept
					if len(eb) > sp.MinLen {
						cut := sp.MinLen + r.Intn(len(eb)-sp.MinLen)
						t := append([]byte(nil), eb[:cut]...)
						if sp.FixUp != nil {
							t = sp.FixUp(t)
						}
						c17Pairwise(run, sp, ea, t, bra, "truncated", false)
					}
				}
			}
		case "conn":
			for second := 0; second < len(c17Cmds); second++ {
				for _, oc := range []string{"ok", "cc:c1", "ccb:d4", "trunc", "garbage-then-ok", "busy-then-ok"} {
					for _, inSess := range []bool{false, true} {
						c17ConnPair(run, c17Conn{First: b.Count, Second: second, FirstOutcome: oc, InSession: inSess, Suite: (b.Count + second) % 9, ReuseCmd: b.Count == second, Seed: b.Seed})
						if oc == "ok" || oc == "ccb:d4" {
							for _, so := range []string{"empty", "cc:c1", "trunc"} {
								c17ConnPair(run, c17Conn{First: b.Count, Second: second, FirstOutcome: oc, SecondOutcome: so, InSession: inSess, Suite: (b.Count + second) % 9, ReuseCmd: b.Count == second, Seed: b.Seed})
							}
						}
					}
				}
			}
		}
	}
}

func c17Pairwise(run *ev.Run, sp *layerSpec, a, b []byte, bra, brb string, deciding bool) {
	run.Eval(1)
	cs := ev.MkCase("pair", c17Pair{Layer: sp.Name, A: ev.Hex(a), B: ev.Hex(b)})
	used, fresh := sp.New(), sp.New()
	var erra, errb, errf error
	var fu, ff map[string]string
	pv, st := safe(func() {
		erra = used.DecodeFromBytes(exactCopy(a), gopacket.NilDecodeFeedback)
		errb = used.DecodeFromBytes(exactCopy(b), gopacket.NilDecodeFeedback)
		fu = mon.Fields(used)
		errf = fresh.DecodeFromBytes(exactCopy(b), gopacket.NilDecodeFeedback)
		ff = mon.Fields(fresh)
	})
	if pv != nil {
		if deciding {
			run.Violation("C17:"+sp.Name+":panic", fmt.Sprintf("panic decoding %x then %x: %v\n%s", a, b, pv, trimStack(st)), cs, nil)
		}
		return
	}
	if erra != nil && deciding {
		run.Violation("C17:"+sp.Name+":valid-encoding-rejected", fmt.Sprintf("valid encoding %x rejected: %v", a, erra), cs, nil)
		return
	}
	if (errb == nil) != (errf == nil) {
		if deciding {
			run.Violation("C17:"+sp.Name+":acceptance-depends-on-history", fmt.Sprintf("decoding %x after %x gives err=%v, into a fresh layer err=%v", b, a, errb, errf), cs, nil)
		} else {
			run.Observe("observation:acceptance-depends-on-history:"+sp.Name, 1)
		}
		return
	}
	if errf != nil {
		return
	}
	if bra != brb || len(a) != len(b) {
		run.Nontrivial(fmt.Sprintf("%s|%s|%s|%v", sp.Name, bra, brb, deciding))
	}
	var diff []string
	for k, v := range ff {
		if fu[k] != v {
			diff = append(diff, fmt.Sprintf("%s: reused %s, fresh %s", k, fu[k], v))
		}
	}
	for k := range fu {
		if _, ok := ff[k]; !ok {
			diff = append(diff, fmt.Sprintf("%s: only on reused layer (%s)", k, fu[k]))
		}
	}
	if len(diff) == 0 {
		return
	}
	sort.Strings(diff)
	field := strings.SplitN(diff[0], ":", 2)[0]
	if !deciding {
		run.Observe("observation:stale-field-after-non-valid-input:"+sp.Name+"."+field, 1)
		return
	}
	run.Violation("C17:"+sp.Name+":stale:"+field, fmt.Sprintf("%s: decoding %x (branch %s) after %x (branch %s) leaves earlier data: %v", sp.Name, b, brb, a, bra, diff), cs, nil)
}

// c17Result renders what a caller observes from one command.
func c17Result(cmd ipmi.Command, code ipmi.CompletionCode, err error) string {
	s := fmt.Sprintf("code=%v err=%v", code, err != nil)
	if err == nil && cmd.Response() != nil {
		f := valueFields(cmd.Response())
		keys := make([]string, 0, len(f))
		for k := range f {
			keys = append(keys, k)
		}
		sort.Strings(keys)
		for _, k := range keys {
			s += " " + k + "=" + f[k]
		}
	}
	return s
}

func c17ConnPair(run *ev.Run, o c17Conn) {
	run.Eval(1)
	cs := ev.MkCase("conn", o)
	// two environments with BMCs in the same state; the second command's
	// response body is the same on both
	r := rng(o.Seed+int64(o.First*16+o.Second), "c17conn"+o.FirstOutcome)
	g1 := genCommand(r, c17Cmds[o.First], 0)
	g2 := genCommand(r, c17Cmds[o.Second], 0)
	g2f := g2 // fresh copy of the second command for the fresh connection
	var g1f genCmd
	{
		r2 := rng(o.Seed+int64(o.First*16+o.Second), "c17conn"+o.FirstOutcome)
		g1f = genCommand(r2, c17Cmds[o.First], 0)
		g2f = genCommand(r2, c17Cmds[o.Second], 0)
	}
	if o.ReuseCmd && o.First == o.Second {
		// both connections answer the second call with the same body
		g2.OkBody, g2f.OkBody = g1.OkBody, g1.OkBody
		if len(g2.OkBody) > 0 {
			alt := append([]byte(nil), g2.OkBody...)
			alt[len(alt)-1] ^= 0x01
			if sp := c17SpecFor(c17Cmds[o.Second]); sp != nil {
				if b, _, _ := sp.Gen(r); true {
					alt = b
					if g2.NetFn == 0x2c {
						alt = append([]byte{0xdc}, b...)
					}
				}
			}
			g2.OkBody, g2f.OkBody = alt, alt
		}
	}
	if g1.SerFail || g2.SerFail {
		return
	}
	run1 := func(first bool, gsecond genCmd) (string, bool) {
		cfg := defaultCfg(rng(o.Seed, "c17cfg"))
		se := NewScriptEnv(cfg, memtr.Window)
		var conn bmc.Connection = se.ST
		if o.InSession {
			ctx, cancel := se.LimitCtx(20)
			s, err := se.OpenSession(ctx, stdSuites()[o.Suite%9])
			cancel()
			if err != nil {
				run.Violation("C17:handshake-failed", err.Error(), cs, nil)
				return "", false
			}
			conn = s
		}
		if first {
			script := []string{o.FirstOutcome}
			switch o.FirstOutcome {
			case "garbage-then-ok":
				script = []string{"garbage:noise"}
			case "busy-then-ok":
				script = []string{"busy"}
			}
			min := 1
			if sp := c17SpecFor(c17Cmds[o.First]); sp != nil {
				min = sp.MinLen
				if g1.NetFn == 0x2c {
					min++
				}
			}
			res := se.Run(script, g1.OkBody, min, 0, 6, func(ctx context.Context) (ipmi.CompletionCode, error) { return conn.SendCommand(ctx, g1.Cmd) })
			if res.Panic != nil {
				run.Violation("C17:conn:panic:"+panicSite(res.Stack), fmt.Sprintf("first command panicked: %v", res.Panic), cs, nil)
				return "", false
			}
		}
		cmd := gsecond.Cmd
		if first && o.ReuseCmd && o.First == o.Second {
			// reuse the very command value of the first call (as a long-lived reader or poller does)
			cmd = g1.Cmd
		} else if !first && o.ReuseCmd && o.First == o.Second {
			// the fresh connection sends the same request through a fresh command value
			cmd = g1f.Cmd
		}
		var code ipmi.CompletionCode
		var err error
		var script2 []string
		min2 := 0
		switch o.SecondOutcome {
		case "empty":
			script2, min2 = []string{"trunc"}, 1 // trunc with minimum 1 = code 0 and an empty body
			if gsecond.NetFn == 0x2c {
				min2 = 2 // keep the group extension byte
			}
		case "cc:c1":
			script2 = []string{"cc:c1"}
		case "trunc":
			script2 = []string{"trunc"}
			if sp := c17SpecFor(c17Cmds[o.Second]); sp != nil {
				min2 = sp.MinLen
				if gsecond.NetFn == 0x2c {
					min2++
				}
			}
		}
		res := se.Run(script2, gsecond.OkBody, min2, 0, 6, func(ctx context.Context) (ipmi.CompletionCode, error) {
			code, err = conn.SendCommand(ctx, cmd)
			return code, err
		})
		if res.Panic != nil {
			run.Violation("C17:conn:panic:"+panicSite(res.Stack), fmt.Sprintf("second command panicked: %v", res.Panic), cs, nil)
			return "", false
		}
		return c17Result(cmd, code, err), true
	}
	used, ok1 := run1(true, g2)
	fresh, ok2 := run1(false, g2f)
	if !ok1 || !ok2 {
		return
	}
	run.Nontrivial(fmt.Sprintf("conn|%d|%d|%s|%s|%v|%v", o.First, o.Second, o.FirstOutcome, o.SecondOutcome, o.InSession, o.ReuseCmd))
	run.Event("command-pairs", 1)
	if used != fresh {
		run.Violation("C17:conn:result-depends-on-history", fmt.Sprintf("%s after %s (%s, in-session %v): on the used connection %q, on a fresh connection %q", c17Cmds[o.Second], c17Cmds[o.First], o.FirstOutcome, o.InSession, used, fresh), cs, nil)
		return
	}
	if o.First == 4 && o.Second == 0 {
		run.Sample("conn", map[string]any{"first": c17Cmds[o.First], "first_outcome": o.FirstOutcome, "second": c17Cmds[o.Second], "in_session": o.InSession, "result": used})
	}
	_ = time.Second
	_ = refbmc.Csum
}

func c17SpecFor(kind string) *layerSpec {
	m := map[string]string{"devid": "GetDeviceIDRsp", "chassisstatus": "GetChassisStatusRsp", "guid": "GetSystemGUIDRsp", "authcaps": "GetChannelAuthenticationCapabilitiesRsp",
		"sessioninfo": "GetSessionInfoRsp", "repoinfo": "GetSDRRepositoryInfoRsp", "reserve": "ReserveSDRRepositoryRsp", "sensorreading": "GetSensorReadingRsp", "getsdr": "GetSDRRsp",
		"setpriv": "SetSessionPrivilegeLevelRsp", "power": "GetPowerReadingRsp", "sensorinfo": "GetDCMISensorInfoRsp"}
	if n, ok := m[kind]; ok {
		return specByName(n)
	}
	return nil
}
