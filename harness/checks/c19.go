package checks

import (
	"bufio"
	"context"
	"crypto/sha256"
	"fmt"
	"math"
	"math/big"
	"net"
	"os"
	"path/filepath"
	"regexp"
	"runtime"
	"sort"
	"strings"
	"sync"
	"sync/atomic"
	"time"

	"verifharness/ev"
	"verifharness/memtr"
	"verifharness/refbmc"
	"verifharness/udpbmc"

	"github.com/cenkalti/backoff/v4"
	"github.com/gebn/bmc"
	"github.com/gebn/bmc/pkg/dcmi"
	"github.com/gebn/bmc/pkg/iana"
	"github.com/gebn/bmc/pkg/ipmi"
	"github.com/google/gopacket"
)

type c19Round struct {
	N    int
	Rep  int
	Seed int64
}

func init() {
	register(&Check{
		ID:     "C19",
		Level:  "exploration",
		Serial: true, // one round at a time; the concurrency is inside the round
		Rule: "rounds of N in {2,4,8,16} goroutines, each driving its own connection (half over real DialV2/UDP with 0-2 ms reply jitter, half over the in-memory transport with Gosched between send and reply) to its own simulated BMC with a seeded random workload " +
			"(handshakes on different suites, session-less and in-session commands, cipher-suite discovery, SDR repository walks, sensor reads, DCMI enumeration, closes, re-opens), repeated R times under the Go race detector (binary built with -race, halt_on_error=0, log parsed afterwards). " +
			"Oracle 1: no DATA RACE report whose stacks contain library frames. Oracle 2: each worker's transcript (call, result digest) and its BMC's canonicalised datagram log (kind, SID, sequence, NetFn, command, body; library-chosen randoms masked) equal those of the same worker run alone. " +
			"non-trivial = a round in which transport events of different workers were interleaved; distinct = distinct interleaving signatures (hash of the worker-ID sequence of the first 4000 transport events)",
		Assumptions: []string{"the race detector judges only accesses that were executed; schedules are those the Go scheduler produced in this run",
			"a transcript difference that does not reproduce when the worker is re-run concurrently is counted as inconclusive (timeouts under load), not as a violation"},
		Gen: func(tier string, seed int64) []ev.Case {
			reps := 5
			if tier == "thorough" {
				reps = 100
			}
			var cs []ev.Case
			for rep := 0; rep < reps; rep++ {
				for _, n := range []int{16, 8, 4, 2} {
					cs = append(cs, ev.MkCase("round", c19Round{N: n, Rep: rep, Seed: seed}))
				}
				if rep%25 == 0 {
					// one BMC that has stopped answering, others that are fine
					for _, call := range []string{"sdr", "session", "suites", "dcmi"} {
						cs = append(cs, ev.MkCase("hol", c19HOL{Call: call, Seed: seed + int64(rep)}))
					}
				}
			}
			return cs
		},
		Exec:    c19Exec,
		Post:    c19Post,
		Anchors: []string{"transport).Send", "newV2Session", "V2Session).buildAndSend", "walkSDRs"},
	})
}

// c19Prefs: single-suite preference lists shared by every worker (read-only for the library).
var c19Prefs = func() map[refbmc.Suite][]ipmi.CipherSuite {
	m := map[refbmc.Suite][]ipmi.CipherSuite{}
	for _, su := range stdSuites() {
		m[su] = []ipmi.CipherSuite{libSuite(su)}
	}
	return m
}()

// c19AuthCapsReq is shared by every worker.
var c19AuthCapsReq = &ipmi.GetChannelAuthenticationCapabilitiesReq{ExtendedData: true, Channel: ipmi.ChannelPresentInterface, MaxPrivilegeLevel: ipmi.PrivilegeLevelUser}

const c19PwLen = 10

// c19Absolute prefixes a transcript line saying that a result contradicts the worker's own
// BMC (state carried over from another connection shows there even when the solo run,
// later in the same process, is affected in the same way).
const c19Absolute = "ABSOLUTE-MISMATCH: "

// c19Creds holds every worker's password back to back.
var c19Creds = make([]byte, 65*c19PwLen)

var c19RoundsDone atomic.Int64

var (
	c19TraceMu   sync.Mutex
	c19Trace     []int
	c19TraceOn   atomic.Bool
	c19SoloCache sync.Map // key -> transcript
)

func c19Stamp(worker int) {
	if !c19TraceOn.Load() {
		return
	}
	c19TraceMu.Lock()
	if len(c19Trace) < 4000 {
		c19Trace = append(c19Trace, worker)
	}
	c19TraceMu.Unlock()
}

// c19Worker runs one worker's workload and returns its transcript.
func c19Worker(seed int64, id int, useUDP bool, concurrent bool) (transcript []string, inconclusive string) {
	r := rng(seed+int64(id)*1009, "c19worker")
	cfg := defaultCfg(r)
	// identical firmware hands out identical managed-system session IDs (counting from the same
	// start after boot): three BMCs in four do; the fourth has its own
	cfg.SID = 0x0a000001
	if id%4 == 2 {
		cfg.SID = 0x0a000000 + uint32(id+1)
	}
	// the callers' passwords are adjacent pieces of one buffer (credentials read from one
	// file): each has spare capacity behind it that belongs to its neighbour
	cfg.Password = rbytes(r, c19PwLen)
	pw := c19Creds[(id%64)*c19PwLen : (id%64)*c19PwLen+c19PwLen]
	copy(pw, cfg.Password)
	b := refbmc.New(cfg)
	f1, _, _ := genFSR(r, 3, 6)
	f2, _, _ := genFSR(r, 2, 4)
	f1[18], f1[15] = 0, f1[15]&0x3f|0x80 // linear, two's complement
	// every BMC has "the same" sensor (same owner, LUN and number, as identical hardware does),
	// with its own conversion factors
	f1[0], f1[1], f1[2] = 0x20, 0x00, 5
	f3, _, _ := genFSR(r, 2, 21)
	f4, _, _ := genFSR(r, 1, 17)
	f5, _, _ := genFSR(r, 2, 9+id%8)
	repo := refbmc.NewRepo([]refbmc.SDRRecord{{ID: uint16(10 + id), Type: 1, Body: f1}, {ID: 0x200, Type: 2, Body: rbytes(r, 24)}, {ID: 0x201, Type: 1, Body: f2},
		{ID: 0x202, Type: 1, Body: f3}, {ID: 0x203, Type: 1, Body: f4}, {ID: 0x7000, Type: 1, Body: f5}}, 90000)
	advertised := []refbmc.SuiteRecord{{ID: 3, Auth: 1, Integs: []byte{1}, Confs: []byte{1}}, {ID: 17, Auth: 3, Integs: []byte{4}, Confs: []byte{1}}, {ID: 8, Auth: 2, Integs: []byte{2}, Confs: []byte{1}}}
	switch id % 4 {
	case 1:
		advertised = advertised[:1] // an older BMC: suite 3 only
		cfg.Suites = []refbmc.Suite{{Auth: 1, Integ: 1, Conf: 1}}
	case 3:
		advertised = advertised[1:] // a hardened BMC: no suite 3
		cfg.Suites = []refbmc.Suite{{Auth: 3, Integ: 4, Conf: 1}, {Auth: 2, Integ: 2, Conf: 1}}
	}
	b.Cfg.Suites = cfg.Suites
	cssrv := &refbmc.CipherSuiteServer{Channel: 1, Data: refbmc.EncodeSuiteRecords(advertised)}
	oddCodes := []byte{0xc5, 0xc9, 0xcb, 0x81, 0xd3, 0xc2, 0xce, 0x90, 0xd5, 0xc7}
	oddN := 0
	sd := &refbmc.SensorDevice{}
	sd.Set(f1[1]&3, f1[2], []byte{byte(0x30 + id), 0x40, 0})
	dcm := &refbmc.DCMISensorInfo{PageSize: 2 + id%5, IDs: map[[2]byte][]uint16{{1, 0x40}: {1, 2, 3, uint16(id)}, {1, 0x41}: {9, 8}, {1, 0x42}: {}}}
	wantDCMI := fmt.Sprintf("%v %v %v", []ipmi.RecordID{1, 2, 3, ipmi.RecordID(id)}, []ipmi.RecordID{9, 8}, []ipmi.RecordID{})
	if id%3 == 0 {
		// a BMC that answers the standard entity IDs (and, differently, the DCMI-specific ones too): the
		// standard ones are what an enumeration must return for it, whatever other BMCs of the fleet need
		dcm.IDs[[2]byte{1, 0x37}] = []uint16{uint16(0x100 + id), 0x101}
		dcm.IDs[[2]byte{1, 0x03}] = []uint16{uint16(0x110 + id)}
		dcm.IDs[[2]byte{1, 0x07}] = nil
		wantDCMI = fmt.Sprintf("%v %v %v", []ipmi.RecordID{ipmi.RecordID(0x100 + id), 0x101}, []ipmi.RecordID{ipmi.RecordID(0x110 + id)}, []ipmi.RecordID{})
	}
	guid := rbytes(r, 16)
	devid := []byte{0x20, 0x81, byte(id), 0x15, 0x02, 0xbf, 0x57, 0x01, 0x00, 0x34, 0x12, 1, 2, 3, 4}
	odd := func(e *refbmc.Event) (byte, []byte, bool) {
		if e.NetFn == 6 && e.Cmd == 0x70 {
			oddN++
			return oddCodes[(oddN+id)%len(oddCodes)], nil, true
		}
		return 0, nil, false
	}
	busyN, infoN, unkN, strayN := 0, 0, 0, 0
	unknownNext, strayNext := false, false
	unknownDatagram := []byte{6, 0, 0xff, 7, 6, 0x21, 0, 0, 0, 0, 0, 0, 0, 0, 2, 0, 0xaa, 0x55}
	extra := func(e *refbmc.Event) (byte, []byte, bool) {
		switch {
		case e.NetFn == 6 && e.Cmd == 0x71:
			// busy on every first attempt, then the answer
			busyN++
			if busyN%2 == 1 {
				return 0xc0, nil, true
			}
			return 0, []byte{byte(id), byte(busyN)}, true
		case e.NetFn == 6 && e.Cmd == 0x72:
			// the first attempt is answered by a datagram of a payload type nobody has registered
			// (see the transport closure), the second by the answer
			unkN++
			if unkN%2 == 1 {
				unknownNext = true
			}
			return 0, []byte{byte(id), byte(unkN)}, true
		case e.NetFn == 6 && e.Cmd == 0x73:
			// the first attempt is answered by a late reply to another command (see the transport
			// closure), the second by the answer
			strayN++
			if strayN%2 == 1 {
				strayNext = true
			}
			return 0, []byte{byte(id), byte(strayN), 0x73}, true
		case e.NetFn == 6 && e.Cmd == 0x3d:
			infoN++
			return 0, []byte{byte(infoN), 0x24, 1, 2, 4, 0x11, 10, byte(id), byte(infoN), byte(infoN * 7), 2, byte(id), 3, byte(infoN), 5, 6, byte(infoN), byte(id)}, true
		}
		return 0, nil, false
	}
	oldStyle := func(e *refbmc.Event) (byte, []byte, bool) {
		if id%8 == 5 && e.Kind == "session-ipmi" && e.NetFn == 6 && e.Cmd == 0x38 && len(e.Data) == 2 && e.Data[0]&0x80 != 0 {
			return 0xcc, nil, true // a v1.5-era command handler: "invalid data field" for the v2.0 bit
		}
		return 0, nil, false
	}
	inner := refbmc.Chain(oldStyle, odd, extra, repo.Handle, cssrv.Handle, sd.Handle, dcm.Handle, refbmc.Fixed(6, 0x37, 0, guid), refbmc.Fixed(6, 0x01, 0, devid),
		refbmc.Fixed(6, 0x38, 0, []byte{1, 0x80, 0x14, 0x02, 0, 0, 0, byte(id)}), refbmc.Fixed(0, 0x01, 0, []byte{0x21, 0x10, 0x40, byte(id)}), refbmc.Fixed(6, 0x3c, 0, nil))
	b.Handler = func(e *refbmc.Event) (byte, []byte, bool) {
		c19Stamp(id)
		return inner(e)
	}
	var st *bmc.V2SessionlessTransport
	var srv *udpbmc.Server
	dialAddr := ""
	if useUDP {
		var err error
		if id%8 == 6 {
			srv, err = udpbmc.ListenV6(b) // one BMC of the fleet is reached over IPv6
		} else {
			srv, err = udpbmc.Listen(b)
		}
		if err != nil {
			return nil, "udp listen: " + err.Error()
		}
		defer srv.Close()
		jr := rng(seed+int64(id), "c19jitter")
		var jmu sync.Mutex
		srv.SetJitter(func() time.Duration {
			jmu.Lock()
			defer jmu.Unlock()
			return time.Duration(jr.Intn(2000)) * time.Microsecond
		})
		// a quarter of the fleet is addressed by host name (the same name for all of them, as BMCs
		// behind one NAT address or one test host are), the rest by IP literal
		dialAddr = srv.Addr()
		if id%4 == 0 {
			if byName := strings.Replace(dialAddr, "127.0.0.1", "localhost", 1); byName != dialAddr {
				if a, rerr := net.ResolveUDPAddr("udp", byName); rerr == nil && a.IP.Equal(net.IPv4(127, 0, 0, 1)) {
					dialAddr = byName
				}
			}
		}
		st, err = bmc.DialV2(dialAddr, bmc.WithTimeout(4*time.Second))
		if err != nil {
			return nil, "udp dial: " + err.Error()
		}
		defer func() { st.Close() }()
	} else {
		t := memtr.New(func(n int, req []byte) ([]byte, error) {
			c19Stamp(id)
			rsp := b.Handle(req)
			runtime.Gosched()
			if unknownNext {
				unknownNext = false
				return unknownDatagram, nil
			}
			if strayNext {
				strayNext = false
				if last := b.Last(); last != nil && b.Sess != nil && b.Sess.Active {
					return b.Sess.Wrap(refbmc.BuildRsp(0x81, 0x07, 0, 0x20, last.RqSeq, 0, 0x01, 0, devid), refbmc.WrapOpts{}), nil
				}
			}
			return rsp, nil
		})
		t.Mode = memtr.Window
		t.DropBytes = true
		st = bmc.VerifNewV2SessionlessTransport(t, 4*time.Second, &backoff.ZeroBackOff{})
	}
	ctx, cancel := context.WithTimeout(context.Background(), 40*time.Second)
	defer cancel()
	alwaysAnswered := map[string]bool{"chassis": true, "chassis-after-stray": true, "devid": true, "devid-after-stray": true, "guid": true, "sl-guid": true,
		"stray-then-ok": true, "busy-then-ok": true, "unknown-payload-then-ok": true, "raw-devid": true}
	rec := func(call string, v any, err error) {
		transcript = append(transcript, fmt.Sprintf("%s => %v err=%v", call, v, err != nil))
		if err != nil && !useUDP && alwaysAnswered[call] {
			// the in-memory worker's BMC answers these commands every time and nothing is ever lost on
			// its transport: a failure has no cause on this connection
			transcript = append(transcript, fmt.Sprintf("%s%s failed (%v) although this worker's BMC answers it every time and its transport loses nothing", c19Absolute, call, err))
		}
	}
	var olds []*bmc.V2SessionlessTransport
	defer func() {
		if useUDP {
			for _, o := range olds {
				o.Close()
			}
		}
	}()
	dial := func() *bmc.V2SessionlessTransport {
		if useUDP {
			n, err := bmc.DialV2(dialAddr, bmc.WithTimeout(4*time.Second))
			if err != nil {
				return nil
			}
			return n
		}
		t := memtr.New(func(n int, req []byte) ([]byte, error) {
			c19Stamp(id)
			rsp := b.Handle(req)
			runtime.Gosched()
			return rsp, nil
		})
		t.Mode = memtr.Window
		t.DropBytes = true
		return bmc.VerifNewV2SessionlessTransport(t, 4*time.Second, &backoff.ZeroBackOff{})
	}
	var sess *bmc.V2Session
	open := func(k int) {
		opts := &bmc.V2SessionOpts{SessionOpts: bmc.SessionOpts{Username: cfg.Username, Password: pw, MaxPrivilegeLevel: ipmi.PrivilegeLevelAdministrator}}
		if k >= 0 {
			// one preference list per suite for the whole process: callers share their options
			opts.CipherSuites = c19Prefs[cfg.Suites[k%len(cfg.Suites)]]
		}
		s, err := st.NewV2Session(ctx, opts)
		if err == nil {
			sess = s
			rec("open", fmt.Sprintf("%v/%v/%v ids %#x %#x", s.AuthenticationAlgorithm, s.IntegrityAlgorithm, s.ConfidentialityAlgorithm, s.LocalID, s.RemoteID), nil)
		} else {
			rec("open", nil, err)
		}
	}
	nops := 24 + r.Intn(12)
	// two scripted personalities besides the random one: a connection that keeps being used
	// across session open/close cycles, and one that keeps dialling fresh connections
	var script []int
	switch id % 8 { // workers 4..7 (mod 8) draw their operations at random
	case 3:
		// a poller: repository walks, sensor reads and enumerations back to back
		for k := 0; k < 5; k++ {
			script = append(script, 2, 6, 7, 6, 12, 8, 6, 1, 6)
		}
	case 1:
		for k := 0; k < 6; k++ {
			script = append(script, 2, 16, 17, 15, 18, 16, 4)
		}
	case 0:
		for k := 0; k < 8; k++ {
			script = append(script, 2, 3, 15, 16, 100, 0, 0, 9)
		}
	case 2:
		for k := 0; k < 16; k++ {
			script = append(script, 13, 0, 0)
		}
	}
	if len(script) > 0 {
		nops = len(script)
	}
	for i := 0; i < nops; i++ {
		op := r.Intn(19)
		if len(script) > 0 {
			op = script[i]
		}
		if sess == nil && op >= 3 && op != 13 && op != 100 {
			op = 2
		}
		if (op == 16 || op == 17 || op == 18) && useUDP {
			op = 15 // a busy reply over UDP costs the library's own 500 ms back-off; the in-memory workers (zero back-off) take those
		}
		switch op {
		case 100:
			// close the session but keep using the connection
			if sess != nil {
				rec("close", nil, sess.Close(ctx))
				sess = nil
				runtime.Gosched()
			}
		case 0:
			g, err := st.GetSystemGUID(ctx)
			rec("sl-guid", g, err)
		case 1:
			rs, err := bmc.RetrieveSupportedCipherSuites(ctx, st)
			rec("suites", rs, err)
		case 2:
			if sess != nil {
				rec("close", nil, sess.Close(ctx))
				sess = nil
			}
			open(r.Intn(4) - 1)
		case 3:
			v, err := sess.GetDeviceID(ctx)
			if v != nil {
				rec("devid", fmt.Sprintf("%d %d %v", v.ID, v.MajorFirmwareRevision, v.Manufacturer), err)
			} else {
				rec("devid", nil, err)
			}
		case 4:
			g, err := sess.GetSystemGUID(ctx)
			rec("guid", g, err)
		case 5:
			v, err := sess.GetChassisStatus(ctx)
			if v != nil {
				rec("chassis", fmt.Sprintf("%v %v %v", v.PoweredOn, v.PowerRestorePolicy, v.StandbyButtonDisableAllowed), err)
			} else {
				rec("chassis", nil, err)
			}
		case 6:
			m, err := bmc.RetrieveSDRRepository(ctx, sess)
			var keys []string
			for k, v := range m {
				keys = append(keys, fmt.Sprintf("%#x:%s:%d", k, v.Identity, v.Number))
			}
			sort.Strings(keys)
			rec("sdr", keys, err)
		case 7:
			var fr ipmi.FullSensorRecord
			if err := fr.DecodeFromBytes(f1, gopacket.NilDecodeFeedback); err == nil {
				if rd, err := bmc.NewSensorReader(&fr); err == nil {
					v, err := rd.Read(ctx, sess)
					rec("sensor", v, err)
					// the reading is this BMC's raw byte converted with this BMC's record (linear, two's
					// complement): every BMC of the fleet has a sensor with the same key and other factors
					x := int64(int8(byte(0x30 + id)))
					lin := new(big.Rat).Mul(new(big.Rat).Add(new(big.Rat).SetInt64(int64(fr.M)*x), new(big.Rat).Mul(new(big.Rat).SetInt64(int64(fr.B)), pow10Rat(int(fr.BExp)))), pow10Rat(int(fr.RExp)))
					want, _ := lin.Float64()
					if err == nil && math.Abs(v-want) > 1e-9*math.Max(1, math.Abs(want)) {
						transcript = append(transcript, fmt.Sprintf("%ssensor reading converted to %v, this worker's BMC and record give %v (M %d B %d exponents %d %d raw %#x)", c19Absolute, v, want, fr.M, fr.B, fr.BExp, fr.RExp, byte(0x30+id)))
					}
				}
			}
		case 8:
			v, err := dcmi.GetSensorInfo(ctx, sess)
			if v != nil {
				rec("dcmi", fmt.Sprintf("%v %v %v", v.Inlet, v.CPU, v.Baseboard), err)
				if got := fmt.Sprintf("%v %v %v", append([]ipmi.RecordID{}, v.Inlet...), append([]ipmi.RecordID{}, v.CPU...), append([]ipmi.RecordID{}, v.Baseboard...)); err == nil && got != wantDCMI {
					transcript = append(transcript, fmt.Sprintf("%sDCMI enumeration returned %s, this worker's BMC holds %s", c19Absolute, got, wantDCMI))
				}
			} else {
				rec("dcmi", nil, err)
			}
		case 9:
			// one request value for the whole fleet (read-only for the library): it asks for the extended data
			v, err := sess.GetChannelAuthenticationCapabilities(ctx, c19AuthCapsReq)
			if v != nil {
				rec("authcaps", fmt.Sprintf("%v %v %d", v.Channel, v.SupportsV2, v.OEMData), err)
			} else {
				rec("authcaps", nil, err)
			}
			if last := b.Last(); last != nil && last.NetFn == 6 && last.Cmd == 0x38 && (len(last.Data) != 2 || last.Data[0]&0x80 == 0) {
				transcript = append(transcript, fmt.Sprintf("%sGet Channel Authentication Capabilities request data %x reached this worker's BMC: the caller asked for the extended data (bit 7 of the first byte) on the present interface", c19Absolute, last.Data))
			}
		case 10:
			cmd := &RawCmd{Op: ipmi.Operation{Function: ipmi.NetworkFunctionAppReq, Command: 0x01}, NoReq: true}
			code, err := sess.SendCommand(ctx, cmd)
			rec("raw-devid", fmt.Sprintf("%v %x", code, cmd.Rsp.Data), err)
		case 11:
			_, err := sess.SetSessionPrivilegeLevel(ctx, ipmi.PrivilegeLevelCallback)
			rec("serfail", nil, err)
		case 12, 14:
			// a command the BMC answers with a completion code the library has no description for
			cmd := &RawCmd{Op: ipmi.Operation{Function: ipmi.NetworkFunctionAppReq, Command: 0x70}, NoReq: true, NoRsp: true}
			code, err := sess.SendCommand(ctx, cmd)
			rec("odd-code", fmt.Sprintf("%v", code), err)
		case 15:
			v, err := sess.GetSessionInfo(ctx, &ipmi.GetSessionInfoReq{Index: ipmi.SessionIndexCurrent})
			runtime.Gosched() // the result is looked at a moment later, as a caller would
			if v != nil {
				rec("sessioninfo", fmt.Sprintf("%v %v %v %d %v", v.Handle, v.IP, v.MAC, v.Port, v.PrivilegeLevel), err)
			} else {
				rec("sessioninfo", nil, err)
			}
		case 16:
			cmd := &RawCmd{Op: ipmi.Operation{Function: ipmi.NetworkFunctionAppReq, Command: 0x71}, NoReq: true}
			code, err := sess.SendCommand(ctx, cmd)
			rec("busy-then-ok", fmt.Sprintf("%v %x", code, cmd.Rsp.Data), err)
		case 17:
			cmd := &RawCmd{Op: ipmi.Operation{Function: ipmi.NetworkFunctionAppReq, Command: 0x72}, NoReq: true}
			code, err := sess.SendCommand(ctx, cmd)
			rec("unknown-payload-then-ok", fmt.Sprintf("%v %x", code, cmd.Rsp.Data), err)
		case 18:
			cmd := &RawCmd{Op: ipmi.Operation{Function: ipmi.NetworkFunctionAppReq, Command: 0x73}, NoReq: true}
			code, err := sess.SendCommand(ctx, cmd)
			rec("stray-then-ok", fmt.Sprintf("%v %x", code, cmd.Rsp.Data), err)
			// the same with one of the library's own command types in flight (their operation values
			// are package-level data shared by every connection)
			strayNext = true
			cs, err := sess.GetChassisStatus(ctx)
			if cs != nil {
				rec("chassis-after-stray", fmt.Sprintf("%v %v", cs.PoweredOn, cs.PowerRestorePolicy), err)
			} else {
				rec("chassis-after-stray", nil, err)
			}
			v, err := sess.GetDeviceID(ctx)
			if v != nil {
				rec("devid-after-stray", fmt.Sprintf("%d %v", v.ID, v.Manufacturer), err)
			} else {
				rec("devid-after-stray", nil, err)
			}
		case 13:
			// the session (if any) is closed, the old connection is kept open and a new one is dialled
			if sess != nil {
				rec("close", nil, sess.Close(ctx))
				sess = nil
			}
			if n := dial(); n != nil {
				olds = append(olds, st)
				g, err := st.GetSystemGUID(ctx) // the old connection is still usable
				rec("old-conn-guid", g, err)
				st = n
				rec("redial", nil, nil)
			}
		}
	}
	if sess != nil {
		rec("close", nil, sess.Close(ctx))
	}
	// the BMC's view, canonicalised
	retrans := 0
	for _, e := range b.Events() {
		line := ""
		switch e.Kind {
		case "open":
			line = fmt.Sprintf("open %x", e.Payload)
		case "rakp1":
			p := append([]byte(nil), e.Payload...)
			if len(p) >= 24 {
				for i := 8; i < 24; i++ {
					p[i] = 0 // remote console random number
				}
			}
			line = fmt.Sprintf("rakp1 %x", p)
		case "rakp3":
			p := e.Payload
			if len(p) > 8 {
				p = p[:8] // AuthCode depends on the random numbers
			}
			line = fmt.Sprintf("rakp3 %x len %d", p, len(e.Payload))
		default:
			line = fmt.Sprintf("%s sid %#x seq %d netfn %#x lun %d cmd %#x data %x problem %q", e.Kind, e.SID, e.Seq, e.NetFn, e.RsLUN, e.Cmd, e.Data, e.Problem)
		}
		transcript = append(transcript, "bmc: "+line)
	}
	if useUDP && srv != nil {
		_ = retrans
	}
	return transcript, ""
}

func c19Digest(t []string) string {
	h := sha256.Sum256([]byte(strings.Join(t, "\n")))
	return fmt.Sprintf("%x", h[:8])
}

// c19HOL is a head-of-line case: one goroutine is stuck in a call to a BMC that
// has stopped answering (until its per-request timeout), while others make the
// same kind of call to healthy BMCs with a deadline far shorter than that
// timeout and far longer than the call needs. Alone they succeed; they must
// succeed here as well.
type c19HOL struct {
	Call string // sdr | session | suites | dcmi
	Seed int64
}

func c19RunHOL(run *ev.Run, h c19HOL, c ev.Case) {
	run.Eval(1)
	mk := func(id int, stuck bool) (st *bmc.V2SessionlessTransport, cfg refbmc.Config, done func(), err error) {
		r := rng(h.Seed+int64(id)*77, "c19hol")
		cfg = defaultCfg(r)
		b := refbmc.New(cfg)
		f1, _, _ := genFSR(r, 3, 6)
		f2, _, _ := genFSR(r, 3, 5)
		repo := refbmc.NewRepo([]refbmc.SDRRecord{{ID: 1, Type: 1, Body: f1}, {ID: 2, Type: 1, Body: f2}}, 5000)
		cssrv := &refbmc.CipherSuiteServer{Channel: 1, Data: refbmc.EncodeSuiteRecords([]refbmc.SuiteRecord{{ID: 3, Auth: 1, Integs: []byte{1}, Confs: []byte{1}}, {ID: 17, Auth: 3, Integs: []byte{4}, Confs: []byte{1}}})}
		dcm := &refbmc.DCMISensorInfo{PageSize: 3, IDs: map[[2]byte][]uint16{{1, 0x40}: {1, 2, 3}, {1, 0x41}: {9}, {1, 0x42}: {}}}
		b.Handler = refbmc.Chain(repo.Handle, cssrv.Handle, dcm.Handle, refbmc.Fixed(6, 0x3c, 0, nil))
		srv, lerr := udpbmc.Listen(b)
		if lerr != nil {
			return nil, cfg, nil, lerr
		}
		if stuck {
			srv.SetFault(func(n int, req, reply []byte) ([][]byte, time.Duration) {
				if e := b.Last(); e != nil && (e.Kind == "session-ipmi" && (e.NetFn == 0x0a && e.Cmd == 0x23 || e.NetFn == 0x2c) || e.Kind == "rakp1" && h.Call == "session" || e.Kind == "sessionless-ipmi" && e.Cmd == 0x54 && h.Call == "suites") {
					return nil, 0 // this BMC has stopped answering
				}
				return [][]byte{reply}, 0
			})
		}
		st, err = bmc.DialV2(srv.Addr(), bmc.WithTimeout(3*time.Second))
		if err != nil {
			srv.Close()
			return nil, cfg, nil, err
		}
		return st, cfg, func() { st.Close(); srv.Close() }, nil
	}
	call := func(ctx context.Context, st *bmc.V2SessionlessTransport, cfg refbmc.Config, setup context.Context) (string, error) {
		opts := &bmc.V2SessionOpts{SessionOpts: bmc.SessionOpts{Username: cfg.Username, Password: cfg.Password, MaxPrivilegeLevel: ipmi.PrivilegeLevelAdministrator}, CipherSuites: []ipmi.CipherSuite{ipmi.CipherSuite3}}
		switch h.Call {
		case "suites":
			v, err := bmc.RetrieveSupportedCipherSuites(ctx, st)
			return fmt.Sprint(len(v)), err
		case "session":
			s, err := st.NewV2Session(ctx, opts)
			if err != nil {
				return "", err
			}
			return "session", s.Close(ctx)
		}
		s, err := st.NewV2Session(setup, opts)
		if err != nil {
			return "", fmt.Errorf("setup: %w", err)
		}
		if h.Call == "dcmi" {
			v, err := dcmi.GetSensorInfo(ctx, s)
			if err != nil {
				return "", err
			}
			return fmt.Sprint(v.Inlet, v.CPU, v.Baseboard), nil
		}
		m, err := bmc.RetrieveSDRRepository(ctx, s)
		return fmt.Sprint(len(m)), err
	}
	setup, cancelSetup := context.WithTimeout(context.Background(), 20*time.Second)
	defer cancelSetup()
	stuckST, stuckCfg, stuckDone, err := mk(0, true)
	if err != nil {
		run.Inconclusive("hol setup: " + err.Error())
		return
	}
	defer stuckDone()
	const healthy = 3
	type res struct {
		v   string
		err error
		d   time.Duration
	}
	results := make([]res, healthy)
	var wg sync.WaitGroup
	wg.Add(1)
	go func() {
		defer wg.Done()
		ctx, cancel := context.WithTimeout(context.Background(), 3500*time.Millisecond)
		defer cancel()
		safe(func() { call(ctx, stuckST, stuckCfg, setup) })
	}()
	time.Sleep(300 * time.Millisecond) // the stuck call is under way
	for i := 0; i < healthy; i++ {
		wg.Add(1)
		go func(i int) {
			defer wg.Done()
			st, cfg, done, err := mk(i+1, false)
			if err != nil {
				results[i].err = err
				return
			}
			defer done()
			ctx, cancel := context.WithTimeout(context.Background(), 1500*time.Millisecond)
			defer cancel()
			t0 := time.Now()
			safe(func() { results[i].v, results[i].err = call(ctx, st, cfg, setup) })
			results[i].d = time.Since(t0)
		}(i)
	}
	wg.Wait()
	run.Nontrivial("hol|" + h.Call)
	run.Event("head-of-line-cases", 1)
	for i, r := range results {
		if r.err == nil {
			continue
		}
		// the same call alone
		st, cfg, done, err := mk(i+1, false)
		if err != nil {
			run.Inconclusive("hol solo setup: " + err.Error())
			return
		}
		ctx, cancel := context.WithTimeout(context.Background(), 1500*time.Millisecond)
		v, serr := call(ctx, st, cfg, setup)
		cancel()
		done()
		if serr != nil {
			run.Inconclusive(fmt.Sprintf("head-of-line case %s: the healthy call fails alone as well (%v)", h.Call, serr))
			return
		}
		run.Violation("C19:interference:blocked-by-another-connection", fmt.Sprintf("while another goroutine's %s call waited for a BMC that has stopped answering, the same call to a healthy BMC failed after %v with %v; alone it returns %q", h.Call, r.d, r.err, v), c, nil)
		return
	}
}

func c19Exec(run *ev.Run, c ev.Case) {
	if c.Kind == "hol" {
		var h c19HOL
		c.Decode(&h)
		c19RunHOL(run, h, c)
		return
	}
	var rd c19Round
	c.Decode(&rd)
	run.Eval(rd.N)
	if c19RoundsDone.Load() > 0 {
		// between rounds nothing of the library is running: the documented moment for an application
		// to register another vendor's payload type. The call must come back.
		regDone := make(chan struct{})
		go func() {
			ipmi.RegisterOEMPayloadDescriptor(iana.Enterprise(0x1234), uint16(c19RoundsDone.Load()), gopacket.LayerTypePayload)
			close(regDone)
		}()
		select {
		case <-regDone:
			run.Event("payload-descriptors-registered-between-rounds", 1)
		case <-time.After(20 * time.Second):
			run.Violation("C19:registration-blocked", fmt.Sprintf("before round N=%d rep %d: RegisterOEMPayloadDescriptor, called while no connection was in use, did not return within 20 s (process-wide state left behind by earlier connections)", rd.N, rd.Rep), c, nil)
			os.Exit(run.Finish())
		}
	}
	defer c19RoundsDone.Add(1)
	c19TraceMu.Lock()
	c19Trace = c19Trace[:0]
	c19TraceMu.Unlock()
	c19TraceOn.Store(true)
	got := make([][]string, rd.N)
	incs := make([]string, rd.N)
	var wg sync.WaitGroup
	startGate := make(chan struct{})
	for w := 0; w < rd.N; w++ {
		wg.Add(1)
		go func(w int) {
			defer wg.Done()
			<-startGate
			pv, st := safe(func() { got[w], incs[w] = c19Worker(rd.Seed, w, w%2 == 0, true) })
			if pv != nil {
				incs[w] = "panicked"
				run.Violation("C19:panic-under-concurrency:"+panicSite(st), fmt.Sprintf("round N=%d rep %d worker %d panicked while other connections were in use: %v\n%s", rd.N, rd.Rep, w, pv, trimStack(st)), c, nil)
			}
		}(w)
	}
	close(startGate)
	roundDone := make(chan struct{})
	go func() { wg.Wait(); close(roundDone) }()
	select {
	case <-roundDone:
	case <-time.After(240 * time.Second):
		// every call of a worker carries a 40 s context
		run.Violation("C19:round-never-finished", fmt.Sprintf("round N=%d rep %d: workers were still inside library calls 240 s after the start although every call has a 40 s context", rd.N, rd.Rep), c, nil)
		os.Exit(run.Finish())
	}
	c19TraceOn.Store(false)
	// solo references (cached per worker identity), computed AFTER the concurrent run so that
	// first-use effects (lazily initialised shared state) happen under concurrency
	solo := make([][]string, rd.N)
	for w := 0; w < rd.N; w++ {
		key := fmt.Sprintf("%d/%d/%v", rd.Seed, w, w%2 == 0)
		if v, ok := c19SoloCache.Load(key); ok {
			solo[w] = v.([]string)
			continue
		}
		t, inc := c19Worker(rd.Seed, w, w%2 == 0, false)
		if inc != "" {
			run.Inconclusive(inc)
			return
		}
		c19SoloCache.Store(key, t)
		solo[w] = t
	}
	c19TraceMu.Lock()
	trace := append([]int(nil), c19Trace...)
	c19TraceMu.Unlock()
	cross := 0
	for i := 1; i < len(trace); i++ {
		if trace[i] != trace[i-1] {
			cross++
		}
	}
	sig := sha256.Sum256([]byte(fmt.Sprint(trace)))
	run.Event("transport-events-traced", len(trace))
	run.Event("cross-worker-adjacencies", cross)
	if cross > 0 {
		run.Nontrivial(fmt.Sprintf("%x", sig[:8]))
	}
	for w := 0; w < rd.N; w++ {
		for _, l := range got[w] {
			if strings.HasPrefix(l, c19Absolute) {
				run.Violation("C19:result-not-from-own-bmc", fmt.Sprintf("round N=%d rep %d worker %d (udp %v): %s", rd.N, rd.Rep, w, w%2 == 0, strings.TrimPrefix(l, c19Absolute)), c, nil)
				break
			}
		}
	}
	verified, reproduced := 0, 0
	for w := 0; w < rd.N; w++ {
		if incs[w] != "" {
			run.Inconclusive(incs[w])
			continue
		}
		run.Event("worker-transcripts-compared", 1)
		run.Event("transcript-lines", len(got[w]))
		if c19Digest(got[w]) == c19Digest(solo[w]) {
			continue
		}
		if verified >= 2 {
			// re-verification is bounded to two workers per round (each attempt may run into timeouts on a broken tree)
			diff := c19FirstDiff(solo[w], got[w])
			if reproduced > 0 {
				run.Violation("C19:interference", fmt.Sprintf("round N=%d rep %d worker %d (udp %v): results or datagrams differ from the same workload run alone (not re-verified individually; other workers of this round reproduced): %s", rd.N, rd.Rep, w, w%2 == 0, diff), c, nil)
			} else {
				run.Inconclusive(fmt.Sprintf("round N=%d rep %d worker %d: transcript differed, not re-verified (%s)", rd.N, rd.Rep, w, diff))
			}
			continue
		}
		verified++
		// does it reproduce? run the same worker again, concurrently with a peer
		repro := 0
		for try := 0; try < 2; try++ {
			var wg2 sync.WaitGroup
			var again []string
			wg2.Add(2)
			go func() { defer wg2.Done(); again, _ = c19Worker(rd.Seed, w, w%2 == 0, true) }()
			go func() { defer wg2.Done(); c19Worker(rd.Seed, (w+1)%rd.N, (w+1)%2 == 0, true) }()
			wg2.Wait()
			if c19Digest(again) != c19Digest(solo[w]) {
				repro++
			}
		}
		diff := c19FirstDiff(solo[w], got[w])
		if repro == 0 {
			run.Inconclusive(fmt.Sprintf("round N=%d rep %d worker %d: transcript differed once and did not reproduce (%s)", rd.N, rd.Rep, w, diff))
			continue
		}
		reproduced++
		run.Violation("C19:interference", fmt.Sprintf("round N=%d rep %d worker %d (udp %v): results or datagrams differ from the same workload run alone (reproduced %d/2): %s", rd.N, rd.Rep, w, w%2 == 0, repro, diff), c, nil)
	}
	if rd.Rep == 0 {
		run.Sample(fmt.Sprintf("N=%d", rd.N), map[string]any{"workers": rd.N, "transport_events_traced": len(trace), "cross_worker_adjacencies": cross, "interleaving_signature": fmt.Sprintf("%x", sig[:8]),
			"worker0_transcript_head": solo[0][:min(6, len(solo[0]))]})
	}
}

func c19FirstDiff(a, b []string) string {
	for i := 0; i < len(a) && i < len(b); i++ {
		if a[i] != b[i] {
			return fmt.Sprintf("line %d: alone %q, concurrent %q", i, a[i], b[i])
		}
	}
	return fmt.Sprintf("lengths %d vs %d", len(a), len(b))
}

var c19FrameRe = regexp.MustCompile(`^\s+(\S+)\(\)$`)

// c19Post parses the race detector's log.
// c19Canary: package-level state must be as at start-up: a handshake with
// default preferences against a BMC advertising suites 3 and 17 proposes 17.
func c19Canary(run *ev.Run, when string) {
	r := rng(7, "c19canary")
	cfg := defaultCfg(r)
	e := NewEnv(cfg, memtr.Window)
	server := &refbmc.CipherSuiteServer{Channel: 1, Data: refbmc.EncodeSuiteRecords([]refbmc.SuiteRecord{{ID: 3, Auth: 1, Integs: []byte{1}, Confs: []byte{1}}, {ID: 17, Auth: 3, Integs: []byte{4}, Confs: []byte{1}}})}
	e.BMC.Handler = server.Handle
	ctx, cancel := e.LimitCtx(20)
	defer cancel()
	s, err := e.ST.NewV2Session(ctx, &bmc.V2SessionOpts{SessionOpts: bmc.SessionOpts{Username: cfg.Username, Password: cfg.Password, MaxPrivilegeLevel: ipmi.PrivilegeLevelAdministrator}})
	if err != nil || s.AuthenticationAlgorithm != ipmi.AuthenticationAlgorithmHMACSHA256 {
		alg := "none"
		if s != nil {
			alg = s.AuthenticationAlgorithm.String()
		}
		run.Violation("C19:shared-state-changed", fmt.Sprintf("%s: a default-preference handshake against a BMC advertising suites 3 and 17 gave err=%v, authentication %s (expected suite 17): package-level state was modified by other connections", when, err, alg), ev.MkCase("round", c19Round{N: 16}), nil)
	}
}

func c19Post(run *ev.Run, tier string, seed int64) {
	c19Canary(run, "after all rounds")
	prefix := os.Getenv("VERIF_RACE_LOG")
	if prefix == "" {
		run.Inconclusive("VERIF_RACE_LOG not set: race reports not inspected")
		return
	}
	files, _ := filepath.Glob(prefix + ".*")
	blocks := 0
	libBlocks := map[string]string{}
	harnessBlocks := 0
	for _, f := range files {
		fh, err := os.Open(f)
		if err != nil {
			continue
		}
		sc := bufio.NewScanner(fh)
		sc.Buffer(make([]byte, 1<<20), 1<<20)
		var cur []string
		flush := func() {
			if len(cur) == 0 {
				return
			}
			blocks++
			text := strings.Join(cur, "\n")
			if strings.Contains(text, "github.com/gebn/bmc") {
				// dedupe by the set of library functions involved, line numbers stripped
				var fns []string
				seen := map[string]bool{}
				for _, l := range cur {
					if m := c19FrameRe.FindStringSubmatch(l); m != nil && strings.Contains(m[1], "github.com/gebn/bmc") && !seen[m[1]] {
						seen[m[1]] = true
						fns = append(fns, m[1])
					}
				}
				sort.Strings(fns)
				key := strings.Join(fns, "|")
				if len(key) > 300 {
					key = key[:300]
				}
				if _, ok := libBlocks[key]; !ok {
					libBlocks[key] = text
				}
			} else {
				harnessBlocks++
			}
			cur = nil
		}
		for sc.Scan() {
			l := sc.Text()
			if strings.HasPrefix(l, "WARNING: DATA RACE") {
				flush()
				cur = []string{l}
				continue
			}
			if strings.HasPrefix(l, "==================") {
				flush()
				continue
			}
			if cur != nil {
				cur = append(cur, l)
			}
		}
		flush()
		fh.Close()
	}
	run.Set("race_report_blocks", blocks)
	run.Set("race_detector_enabled", raceEnabled)
	if !raceEnabled {
		run.Inconclusive("binary was not built with -race")
	}
	for key, text := range libBlocks {
		run.Violation("C19:data-race:"+key, "race detector report involving library code:\n"+trimStack(text), ev.MkCase("round", c19Round{N: 16, Rep: 0, Seed: seed}), nil)
	}
	if harnessBlocks > 0 {
		run.Inconclusive(fmt.Sprintf("%d race reports involve only harness code (monitor bug, not judged)", harnessBlocks))
	}
}
