package checks

import (
	"bytes"
	"context"
	"fmt"
	"math/rand"
	"time"

	"verifharness/ev"
	"verifharness/memtr"
	"verifharness/refbmc"

	"github.com/gebn/bmc"
	"github.com/gebn/bmc/pkg/ipmi"
)

// c01P is one handshake configuration.
type c01P struct {
	Suite    refbmc.Suite
	User     string
	Pass     []byte
	KGMode   int // 0 absent, 1 random 20 bytes, 2 equal to (padded) password, 3 absent but given as an empty non-nil slice
	KG       []byte
	Priv     byte
	Lookup   bool // PrivilegeLevelLookup
	Seed     int64
	Cmds     int
	SIDb     uint32
	UDP      bool
	Discover bool // give the library two preferences so it performs discovery first
	// ViaNewSession: the version-agnostic entry point NewSession(ctx, *SessionOpts) is used (no KG, name-only
	// lookup, the library's default preferences 17 then 3 with discovery)
	ViaNewSession bool `json:",omitempty"`
}

type c01Batch struct {
	Kind  string // "grid" | "random" | "none"
	Seed  int64
	From  int
	Count int
	UDP   bool
}

func init() {
	register(&Check{
		ID:    "C01",
		Level: "exploration",
		Rule: "cases are handshake configurations (suite x username length x password length x KG mode x privilege x lookup mode x BMC randoms/IDs) " +
			"run against the independent simulated BMC; grid part enumerates suites x username lengths 0..16 x password lengths 0..20 (quick: pairwise-ish strided, thorough: full) " +
			"and the rest is PRNG; a case is non-trivial when the handshake completed and at least one in-session command was verified by the BMC; " +
			"distinct = distinct (suite, ulen, plen, kgmode, priv, lookup) tuples",
		Assumptions: []string{
			"refbmc implements IPMI v2.0 13.28-13.32 (RAKP HMAC inputs, SIK, K1/K2 constants of 20 bytes) correctly; it was written independently of the library",
			"suites with integrity or confidentiality None may either be refused with an error or yield a session whose packets the strict BMC accepts",
		},
		Gen:  c01Gen,
		Exec: c01Exec,
		Anchors: []string{"calculateSIK", "calculateRAKPMessage2AuthCode", "calculateRAKPMessage3AuthCode", "calculateRAKPMessage4ICV",
			"additionalKeyMaterialGenerator.K", "algorithmHasher", "algorithmCipher", "newV2Session"},
	})
}

func c01Gen(tier string, seed int64) []ev.Case {
	var cs []ev.Case
	gridTotal := 9 * 17 * 21
	step := 1
	if tier == "quick" {
		step = 7 // co-prime with 17, 21 and 9: every value of each coordinate appears
	}
	_ = step
	chunk := 200
	for from := 0; from < gridTotal; from += chunk {
		cs = append(cs, ev.MkCase("batch", c01Batch{Kind: "grid", Seed: seed, From: from, Count: chunk}))
	}
	nRandom := 2000
	if tier == "thorough" {
		nRandom = 1500000
	}
	for i := 0; i < nRandom; i += 250 {
		cs = append(cs, ev.MkCase("batch", c01Batch{Kind: "random", Seed: seed + int64(i), Count: 250}))
	}
	cs = append(cs, ev.MkCase("batch", c01Batch{Kind: "none", Seed: seed, Count: 60}))
	cs = append(cs, ev.MkCase("batch", c01Batch{Kind: "long", Seed: seed, Count: 9}))
	cs = append(cs, ev.MkCase("batch", c01Batch{Kind: "multi", Seed: seed, Count: 54}))
	nUDP := 48
	if tier == "thorough" {
		nUDP = 6000
	}
	for i := 0; i < nUDP; i += 16 {
		cs = append(cs, ev.MkCase("batch", c01Batch{Kind: "random", Seed: seed*31 + int64(i), Count: 16, UDP: true}))
	}
	if tier == "quick" {
		// quick: strided grid — keep every 7th grid batch element, handled in exec
		for i := range cs {
			var b c01Batch
			cs[i].Decode(&b)
			if b.Kind == "grid" {
				b.Kind = "grid7"
				cs[i] = ev.MkCase("batch", b)
			}
		}
	}
	return cs
}

func c01Random(r *rand.Rand, seed int64) c01P {
	su := stdSuites()[r.Intn(9)]
	p := c01P{Suite: su, Seed: seed, Cmds: 1 + r.Intn(3)}
	p.User = randUser(r, r.Intn(17))
	p.Pass = randPass(r, r.Intn(21))
	p.KGMode = r.Intn(4)
	p.Priv = byte(r.Intn(6))
	p.Lookup = r.Intn(2) == 0
	p.Discover = r.Intn(4) == 0
	if r.Intn(8) == 0 {
		p.ViaNewSession, p.Discover, p.KGMode, p.Lookup = true, false, 0, false
		p.Suite = []refbmc.Suite{{Auth: 3, Integ: 4, Conf: 1}, {Auth: 1, Integ: 1, Conf: 1}}[r.Intn(2)]
	}
	switch r.Intn(6) {
	case 0:
		p.SIDb = 1
	case 1:
		p.SIDb = 0xffffffff
	case 2:
		p.SIDb = 1 // equal to the console's (the library always proposes 1)
	default:
		p.SIDb = r.Uint32() | 1
	}
	return p
}

func randUser(r *rand.Rand, n int) string {
	b := make([]byte, n)
	for i := range b {
		b[i] = byte(0x21 + r.Intn(0x5e))
	}
	return string(b)
}

func randPass(r *rand.Rand, n int) []byte {
	b := make([]byte, n)
	for i := range b {
		switch r.Intn(8) {
		case 0:
			b[i] = 0
		case 1:
			b[i] = 0xff
		default:
			b[i] = byte(r.Intn(256))
		}
	}
	return b
}

func c01Exec(run *ev.Run, c ev.Case) {
	switch c.Kind {
	case "one":
		var p c01P
		c.Decode(&p)
		c01One(run, p)
	case "multi":
		var m c01M
		c.Decode(&m)
		c01Multi(run, m)
	case "batch":
		var b c01Batch
		c.Decode(&b)
		r := rng(b.Seed, "c01"+b.Kind)
		switch b.Kind {
		case "multi":
			for i := 0; i < b.Count; i++ {
				c01Multi(run, c01M{Kind: []string{"rotate", "hsdamage", "rakp4-lost"}[i%3], Seed: b.Seed*6151 + int64(i), Suite: (i / 2) % 9, Which: (i / 18) % 3, Mode: i % 5})
			}
		case "grid", "grid7":
			for i := b.From; i < b.From+b.Count && i < 9*17*21; i++ {
				if b.Kind == "grid7" && i%7 != int(b.Seed%7+7)%7 {
					continue
				}
				p := c01Random(r, b.Seed*7919+int64(i))
				p.ViaNewSession = false
				p.Suite = stdSuites()[i%9]
				p.User = randUser(r, (i/9)%17)
				p.Pass = randPass(r, (i/(9*17))%21)
				c01One(run, p)
			}
		case "random":
			for i := 0; i < b.Count; i++ {
				p := c01Random(r, b.Seed*104729+int64(i))
				p.UDP = b.UDP
				c01One(run, p)
			}
		case "long":
			// sessions that carry many commands (every one of them must still get through)
			for i := 0; i < b.Count; i++ {
				p := c01Random(r, b.Seed*32452843+int64(i))
				p.ViaNewSession = false
				p.Suite = stdSuites()[i%9]
				p.Cmds = []int{70, 130, 300}[i%3]
				c01One(run, p)
			}
		case "none":
			for i := 0; i < b.Count; i++ {
				p := c01Random(r, b.Seed*15485863+int64(i))
				p.ViaNewSession = false
				switch i % 3 {
				case 0:
					p.Suite.Integ = 0
				case 1:
					p.Suite.Conf = 0
				default:
					p.Suite.Integ, p.Suite.Conf = 0, 0
				}
				c01One(run, p)
			}
		}
	}
}

func c01One(run *ev.Run, p c01P) {
	run.Eval(1)
	cs := ev.MkCase("one", p)
	r := rng(p.Seed, "c01one")
	cfg := refbmc.Config{Username: p.User, Password: p.Pass, SID: p.SIDb, Suites: []refbmc.Suite{p.Suite}, MaxPriv: 4}
	r.Read(cfg.GUID[:])
	r.Read(cfg.Rc[:])
	switch p.KGMode {
	case 1:
		cfg.KG = rbytes(r, 20)
	case 2:
		cfg.KG = make([]byte, 20)
		copy(cfg.KG, p.Pass)
	}
	if p.KG != nil {
		cfg.KG = p.KG
	}
	noneSuite := p.Suite.Integ == 0 || p.Suite.Conf == 0

	// the command handler answers with distinguishable random bodies
	type exp struct {
		netfn, cmd byte
		body       []byte
		code       byte
	}
	var sent []exp
	busyOnce := false
	handler := func(e *refbmc.Event) (byte, []byte, bool) {
		if e.Kind != "session-ipmi" {
			return 0, nil, false
		}
		if busyOnce {
			// the BMC is momentarily busy: the library asks again, and that request must be
			// accepted as well (fresh sequence number, valid AuthCode)
			busyOnce = false
			return 0xc0, nil, true
		}
		body := rbytes(r, 1+r.Intn(40))
		if r.Intn(6) == 0 {
			// a long answer (a FRU or SEL read): up to what a 512-byte receive buffer can take
			body = rbytes(r, 180+r.Intn(250))
		}
		code := byte(0)
		if r.Intn(5) == 0 {
			// the BMC refuses or fails the command: that, too, is a response for the caller (only
			// 0xC0 and 0xC3 mean "ask again")
			for code == 0 || code == 0xc0 || code == 0xc3 {
				code = byte(r.Intn(256))
			}
			if r.Intn(4) == 0 {
				code = []byte{0xd4, 0xd0, 0xd1, 0xd2, 0xd3, 0xd5, 0xc1, 0xc2, 0xc4, 0xff, 0x80, 0x01}[r.Intn(12)]
			}
			body = nil
		}
		sent = append(sent, exp{e.NetFn, e.Cmd, body, code})
		return code, body, true
	}
	suites := []ipmi.CipherSuite{libSuite(p.Suite)}
	var csServer *refbmc.CipherSuiteServer
	if p.Discover {
		// two preferences => discovery; the BMC advertises only the wanted one
		other := ipmi.CipherSuite{AuthenticationAlgorithm: 1, IntegrityAlgorithm: 1, ConfidentialityAlgorithm: 3}
		suites = []ipmi.CipherSuite{other, libSuite(p.Suite)}
		rec := refbmc.SuiteRecord{ID: 0x11, Auth: p.Suite.Auth}
		if p.Suite.Integ != 0 {
			rec.Integs = []byte{p.Suite.Integ}
		}
		if p.Suite.Conf != 0 {
			rec.Confs = []byte{p.Suite.Conf}
		}
		// the wanted suite sits among others, so that the advertisement spans several 16-byte chunks
		recs := []refbmc.SuiteRecord{{ID: 0x70, Auth: 0, Integs: []byte{0}, Confs: []byte{0}}, {ID: 0x91, OEM: true, IANA: 0x0000a2, Auth: 1, Integs: []byte{3}, Confs: []byte{2, 3}},
			{ID: 0x71, Auth: 2, Integs: []byte{3}, Confs: []byte{2}}, rec, {ID: 0x72, Auth: 3, Integs: []byte{3}, Confs: []byte{3}}, {ID: 0x73, Auth: 1, Integs: []byte{3}, Confs: []byte{0}}}
		csServer = &refbmc.CipherSuiteServer{Data: refbmc.EncodeSuiteRecords(recs[int(p.Seed&3):]), Channel: 1}
	}
	if p.ViaNewSession {
		// the BMC advertises suite 3 and, if that is the case's suite, suite 17 (behind other records)
		recs := []refbmc.SuiteRecord{{ID: 0x70, Auth: 0, Integs: []byte{0}, Confs: []byte{0}}, {ID: 3, Auth: 1, Integs: []byte{1}, Confs: []byte{1}}, {ID: 0x71, Auth: 2, Integs: []byte{3}, Confs: []byte{2}}}
		if p.Suite.Auth == 3 {
			recs = append(recs, refbmc.SuiteRecord{ID: 17, Auth: 3, Integs: []byte{4}, Confs: []byte{1}})
			cfg.Suites = []refbmc.Suite{p.Suite, {Auth: 1, Integ: 1, Conf: 1}}
		}
		csServer = &refbmc.CipherSuiteServer{Data: refbmc.EncodeSuiteRecords(recs[int(p.Seed&1):]), Channel: 1}
	}
	opts := &bmc.V2SessionOpts{
		SessionOpts: bmc.SessionOpts{
			Username:          p.User,
			Password:          p.Pass,
			MaxPrivilegeLevel: ipmi.PrivilegeLevel(p.Priv),
		},
		PrivilegeLevelLookup: p.Lookup,
		KG:                   cfg.KG,
		CipherSuites:         suites,
	}
	if p.KGMode == 3 && cfg.KG == nil {
		// no BMC key, expressed the way a configuration loader does: zero length, not nil
		opts.KG = [][]byte{{}, make([]byte, 0, 20), []byte("")}[len(p.User)%3]
	}

	var st *bmc.V2SessionlessTransport
	var b *refbmc.BMC
	var cleanup func()
	var env *Env
	if p.UDP {
		u, err := newUDPEnv(cfg)
		if err != nil {
			run.Inconclusive("udp setup: " + err.Error())
			return
		}
		st, b, cleanup = u.ST, u.BMC, u.Close
	} else {
		e := NewEnv(cfg, memtr.Window)
		st, b, cleanup = e.ST, e.BMC, func() {}
		env = e
	}
	defer cleanup()
	if csServer != nil {
		b.Handler = refbmc.Chain(csServer.Handle, handler)
	} else {
		b.Handler = handler
	}

	ctx, cancel := bg(10 * time.Second)
	defer cancel()
	var sess *bmc.V2Session
	var err error
	pv, stack := safe(func() {
		if p.ViaNewSession {
			var generic bmc.Session
			if generic, err = st.NewSession(ctx, &opts.SessionOpts); err == nil {
				var ok bool
				if sess, ok = generic.(*bmc.V2Session); !ok {
					err = fmt.Errorf("NewSession returned a %T, not a *bmc.V2Session", generic)
				}
			}
			return
		}
		sess, err = st.NewV2Session(ctx, opts)
	})
	if pv != nil {
		run.Violation("C01:panic-in-handshake:"+panicSite(stack), fmt.Sprintf("NewV2Session panicked for suite %v: %v\n%s", p.Suite, pv, trimStack(stack)), cs, nil)
		return
	}
	if err != nil {
		if noneSuite {
			run.Observe("none-suite-refused", 1)
			run.Nontrivial(fmt.Sprintf("refused %v", p.Suite))
			return
		}
		run.Violation("C01:handshake-fails:"+p.Suite.String(), fmt.Sprintf("NewV2Session failed against a conforming BMC: %v (suite %v ulen %d plen %d kg %d priv %d lookup %v)", err, p.Suite, len(p.User), len(p.Pass), p.KGMode, p.Priv, p.Lookup), cs, problems(b))
		return
	}
	se := b.Sess
	if se == nil || !se.Active {
		run.Violation("C01:session-without-bmc-session", "library returned a session but the BMC has none active", cs, problems(b))
		return
	}
	bad := ""
	if !bytes.Equal(sess.SIK, se.SIK) {
		bad += fmt.Sprintf(" SIK lib=%x bmc=%x;", sess.SIK, se.SIK)
	}
	// the keys are read the way a caller would: all of them first, used afterwards
	k1, k2, k1again, sik := sess.K(1), sess.K(2), sess.K(1), sess.SIK
	_ = sess.K(3)
	if !bytes.Equal(k1, se.K1) || !bytes.Equal(k1again, se.K1) {
		bad += fmt.Sprintf(" K1 lib=%x/%x bmc=%x;", k1, k1again, se.K1)
	}
	if !bytes.Equal(k2, se.K2) {
		bad += fmt.Sprintf(" K2 lib=%x bmc=%x;", k2, se.K2)
	}
	if sess.LocalID != se.ConsoleSID || sess.RemoteID != se.BMCSID {
		bad += fmt.Sprintf(" IDs lib=(%#x,%#x) bmc=(%#x,%#x);", sess.LocalID, sess.RemoteID, se.ConsoleSID, se.BMCSID)
	}
	if byte(sess.AuthenticationAlgorithm) != p.Suite.Auth || byte(sess.IntegrityAlgorithm) != p.Suite.Integ || byte(sess.ConfidentialityAlgorithm) != p.Suite.Conf {
		bad += fmt.Sprintf(" algorithms lib=%v/%v/%v want %v;", sess.AuthenticationAlgorithm, sess.IntegrityAlgorithm, sess.ConfidentialityAlgorithm, p.Suite)
	}
	if bad != "" {
		run.Violation("C01:key-disagreement:"+p.Suite.String(), "session keys/IDs differ from the BMC's:"+bad, cs, nil)
		return
	}
	// check what the BMC saw of RAKP 1 against what was asked
	for _, e := range b.Events() {
		if e.Kind == "rakp1" && e.Accepted {
			role := p.Priv & 0x0f
			if !p.Lookup {
				role |= 0x10
			}
			if se.Role != role {
				run.Violation("C01:role-byte", fmt.Sprintf("RAKP 1 role byte %#x, want %#x", se.Role, role), cs, nil)
				return
			}
		}
	}
	for i := 0; i < p.Cmds; i++ {
		cmd := &RawCmd{Op: ipmi.Operation{Function: ipmi.NetworkFunctionAppReq, Command: ipmi.CommandNumber(0x40 + i%16)}, Req: rbytes(r, r.Intn(30))}
		switch r.Intn(5) {
		case 0:
			// a request far larger than anything the connection has carried so far (sizes jump,
			// they do not creep up)
			cmd.Req = rbytes(r, 40+r.Intn(180))
		case 1:
			// a sensor or device behind another logical unit of the BMC
			cmd.LUN = ipmi.LUN(1 + r.Intn(3))
		}
		damaged := 0
		if env != nil && i%3 == 2 {
			busyOnce = true
			run.Event("node-busy-replies", 1)
		}
		if env != nil && i%3 == 1 && !noneSuite {
			// the network damages one bit of this command's first reply (in the AuthCode, the
			// payload or the header): the library discards it and asks again, and that
			// retransmission must again pass the BMC's checks
			where := r.Intn(3)
			env.Filter = func(n int, req, reply []byte) ([]byte, error) {
				if damaged > 0 || len(reply) < 20 {
					return reply, nil
				}
				damaged++
				m := append([]byte(nil), reply...)
				switch where {
				case 0:
					m[len(m)-1-r.Intn(8)] ^= 1 << uint(r.Intn(8))
				case 1:
					m[16+r.Intn(len(m)-16)] ^= 1 << uint(r.Intn(8))
				default:
					m[6+r.Intn(10)] ^= 1 << uint(r.Intn(8))
				}
				return m, nil
			}
		}
		var code ipmi.CompletionCode
		cctx, ccancel := ctx, context.CancelFunc(func() {})
		if env != nil {
			// a logical bound: no command of this history needs more than three transmissions
			cctx, ccancel = env.LimitCtx(8)
		}
		pv, stack := safe(func() { code, err = sess.SendCommand(cctx, cmd) })
		ccancel()
		if pv != nil {
			run.Violation("C01:panic-in-command:"+panicSite(stack), fmt.Sprintf("SendCommand panicked on suite %v: %v\n%s", p.Suite, pv, trimStack(stack)), cs, nil)
			return
		}
		wantCode := byte(0)
		if len(sent) > 0 {
			wantCode = sent[len(sent)-1].code
		}
		if err != nil || byte(code) != wantCode {
			key := "C01:command-rejected:" + p.Suite.String()
			run.Violation(key, fmt.Sprintf("command %d on a fresh session: code=%v err=%v, the BMC answered with completion code %#x; BMC problems: %v", i, code, err, wantCode, problems(b)), cs, nil)
			return
		}
		if env != nil {
			env.Filter = nil
		}
		if damaged > 0 {
			run.Event("replies-damaged-in-transit", damaged)
			// the BMC handled the command twice; the caller gets the second answer
			if len(sent) == i+2 {
				sent = append(sent[:i], sent[i+1:]...)
			}
		}
		if len(sent) != i+1 {
			run.Violation("C01:command-not-seen", fmt.Sprintf("BMC handled %d commands after %d calls", len(sent), i+1), cs, nil)
			return
		}
		if (sent[i].code == 0 && !bytes.Equal(cmd.Rsp.Data, sent[i].body)) || sent[i].cmd != byte(0x40+i%16) {
			run.Violation("C01:wrong-response-body", fmt.Sprintf("caller got %x, BMC sent %x", cmd.Rsp.Data, sent[i].body), cs, nil)
			return
		}
	}
	if !bytes.Equal(sess.K(1), se.K1) || !bytes.Equal(sess.K(2), se.K2) || !bytes.Equal(sess.SIK, se.SIK) || !bytes.Equal(k1, se.K1) || !bytes.Equal(k2, se.K2) || !bytes.Equal(sik, se.SIK) {
		run.Violation("C01:keys-change-after-use:"+p.Suite.String(), fmt.Sprintf("keys exposed by the session after %d commands: SIK %x K1 %x K2 %x (held copies %x %x %x), BMC has %x %x %x", p.Cmds, sess.SIK, sess.K(1), sess.K(2), sik, k1, k2, se.SIK, se.K1, se.K2), cs, nil)
		return
	}
	if pr := problems(b); len(pr) > 0 {
		run.Violation("C01:bmc-dropped-packets:"+p.Suite.String(), fmt.Sprintf("BMC logged problems: %v", pr), cs, nil)
		return
	}
	for _, e := range b.Events() {
		run.Event(e.Kind, 1)
	}
	run.Nontrivial(fmt.Sprintf("%v u%d p%d kg%d pr%d l%v", p.Suite, len(p.User), len(p.Pass), p.KGMode, p.Priv, p.Lookup))
	if noneSuite {
		run.Observe("none-suite-session-ok", 1)
	}
	run.Sample(p.Suite.String(), map[string]any{"suite": p.Suite.String(), "ulen": len(p.User), "plen": len(p.Pass), "kgmode": p.KGMode, "priv": p.Priv,
		"lookup": p.Lookup, "sik": ev.Hex(se.SIK), "k1": ev.Hex(se.K1), "k2": ev.Hex(se.K2), "commands_verified": p.Cmds, "udp": p.UDP})
}

func problems(b *refbmc.BMC) []string {
	var o []string
	for _, e := range b.Events() {
		if e.Problem != "" {
			o = append(o, fmt.Sprintf("#%d %s: %s", e.N, e.Kind, e.Problem))
		}
	}
	return o
}

// c01M is a history of handshakes on one connection.
type c01M struct {
	Kind  string // "rotate": credentials changed in place between handshakes; "hsdamage": one handshake reply damaged in transit
	Seed  int64
	Suite int
	Which int // hsdamage: 0 Open Session Response, 1 RAKP 2, 2 RAKP 4
	Mode  int
}

func c01Multi(run *ev.Run, m c01M) {
	run.Eval(1)
	cs := ev.MkCase("multi", m)
	r := rng(m.Seed, "c01multi")
	su := stdSuites()[m.Suite%9]
	cfg := defaultCfg(r)
	cfg.Suites = []refbmc.Suite{su}
	pw := randPass(r, 1+r.Intn(20))
	kg := rbytes(r, 20)
	cfg.Password = append([]byte(nil), pw...)
	useKG := r.Intn(2) == 0
	if useKG {
		cfg.KG = append([]byte(nil), kg...)
	}
	e := NewEnv(cfg, memtr.Window)
	var body []byte
	e.BMC.Handler = func(evn *refbmc.Event) (byte, []byte, bool) {
		if evn.Kind == "session-ipmi" && evn.Cmd == 0x4e {
			body = rbytes(r, 1+r.Intn(30))
			return 0, body, true
		}
		if evn.Kind == "sessionless-ipmi" && evn.NetFn == 6 && evn.Cmd == 0x37 {
			return 0, cfg.GUID[:], true
		}
		return 0, nil, false
	}
	opts := &bmc.V2SessionOpts{
		SessionOpts:  bmc.SessionOpts{Username: cfg.Username, Password: pw, MaxPrivilegeLevel: ipmi.PrivilegeLevelAdministrator},
		CipherSuites: []ipmi.CipherSuite{libSuite(su)},
	}
	if useKG {
		opts.KG = kg
	}
	ctx, cancel := bg(10 * time.Second)
	defer cancel()
	one := func(what string) bool {
		var sess *bmc.V2Session
		var err error
		pv, stack := safe(func() { sess, err = e.ST.NewV2Session(ctx, opts) })
		if pv != nil {
			run.Violation("C01:panic-in-handshake:"+panicSite(stack), fmt.Sprintf("%s: NewV2Session panicked: %v\n%s", what, pv, trimStack(stack)), cs, nil)
			return false
		}
		if err != nil {
			run.Violation("C01:handshake-fails:"+m.Kind, fmt.Sprintf("%s (suite %v): NewV2Session failed against a conforming BMC that holds the same credentials: %v; BMC: %v", what, su, err, problems(e.BMC)), cs, nil)
			return false
		}
		se := e.BMC.Sess
		if se == nil || !se.Active || !bytes.Equal(sess.SIK, se.SIK) || !bytes.Equal(sess.K(1), se.K1) || !bytes.Equal(sess.K(2), se.K2) {
			run.Violation("C01:key-disagreement:"+m.Kind, fmt.Sprintf("%s (suite %v): keys differ from the BMC's", what, su), cs, nil)
			return false
		}
		cmd := &RawCmd{Op: ipmi.Operation{Function: ipmi.NetworkFunctionAppReq, Command: 0x4e}, Req: rbytes(r, r.Intn(20))}
		code, err := sess.SendCommand(ctx, cmd)
		if err != nil || code != 0 || !bytes.Equal(cmd.Rsp.Data, body) {
			run.Violation("C01:command-rejected:"+m.Kind, fmt.Sprintf("%s (suite %v): command on the session: code=%v err=%v; BMC: %v", what, su, code, err, problems(e.BMC)), cs, nil)
			return false
		}
		if r.Intn(2) == 0 {
			sess.Close(ctx)
		}
		return true
	}
	switch m.Kind {
	case "rotate":
		if !one("first handshake on the connection") {
			return
		}
		for round := 0; round < 3; round++ {
			// the operator rotates the credentials; the caller's configuration keeps its
			// buffers and overwrites them in place
			switch (m.Mode + round) % 3 {
			case 0:
				copy(pw, randPass(r, len(pw)))
				pw[0] ^= 0x55
			case 1:
				if useKG {
					copy(kg, rbytes(r, 20))
				} else {
					copy(pw, randPass(r, len(pw)))
					pw[len(pw)-1] ^= 0x33
				}
			default:
				copy(pw, randPass(r, len(pw)))
				pw[len(pw)/2] ^= 0x0f
				copy(kg, rbytes(r, 20))
			}
			e.BMC.Cfg.Password = append([]byte(nil), pw...)
			if useKG {
				e.BMC.Cfg.KG = append([]byte(nil), kg...)
			}
			if !one(fmt.Sprintf("handshake %d on the connection, after the password/KG were overwritten in place in the caller's buffers and changed on the BMC", round+2)) {
				return
			}
			run.Event("credential-rotations", 1)
		}
		run.Nontrivial(fmt.Sprintf("rotate|%v|%v|%d", su, useKG, m.Mode%3))
	case "rakp4-lost":
		// the BMC accepts RAKP 3 (for it the session now exists), but its RAKP 4 never arrives: the
		// attempt fails. The caller tries again on the same connection; that attempt must be a complete,
		// fresh establishment and succeed
		lost := 0
		e.Filter = func(n int, req, reply []byte) ([]byte, error) {
			if len(req) > 5 && req[5] == 0x14 {
				lost++
				return nil, nil
			}
			return reply, nil
		}
		lc, lcancel := e.LimitCtx(3 + 2 + m.Mode%3)
		_, ferr := e.ST.NewV2Session(lc, opts)
		lcancel()
		e.Filter = nil
		if ferr == nil || lost == 0 {
			run.Violation("C01:session-without-rakp4", fmt.Sprintf("suite %v: NewV2Session returned a session although every RAKP 4 was lost (%d)", su, lost), cs, nil)
			return
		}
		for k := 0; k < 2; k++ {
			if !one(fmt.Sprintf("handshake %d on a connection whose earlier attempt lost its RAKP Message 4", k+2)) {
				return
			}
		}
		run.Nontrivial(fmt.Sprintf("rakp4-lost|%v|%v", su, useKG))
	case "hsdamage":
		// a session-less exchange first, whose reply the network later duplicates
		var guidReply []byte
		e.Filter = func(n int, req, reply []byte) ([]byte, error) {
			guidReply = append([]byte(nil), reply...)
			return reply, nil
		}
		e.ST.GetSystemGUID(ctx)
		wantType := []byte{0x10, 0x12, 0x14}[m.Which%3]
		damaged := 0
		e.Filter = func(n int, req, reply []byte) ([]byte, error) {
			if damaged > 0 || len(req) < 6 || req[5] != wantType || len(reply) < 16 {
				return reply, nil
			}
			damaged++
			switch m.Mode % 4 {
			case 0:
				return append([]byte(nil), reply[:16]...), nil // RMCP and session header only
			case 1:
				return append([]byte(nil), reply[:16+r.Intn(len(reply)-16)]...), nil
			case 2:
				if guidReply != nil {
					return guidReply, nil // a duplicate of an earlier answer
				}
				return append([]byte(nil), reply[:16]...), nil
			default:
				return append([]byte(nil), reply[:14]...), nil
			}
		}
		ok := one(fmt.Sprintf("handshake whose %s was damaged once in transit (mode %d) and then delivered intact on the retry", []string{"Open Session Response", "RAKP 2", "RAKP 4"}[m.Which%3], m.Mode%4))
		e.Filter = nil
		if !ok {
			return
		}
		if damaged == 0 {
			run.Inconclusive("no handshake reply was damaged")
			return
		}
		run.Event("handshake-replies-damaged", 1)
		run.Nontrivial(fmt.Sprintf("hsdamage|%v|%d|%d", su, m.Which%3, m.Mode%4))
	}
}
