//go:build race

package checks

const raceEnabled = true
