package checks

import (
	"crypto/aes"
	"crypto/cipher"
	"fmt"
	"math/rand"
	"net"
	"time"

	"verifharness/refbmc"
	"verifharness/refcodec"

	"github.com/gebn/bmc/pkg/dcmi"
	"github.com/gebn/bmc/pkg/iana"
	"github.com/gebn/bmc/pkg/ipmi"
	"github.com/google/gopacket"
	gplayers "github.com/google/gopacket/layers"
)

type decodable interface {
	DecodeFromBytes([]byte, gopacket.DecodeFeedback) error
}

// layerSpec describes one decodable layer for the decoder checks.
type layerSpec struct {
	Name string
	New  func() decodable
	// Gen returns a valid encoding of a random value assignment, the value the
	// decoder must produce (a fresh layer of the same type with every decoded
	// field set, BaseLayer left empty), and a label of the structural branch
	// taken (optional-tail form etc.).
	Gen func(r *rand.Rand) (enc []byte, want any, branch string)
	// MinLen is the shortest length the layer documents as acceptable.
	MinLen int
	// FixUp, when set, repairs gate fields (checksums, signature) after a
	// mutation so that the mutated input gets past the layer's first checks.
	FixUp func(b []byte) []byte
}

func rb(r *rand.Rand) bool { return r.Intn(2) == 0 }

var aesSpecKey = [16]byte{0x10, 0x32, 0x54, 0x76, 0x98, 0xba, 0xdc, 0xfe, 1, 2, 3, 4, 5, 6, 7, 8}

func encryptAES(key [16]byte, iv, plain []byte) []byte {
	n := (16 - (len(plain)+1)%16) % 16
	pt := append([]byte(nil), plain...)
	for i := 0; i < n; i++ {
		pt = append(pt, byte(i+1))
	}
	pt = append(pt, byte(n))
	c, _ := aes.NewCipher(key[:])
	ct := make([]byte, len(pt))
	cipher.NewCBCEncrypter(c, iv).CryptBlocks(ct, pt)
	return append(append([]byte(nil), iv...), ct...)
}

func fixMsgChecksums(b []byte) []byte {
	if len(b) >= 3 {
		b[2] = refbmc.Csum(b[:2])
	}
	if len(b) >= 5 {
		b[len(b)-1] = refbmc.Csum(b[3 : len(b)-1])
	}
	return b
}

func randIDString(r *rand.Rand, enc byte, n int) []rune {
	s := make([]rune, n)
	for i := range s {
		switch enc {
		case 1:
			s[i] = rune("0123456789 -.:,_"[r.Intn(16)])
		case 2:
			s[i] = rune(0x20 + r.Intn(64))
		default:
			if r.Intn(4) == 0 {
				s[i] = rune(r.Intn(256))
			} else {
				s[i] = rune(0x20 + r.Intn(0x5f))
			}
		}
	}
	return s
}

// genFSR builds a random Full Sensor Record; enc/n select the ID string form
// (n < 0: random).
func genFSR(r *rand.Rand, enc byte, n int) ([]byte, *ipmi.FullSensorRecord, string) {
	v := &ipmi.FullSensorRecord{}
	v.OwnerAddress = ipmi.Address(r.Intn(256))
	v.Channel = ipmi.Channel(r.Intn(16))
	v.OwnerLUN = ipmi.LUN(r.Intn(4))
	v.Number = uint8(r.Intn(256))
	v.Entity = ipmi.EntityID(r.Intn(256))
	v.IsContainerEntity = rb(r)
	v.Instance = ipmi.EntityInstance(r.Intn(128))
	v.Ignore = rb(r)
	v.SensorType = ipmi.SensorType(r.Intn(256))
	v.OutputType = ipmi.OutputType(r.Intn(256))
	v.AnalogDataFormat = ipmi.AnalogDataFormat(r.Intn(4))
	v.RateUnit = ipmi.RateUnit(r.Intn(8))
	v.IsPercentage = rb(r)
	v.BaseUnit = ipmi.SensorUnit(r.Intn(256))
	v.ModifierUnit = ipmi.SensorUnit(r.Intn(256))
	v.Linearisation = ipmi.Linearisation(r.Intn(128))
	v.M = int16(r.Intn(1024) - 512)
	v.B = int16(r.Intn(1024) - 512)
	v.Accuracy = int16(r.Intn(1024) - 512)
	v.Tolerance = uint8(r.Intn(64))
	v.AccuracyExp = uint8(r.Intn(4))
	v.Direction = ipmi.SensorDirection(r.Intn(4))
	v.RExp = int8(r.Intn(16) - 8)
	v.BExp = int8(r.Intn(16) - 8)
	v.NominalReadingSpecified, v.NormalMinSpecified, v.NormalMaxSpecified = rb(r), rb(r), rb(r)
	v.NominalReading, v.NormalMin, v.NormalMax = uint8(r.Intn(256)), uint8(r.Intn(256)), uint8(r.Intn(256))
	v.SensorMin, v.SensorMax = uint8(r.Intn(256)), uint8(r.Intn(256))
	if n < 0 {
		enc = byte(r.Intn(4))
		n = r.Intn(17)
		if r.Intn(8) == 0 {
			n = r.Intn(32)
		}
	}
	if (enc == 0 || enc == 3) && n == 1 {
		n = 2 // a length of 1 is reserved for the 8-bit encodings
	}
	s := randIDString(r, enc, n)
	v.Identity = string(s)
	tl, idb := refcodec.IDString(enc, s)
	rec := refcodec.FullSensorRecord(v, tl, idb, rbytes(r, 43))
	if r.Intn(6) == 0 {
		// bit 5 of the type/length byte is reserved in an SDR (the length is bits 4:0): like the
		// other reserved bits of the record it carries noise that a reader ignores
		rec[42] |= 0x20
	}
	if r.Intn(3) == 0 {
		// bytes after the ID string (the optional OEM byte, or a longer record than the name needs)
		rec = append(rec, rbytes(r, 1+r.Intn(3))...)
	}
	return rec, v, "id-enc-" + string(rune('0'+enc))
}

func specs() []layerSpec {
	return []layerSpec{
		{Name: "GetDeviceIDRsp", MinLen: 11, New: func() decodable { return &ipmi.GetDeviceIDRsp{} },
			Gen: func(r *rand.Rand) ([]byte, any, string) {
				v := &ipmi.GetDeviceIDRsp{ID: uint8(r.Intn(256)), ProvidesSDRs: rb(r), Revision: uint8(r.Intn(16)), Available: rb(r),
					MajorFirmwareRevision: uint8(r.Intn(128)), MinorFirmwareRevision: uint8(r.Intn(100)), MajorIPMIVersion: uint8(r.Intn(16)), MinorIPMIVersion: uint8(r.Intn(16)),
					SupportsChassisDevice: rb(r), SupportsBridgeDevice: rb(r), SupportsIPMBEventGeneratorDevice: rb(r), SupportsIPMBEventReceiverDevice: rb(r),
					SupportsFRUInventoryDevice: rb(r), SupportsSELDevice: rb(r), SupportsSDRRepositoryDevice: rb(r), SupportsSensorDevice: rb(r),
					Manufacturer: iana.Enterprise(r.Intn(1 << 24)), Product: uint16(r.Intn(65536))}
				aux := rb(r)
				if aux {
					r.Read(v.AuxiliaryFirmwareRevision[:])
				}
				br := "11"
				if aux {
					br = "15"
				}
				return refcodec.GetDeviceID(v, aux), v, br
			}},
		{Name: "GetChassisStatusRsp", MinLen: 3, New: func() decodable { return &ipmi.GetChassisStatusRsp{} },
			Gen: func(r *rand.Rand) ([]byte, any, string) {
				v := &ipmi.GetChassisStatusRsp{PowerRestorePolicy: ipmi.PowerRestorePolicy(r.Intn(4)), PowerControlFault: rb(r), PowerFault: rb(r), Interlock: rb(r),
					PowerOverload: rb(r), PoweredOn: rb(r), PoweredOnByIPMI: rb(r), LastPowerDownFault: rb(r), LastPowerDownInterlock: rb(r), LastPowerDownOverload: rb(r),
					LastPowerDownSupplyFailure: rb(r), CoolingFault: rb(r), DriveFault: rb(r), Lockout: rb(r), Intrusion: rb(r)}
				if rb(r) {
					v.ChassisIdentifyState = ipmi.ChassisIdentifyState(r.Intn(4))
				} else {
					v.ChassisIdentifyState = ipmi.ChassisIdentifyStateUnknown
				}
				btn := rb(r)
				if btn {
					v.StandbyButtonDisableAllowed, v.DiagnosticInterruptButtonDisableAllowed, v.ResetButtonDisableAllowed, v.PowerOffButtonDisableAllowed = rb(r), rb(r), rb(r), rb(r)
					v.StandbyButtonDisabled, v.DiagnosticInterruptButtonDisabled, v.ResetButtonDisabled, v.PowerOffButtonDisabled = rb(r), rb(r), rb(r), rb(r)
				}
				br := "3"
				if btn {
					br = "4"
				}
				return refcodec.GetChassisStatus(v, btn), v, br
			}},
		{Name: "GetSystemGUIDRsp", MinLen: 16, New: func() decodable { return &ipmi.GetSystemGUIDRsp{} },
			Gen: func(r *rand.Rand) ([]byte, any, string) {
				v := &ipmi.GetSystemGUIDRsp{}
				r.Read(v.GUID[:])
				return refcodec.GetSystemGUID(v), v, ""
			}},
		{Name: "GetChannelAuthenticationCapabilitiesRsp", MinLen: 8, New: func() decodable { return &ipmi.GetChannelAuthenticationCapabilitiesRsp{} },
			Gen: func(r *rand.Rand) ([]byte, any, string) {
				v := &ipmi.GetChannelAuthenticationCapabilitiesRsp{Channel: ipmi.Channel(r.Intn(16)), ExtendedCapabilities: rb(r), AuthenticationTypeOEM: rb(r),
					AuthenticationTypePassword: rb(r), AuthenticationTypeMD5: rb(r), AuthenticationTypeMD2: rb(r), AuthenticationTypeNone: rb(r), TwoKeyLogin: rb(r),
					PerMessageAuthentication: rb(r), UserLevelAuthentication: rb(r), NonNullUsernamesEnabled: rb(r), NullUsernamesEnabled: rb(r), AnonymousLoginEnabled: rb(r),
					SupportsV2: rb(r), SupportsV1: rb(r), OEM: iana.Enterprise(r.Intn(1 << 24)), OEMData: byte(r.Intn(256))}
				return refcodec.GetChannelAuthCaps(v), v, ""
			}},
		{Name: "GetChannelCipherSuitesRsp", MinLen: 1, New: func() decodable { return &ipmi.GetChannelCipherSuitesRsp{} },
			Gen: func(r *rand.Rand) ([]byte, any, string) {
				v := &ipmi.GetChannelCipherSuitesRsp{Channel: ipmi.Channel(r.Intn(16)), CipherSuiteRecordsChunk: rbytes(r, r.Intn(17))}
				return refcodec.GetChannelCipherSuites(v), v, ""
			}},
		{Name: "GetSessionInfoRsp", MinLen: 3, New: func() decodable { return &ipmi.GetSessionInfoRsp{} },
			Gen: func(r *rand.Rand) ([]byte, any, string) {
				form := []int{3, 6, 18}[r.Intn(3)]
				v := &ipmi.GetSessionInfoRsp{Max: uint8(r.Intn(256)), Active: uint8(r.Intn(256))}
				if form > 3 {
					v.Handle = ipmi.SessionHandle(r.Intn(256))
					v.UserID = uint8(r.Intn(64))
					v.PrivilegeLevel = ipmi.PrivilegeLevel(r.Intn(16))
					v.IsIPMIv2 = rb(r)
					v.Channel = ipmi.Channel(r.Intn(16))
				}
				if form == 18 {
					ip := rbytes(r, 4)
					v.IP = net.IPv4(ip[0], ip[1], ip[2], ip[3])
					v.MAC = net.HardwareAddr(rbytes(r, 6))
					v.Port = uint16(r.Intn(65536))
				}
				return refcodec.GetSessionInfo(v, form), v, string(rune('a' + form))
			}},
		{Name: "SetSessionPrivilegeLevelRsp", MinLen: 1, New: func() decodable { return &ipmi.SetSessionPrivilegeLevelRsp{} },
			Gen: func(r *rand.Rand) ([]byte, any, string) {
				v := &ipmi.SetSessionPrivilegeLevelRsp{PrivilegeLevel: ipmi.PrivilegeLevel(r.Intn(16))}
				return refcodec.SetSessionPrivilegeLevel(v), v, ""
			}},
		{Name: "GetSDRRepositoryInfoRsp", MinLen: 14, New: func() decodable { return &ipmi.GetSDRRepositoryInfoRsp{} },
			Gen: func(r *rand.Rand) ([]byte, any, string) {
				v := &ipmi.GetSDRRepositoryInfoRsp{Version: uint8(r.Intn(100)), Records: uint16(r.Intn(65536)), FreeSpace: uint16(r.Intn(65536)),
					LastAddition: time.Unix(int64(r.Uint32()), 0), LastErase: time.Unix(int64(r.Uint32()), 0), Overflow: rb(r), SupportsModalUpdate: rb(r),
					SupportsNonModalUpdate: rb(r), SupportsDelete: rb(r), SupportsPartialAdd: rb(r), SupportsReserve: rb(r), SupportsGetAllocationInformation: rb(r)}
				return refcodec.GetSDRRepositoryInfo(v), v, ""
			}},
		{Name: "ReserveSDRRepositoryRsp", MinLen: 2, New: func() decodable { return &ipmi.ReserveSDRRepositoryRsp{} },
			Gen: func(r *rand.Rand) ([]byte, any, string) {
				v := &ipmi.ReserveSDRRepositoryRsp{ReservationID: ipmi.ReservationID(r.Intn(65536))}
				return refcodec.ReserveSDRRepository(v), v, ""
			}},
		{Name: "GetSDRRsp", MinLen: 2, New: func() decodable { return &ipmi.GetSDRRsp{} },
			Gen: func(r *rand.Rand) ([]byte, any, string) {
				v := &ipmi.GetSDRRsp{Next: ipmi.RecordID(r.Intn(65536))}
				return refcodec.GetSDR(v.Next, rbytes(r, r.Intn(64))), v, ""
			}},
		{Name: "SDR", MinLen: 5, New: func() decodable { return &ipmi.SDR{} },
			Gen: func(r *rand.Rand) ([]byte, any, string) {
				v := &ipmi.SDR{ID: ipmi.RecordID(r.Intn(65536)), Version: uint8(r.Intn(100)), Type: ipmi.RecordType(r.Intn(256)), Length: uint8(r.Intn(256))}
				return append(refcodec.SDRHeader(v), rbytes(r, r.Intn(20))...), v, ""
			}},
		{Name: "FullSensorRecord", MinLen: 43, New: func() decodable { return &ipmi.FullSensorRecord{} },
			Gen: func(r *rand.Rand) ([]byte, any, string) { return genFSR(r, 0, -1) }},
		{Name: "GetSensorReadingRsp", MinLen: 3, New: func() decodable { return &ipmi.GetSensorReadingRsp{} },
			Gen: func(r *rand.Rand) ([]byte, any, string) {
				v := &ipmi.GetSensorReadingRsp{Reading: byte(r.Intn(256)), EventMessagesEnabled: rb(r), ScanningEnabled: rb(r), ReadingUnavailable: rb(r)}
				n := 1 + r.Intn(2)
				return refcodec.GetSensorReading(v, rbytes(r, n)), v, string(rune('2' + n))
			}},
		{Name: "OpenSessionRsp", MinLen: 1, New: func() decodable { return &ipmi.OpenSessionRsp{} },
			Gen: func(r *rand.Rand) ([]byte, any, string) {
				form := []int{36, 7, 1}[r.Intn(3)]
				v := &ipmi.OpenSessionRsp{}
				switch form {
				case 36:
					v.Tag = uint8(r.Intn(256))
					v.MaxPrivilegeLevel = ipmi.PrivilegeLevel(r.Intn(16))
					v.RemoteConsoleSessionID, v.ManagedSystemSessionID = r.Uint32(), r.Uint32()
					v.AuthenticationPayload.Algorithm = ipmi.AuthenticationAlgorithm(r.Intn(64))
					v.IntegrityPayload.Algorithm = ipmi.IntegrityAlgorithm(r.Intn(64))
					v.ConfidentialityPayload.Algorithm = ipmi.ConfidentialityAlgorithm(r.Intn(64))
				case 7:
					v.Tag = uint8(r.Intn(256))
					v.Status = ipmi.StatusCode(1 + r.Intn(255))
					v.RemoteConsoleSessionID = r.Uint32()
				case 1:
					v.Status = ipmi.StatusCode(1 + r.Intn(255))
				}
				return refcodec.OpenSessionRsp(v, form), v, string(rune('a' + form%26))
			}},
		{Name: "RAKPMessage2", MinLen: 8, New: func() decodable { return &ipmi.RAKPMessage2{} },
			Gen: func(r *rand.Rand) ([]byte, any, string) {
				v := &ipmi.RAKPMessage2{Tag: uint8(r.Intn(256)), RemoteConsoleSessionID: r.Uint32()}
				br := "err"
				if rb(r) {
					r.Read(v.ManagedSystemRandom[:])
					r.Read(v.ManagedSystemGUID[:])
					v.AuthCode = rbytes(r, []int{0, 16, 20, 32}[r.Intn(4)])
					br = "ok"
				} else {
					v.Status = ipmi.StatusCode(1 + r.Intn(255))
				}
				return refcodec.RAKPMessage2(v), v, br
			}},
		{Name: "RAKPMessage4", MinLen: 8, New: func() decodable { return &ipmi.RAKPMessage4{} },
			Gen: func(r *rand.Rand) ([]byte, any, string) {
				v := &ipmi.RAKPMessage4{Tag: uint8(r.Intn(256)), RemoteConsoleSessionID: r.Uint32()}
				br := "err"
				if rb(r) {
					v.ICV = rbytes(r, []int{0, 12, 16}[r.Intn(3)])
					br = "ok"
				} else {
					v.Status = ipmi.StatusCode(1 + r.Intn(255))
				}
				return refcodec.RAKPMessage4(v), v, br
			}},
		{Name: "RAKPMessage1", MinLen: 28, New: func() decodable { return &ipmi.RAKPMessage1{} },
			Gen: func(r *rand.Rand) ([]byte, any, string) {
				v := &ipmi.RAKPMessage1{Tag: uint8(r.Intn(256)), ManagedSystemSessionID: r.Uint32(), PrivilegeLevelLookup: rb(r), MaxPrivilegeLevel: ipmi.PrivilegeLevel(r.Intn(16)), Username: randUser(r, r.Intn(17))}
				r.Read(v.RemoteConsoleRandom[:])
				o := []byte{v.Tag, 0, 0, 0}
				o = append(o, refbmc.LE32(v.ManagedSystemSessionID)...)
				o = append(o, v.RemoteConsoleRandom[:]...)
				role := byte(v.MaxPrivilegeLevel)
				if !v.PrivilegeLevelLookup {
					role |= 0x10
				}
				o = append(o, role, 0, 0, byte(len(v.Username)))
				return append(o, v.Username...), v, ""
			}},
		{Name: "SessionSelector", MinLen: 1, New: func() decodable { return &ipmi.SessionSelector{} },
			Gen: func(r *rand.Rand) ([]byte, any, string) {
				at := []byte{0, 1, 2, 4, 5, 6}[r.Intn(6)]
				v := &ipmi.SessionSelector{IsRMCPPlus: at == 6}
				return append([]byte{at}, rbytes(r, r.Intn(20))...), v, ""
			}},
		{Name: "V1Session", MinLen: 10, New: func() decodable { return &ipmi.V1Session{} },
			Gen: func(r *rand.Rand) ([]byte, any, string) {
				v := &ipmi.V1Session{AuthType: ipmi.AuthenticationType([]byte{0, 1, 2, 4, 5}[r.Intn(5)]), Sequence: r.Uint32(), ID: r.Uint32()}
				payload := rbytes(r, r.Intn(40))
				v.Length = uint8(len(payload))
				o := []byte{byte(v.AuthType)}
				o = append(o, refbmc.LE32(v.Sequence)...)
				o = append(o, refbmc.LE32(v.ID)...)
				br := "none"
				if v.AuthType != 0 {
					r.Read(v.AuthCode[:])
					o = append(o, v.AuthCode[:]...)
					br = "auth"
				}
				o = append(o, v.Length)
				return append(o, payload...), v, br
			}},
		{Name: "V2Session", MinLen: 12, New: func() decodable { return &ipmi.V2Session{} },
			Gen: func(r *rand.Rand) ([]byte, any, string) {
				// unauthenticated forms only (no key on a bare layer); authenticated
				// packets are exercised through sessions
				v := &ipmi.V2Session{Encrypted: rb(r), ID: r.Uint32(), Sequence: r.Uint32()}
				payload := rbytes(r, r.Intn(40))
				v.Length = uint16(len(payload))
				br := "std"
				o := []byte{6, 0}
				if r.Intn(3) == 0 {
					v.PayloadDescriptor = ipmi.PayloadDescriptor{PayloadType: ipmi.PayloadTypeOEM, Enterprise: iana.Enterprise(r.Intn(1 << 24)), PayloadID: uint16(r.Intn(65536))}
					o[1] = 2
					o = append(o, refbmc.LE32(uint32(v.Enterprise))...)
					o = append(o, refbmc.LE16(v.PayloadID)...)
					br = "oem"
				} else {
					pt := byte(r.Intn(64))
					if pt == 2 {
						pt = 0
					}
					v.PayloadDescriptor = ipmi.PayloadDescriptor{PayloadType: ipmi.PayloadType(pt)}
					o[1] = pt
				}
				if v.Encrypted {
					o[1] |= 0x80
				}
				o = append(o, refbmc.LE32(v.ID)...)
				o = append(o, refbmc.LE32(v.Sequence)...)
				o = append(o, refbmc.LE16(v.Length)...)
				return append(o, payload...), v, br
			}},
		{Name: "Message", MinLen: 7, FixUp: fixMsgChecksums, New: func() decodable { return &ipmi.Message{} },
			Gen: func(r *rand.Rand) ([]byte, any, string) {
				nf := byte(r.Intn(64))
				switch r.Intn(4) {
				case 0:
					nf = 0x2c + byte(r.Intn(4))
				case 1:
					nf |= 1
				}
				v := &ipmi.Message{Operation: ipmi.Operation{Function: ipmi.NetworkFunction(nf), Command: ipmi.CommandNumber(r.Intn(256))},
					RemoteAddress: ipmi.Address(r.Intn(256)), RemoteLUN: ipmi.LUN(r.Intn(4)), LocalAddress: ipmi.Address(r.Intn(256)), LocalLUN: ipmi.LUN(r.Intn(4)), Sequence: uint8(r.Intn(64))}
				o := []byte{byte(v.RemoteAddress), nf<<2 | byte(v.RemoteLUN), 0, byte(v.LocalAddress), v.Sequence<<2 | byte(v.LocalLUN), byte(v.Command)}
				br := "req"
				if nf&1 == 1 {
					v.CompletionCode = ipmi.CompletionCode(r.Intn(256))
					o = append(o, byte(v.CompletionCode))
					br = "rsp"
				}
				switch nf {
				case 0x2c, 0x2d:
					v.Body = ipmi.BodyCode(r.Intn(256))
					o = append(o, byte(v.Body))
					br += "-group"
				case 0x2e, 0x2f:
					v.Enterprise = iana.Enterprise(r.Intn(1 << 24))
					o = append(o, byte(v.Enterprise), byte(v.Enterprise>>8), byte(v.Enterprise>>16))
					br += "-oem"
				}
				o = append(o, rbytes(r, r.Intn(30))...)
				o = append(o, 0)
				o = fixMsgChecksums(o)
				v.Checksum1, v.Checksum2 = o[2], o[len(o)-1]
				return o, v, br
			}},
		{Name: "AES128CBC", MinLen: 32, New: func() decodable { a, _ := ipmi.NewAES128CBC(aesSpecKey); return a },
			Gen: func(r *rand.Rand) ([]byte, any, string) {
				a, _ := ipmi.NewAES128CBC(aesSpecKey)
				return encryptAES(aesSpecKey, rbytes(r, 16), rbytes(r, r.Intn(60))), a, ""
			}},
		{Name: "DCMISupportedCapabilitiesRsp", MinLen: 6, New: func() decodable { return &dcmi.GetDCMICapabilitiesInfoSupportedCapabilitiesRsp{} },
			Gen: func(r *rand.Rand) ([]byte, any, string) {
				v := &dcmi.GetDCMICapabilitiesInfoSupportedCapabilitiesRsp{}
				ver := dcmiVersion(r)
				v.MajorVersion, v.MinorVersion, v.Revision = ver[0], ver[1], uint8(r.Intn(256))
				v.TemperatureMonitor, v.ChassisPower, v.SELLogging, v.Identification = rb(r), rb(r), rb(r), rb(r)
				v.PowerManagement, v.VLANCapable, v.SOLSupported, v.OOBPrimaryLANChannelAvailable = rb(r), rb(r), rb(r), rb(r)
				v.OOBSecondaryLANChannelAvailable, v.SerialTMODEAvailable, v.IBKCSChannelAvailable, v.IBSystemInterfaceChannelAvailable = rb(r), rb(r), rb(r), rb(r)
				return refcodec.DCMISupportedCapabilities(v, byte(r.Intn(256))), v, verLabel(ver)
			}},
		{Name: "DCMIMandatoryPlatformAttrsRsp", MinLen: 7, New: func() decodable { return &dcmi.GetDCMICapabilitiesInfoMandatoryPlatformAttrsRsp{} },
			Gen: func(r *rand.Rand) ([]byte, any, string) {
				v := &dcmi.GetDCMICapabilitiesInfoMandatoryPlatformAttrsRsp{}
				ver := dcmiVersion(r)
				v.MajorVersion, v.MinorVersion, v.Revision = ver[0], ver[1], uint8(r.Intn(256))
				v.SELAutoRollover, v.SELFlushOnRollover, v.SELRecordLevelFlushOnRollover = rb(r), rb(r), rb(r)
				v.SELMaxEntries = uint16(r.Intn(16)) | uint16(r.Intn(256))<<8
				v.AssetTagSupport, v.DHCPHostNameSupport, v.GUIDSupport = rb(r), rb(r), rb(r)
				v.BaseboardTemperature, v.ProcessorsTemperature, v.InletTemperature = rb(r), rb(r), rb(r)
				v.TemperatureSamplingFrequency = time.Duration(r.Intn(256)) * time.Second
				return refcodec.DCMIMandatoryPlatformAttrs(v), v, verLabel(ver)
			}},
		{Name: "DCMIOptionalPlatformAttrsRsp", MinLen: 5, New: func() decodable { return &dcmi.GetDCMICapabilitiesInfoOptionalPlatformAttrsRsp{} },
			Gen: func(r *rand.Rand) ([]byte, any, string) {
				v := &dcmi.GetDCMICapabilitiesInfoOptionalPlatformAttrsRsp{}
				ver := dcmiVersion(r)
				v.MajorVersion, v.MinorVersion, v.Revision = ver[0], ver[1], uint8(r.Intn(256))
				v.PowerManagementSlaveAddress = ipmi.SlaveAddress(r.Intn(128))
				v.PowerManagementChannel = ipmi.Channel(r.Intn(16))
				v.PowerManagementRevision = uint8(r.Intn(16))
				return refcodec.DCMIOptionalPlatformAttrs(v, byte(r.Intn(2))), v, verLabel(ver)
			}},
		{Name: "DCMIManageabilityAccessAttrsRsp", MinLen: 6, New: func() decodable { return &dcmi.GetDCMICapabilitiesInfoManageabilityAccessAttrsRsp{} },
			Gen: func(r *rand.Rand) ([]byte, any, string) {
				v := &dcmi.GetDCMICapabilitiesInfoManageabilityAccessAttrsRsp{}
				ver := dcmiVersion(r)
				v.MajorVersion, v.MinorVersion, v.Revision = ver[0], ver[1], uint8(r.Intn(256))
				v.PrimaryLANOOBChannel, v.SecondaryLANOOBChannel, v.SerialOOBChannel = ipmi.Channel(r.Intn(256)), ipmi.Channel(r.Intn(256)), ipmi.Channel(r.Intn(256))
				return refcodec.DCMIManageabilityAccessAttrs(v), v, verLabel(ver)
			}},
		{Name: "DCMIEnhancedPowerAttrsRsp", MinLen: 4, New: func() decodable { return &dcmi.GetDCMICapabilitiesInfoEnhancedSystemPowerStatisticsAttrsRsp{} },
			Gen: func(r *rand.Rand) ([]byte, any, string) {
				v := &dcmi.GetDCMICapabilitiesInfoEnhancedSystemPowerStatisticsAttrsRsp{}
				ver := dcmiVersion(r)
				v.MajorVersion, v.MinorVersion, v.Revision = ver[0], ver[1], uint8(r.Intn(256))
				n := r.Intn(9)
				pb := make([]byte, n)
				v.PowerRollingAvgTimePeriods = make([]time.Duration, n)
				for i := range pb {
					pb[i], v.PowerRollingAvgTimePeriods[i] = refcodec.PeriodByte(byte(r.Intn(4)), byte(r.Intn(64)))
				}
				return refcodec.DCMIEnhancedPowerAttrs(v.MajorVersion, v.MinorVersion, v.Revision, pb), v, verLabel(ver)
			}},
		{Name: "GetPowerReadingRsp", MinLen: 17, New: func() decodable { return &dcmi.GetPowerReadingRsp{} },
			Gen: func(r *rand.Rand) ([]byte, any, string) {
				v := &dcmi.GetPowerReadingRsp{Instantaneous: uint16(r.Intn(65536)), Min: uint16(r.Intn(65536)), Max: uint16(r.Intn(65536)), Avg: uint16(r.Intn(65536)),
					Timestamp: time.Unix(int64(r.Uint32()), 0), Period: time.Duration(r.Uint32()) * time.Millisecond, Active: rb(r)}
				return refcodec.GetPowerReading(v, byte(r.Intn(256))), v, ""
			}},
		{Name: "GetDCMISensorInfoRsp", MinLen: 2, New: func() decodable { return &dcmi.GetDCMISensorInfoRsp{} },
			Gen: func(r *rand.Rand) ([]byte, any, string) {
				v := &dcmi.GetDCMISensorInfoRsp{Instances: uint8(r.Intn(256))}
				n := r.Intn(9)
				if r.Intn(4) == 0 {
					n = r.Intn(201) // the count is a whole byte (the 8-per-page limit is the BMC's to keep); 200 IDs still fit a 512-byte datagram
				}
				for i := 0; i < n; i++ {
					v.RecordIDs = append(v.RecordIDs, ipmi.RecordID(r.Intn(65536)))
				}
				return refcodec.GetDCMISensorInfo(v), v, fmt.Sprintf("n%d", n/16)
			}},
	}
}

func dcmiVersion(r *rand.Rand) [2]uint8 {
	// only 1.0 has the old layout; everything else (earlier drafts, later majors) the current one
	return [][2]uint8{{1, 0}, {1, 1}, {1, 5}, {1, 0}, {1, 1}, {1, 5}, {0, 9}, {0, 0}, {2, 0}, {3, 0}, {2, 1}, {15, 240}, {0, 1}}[r.Intn(13)]
}

func verLabel(v [2]uint8) string { return fmt.Sprintf("%d.%d", v[0], v[1]) }

func specByName(n string) *layerSpec {
	for _, s := range specs() {
		if s.Name == n {
			s := s
			return &s
		}
	}
	return nil
}

func mustAES(key [16]byte) cipher.Block {
	c, err := aes.NewCipher(key[:])
	if err != nil {
		panic(err)
	}
	return c
}

func newCBCEnc(b cipher.Block, iv []byte) cipher.BlockMode { return cipher.NewCBCEncrypter(b, iv) }

func layersRMCP() gopacket.LayerType { return gplayers.LayerTypeRMCP }
