package checks

import (
	"bytes"
	"context"
	"fmt"
	"strings"

	"verifharness/ev"
	"verifharness/memtr"
	"verifharness/refbmc"

	"github.com/gebn/bmc"
	"github.com/gebn/bmc/pkg/ipmi"
)

type c04One struct {
	Suite   int
	Cmd     string // guid | devid | chassis
	Kind    string // catalogue item, "flip", "trunc"
	Arg     int    // bit index / truncation length
	Forever bool   // forgery on every attempt (else the authentic reply follows on attempt 2)
	Code    int    // completion code carried by the forged message (catalogue items only)
	Seed    int64
	// Pre is what the session has been through before the forgery arrives: "" nothing;
	// "busy-then-cancel": the first attempt is answered by an authentic Node Busy, the
	// forgery answers the second attempt and the caller's context ends at that moment;
	// "failed-close": a Close whose request never reached the BMC (the session is still
	// alive there) precedes the command
	Pre string `json:",omitempty"`
}

type c04Batch struct {
	Suite int
	Cmd   string
	What  string // "catalogue" | "flips" | "truncs"
	Seed  int64
}

var c04Catalogue = []string{
	"flag-cleared-trailer-kept", "flag-cleared-trailer-removed", "authcode-empty", "authcode-short", "authcode-long", "authcode-zero", "authcode-random",
	"wrong-k1", "wrong-sid-signed", "wrong-sid-unsigned", "sessionless-wrapper", "plaintext-unsigned-session-sid", "unsigned-encrypted",
	"pad-wrong-value", "pad-wrong-count", "pad-count-over-15", "pad-count-16", "integrity-pad-not-ff", "different-body-unsigned-same-seq",
	"pad-sequential-17", "pad-sequential-24", "pad-sequential-40", "pad-sequential-200", "pad-sequential-255", "pad-last-byte-wrong", "pad-one-byte-wrong",
	"pad-two-bytes-same-flip", "pad-two-bytes-swapped", "pad-all-zero-3", "pad-all-zero-7", "pad-all-zero-11", "pad-all-zero-15", "pad-all-ff-4", "pad-shifted-by-one", "pad-multi-a", "pad-multi-b", "pad-multi-c",
	"pad-16-garbage", "pad-16-zero", "pad-16-garbage-long", "baseline-authentic-only", "signed-k1-first-16", "signed-k1-first-12", "signed-k2", "signed-sik", "v15-wrapper-none", "v15-wrapper-none-bmcsid", "v15-wrapper-md5", "v15-wrapper-password",
	"sid-bmc-signed", "sid-bmc-unsigned", "sid-zero-signed", "sid-plus1-signed", "sid-minus1-signed", "sid-swapped-signed", "sid-highbit-signed", "sid-inverted-signed", "sid-bmc-plus1-signed",
}

// c04CodeKinds are the forgeries repeated with every completion code: a
// refusal is as much a result as a success, so an unsigned or misaddressed
// datagram must not deliver one either.
var c04CodeKinds = []string{"flag-cleared-trailer-removed", "plaintext-unsigned-session-sid", "unsigned-encrypted", "wrong-sid-signed", "sid-bmc-signed", "wrong-k1", "sessionless-wrapper"}

func init() {
	register(&Check{
		ID:    "C04",
		Level: "fault_enumeration",
		Rule: "for each of the nine suites with integrity and three commands (16-byte body, 15-byte body, no response body) the authentic reply computed by the simulated BMC is replaced on the first attempt (and, in half of the cases, on every attempt) " +
			"by each item of a forgery catalogue built with and without the session keys, by every single-bit flip of the authentic datagram (quick: all bits for 2 suites, every 3rd bit for the others; thorough: all) and by every truncation; " +
			"forged packets carry a different body so that acceptance is visible; outcome must be an error, or the authentic value after the authentic datagram was delivered; " +
			"non-trivial = the library consumed the forged datagram; distinct = distinct (suite, command, forgery kind/bit/length, mode)",
		Assumptions: []string{"a bit flip outside the authenticated range (the 4 RMCP header bytes) may be tolerated as long as the value is unchanged"},
		Exhaustive:  func(tier string) bool { return tier == "thorough" },
		Gen: func(tier string, seed int64) []ev.Case {
			var cs []ev.Case
			if tier == "thorough" {
				// further key material, bodies and random forgery contents
				for k := 1; k <= 8; k++ {
					for su := 0; su < 9; su++ {
						for _, cmd := range []string{"guid", "devid", "chassis"} {
							cs = append(cs, ev.MkCase("batch", c04Batch{Suite: su, Cmd: cmd, What: "catalogue", Seed: seed + int64(k)*7919}))
							cs = append(cs, ev.MkCase("batch", c04Batch{Suite: su, Cmd: cmd, What: "flips/1", Seed: seed + int64(k)*7919}))
						}
					}
				}
			}
			for su := 0; su < 9; su++ {
				// the session's last command, Close Session: its authentic answer is a refusal
				// (0x87), the forgeries say "closed"
				cs = append(cs, ev.MkCase("batch", c04Batch{Suite: su, Cmd: "close", What: "catalogue", Seed: seed}))
				cs = append(cs, ev.MkCase("batch", c04Batch{Suite: su, Cmd: "close", What: "truncs", Seed: seed}))
				cs = append(cs, ev.MkCase("batch", c04Batch{Suite: su, Cmd: "close", What: "flips/3", Seed: seed}))
				for _, cmd := range []string{"guid", "devid", "chassis"} {
					cs = append(cs, ev.MkCase("batch", c04Batch{Suite: su, Cmd: cmd, What: "catalogue", Seed: seed}))
					cs = append(cs, ev.MkCase("batch", c04Batch{Suite: su, Cmd: cmd, What: "truncs", Seed: seed}))
					cs = append(cs, ev.MkCase("batch", c04Batch{Suite: su, Cmd: cmd, What: "codes", Seed: seed}))
					step := 3
					if tier == "thorough" || su == int(seed%9) || su == int((seed+4)%9) {
						step = 1
					}
					cs = append(cs, ev.MkCase("batch", c04Batch{Suite: su, Cmd: cmd, What: fmt.Sprintf("flips/%d", step), Seed: seed}))
				}
			}
			return cs
		},
		Exec: c04Exec,
		// The library's own accounting is part of "treated as if no valid response had arrived": the
		// per-completion-code response counter is process-wide, so it is judged once, after all cases.
		// Authentic replies of this check carry the codes 0x00, 0x87 (refused Close) and 0xC0 (the busy
		// precondition) only; every other code was only ever carried by forged or misaddressed datagrams.
		Post: func(run *ev.Run, tier string, seed int64) {
			allowed := map[string]bool{}
			for _, c := range []ipmi.CompletionCode{0x00, 0x87, 0xc0} {
				allowed["bmc_command_responses_total{code="+c.String()+"}"] = true
			}
			n := 0
			for k, v := range c18Snapshot() {
				if strings.HasPrefix(k, "bmc_command_responses_total{") && v > 0 && !allowed[k] {
					n++
					if n <= 3 {
						run.Violation("C04:forged-response-counted", fmt.Sprintf("%s = %v at the end of the run: that completion code was only ever carried by forged, unauthenticated or misaddressed datagrams, none of which is a valid response", k, v),
							ev.MkCase("batch", c04Batch{Suite: 0, Cmd: "guid", What: "codes", Seed: seed}), nil)
					}
				}
			}
			run.Event("response-counter-labels-checked", 256)
		},
		Anchors: []string{"V2Session).DecodeFromBytes", "AES128CBC).DecodeFromBytes", "V2Session).buildAndSend"},
	})
}

func c04Exec(run *ev.Run, c ev.Case) {
	switch c.Kind {
	case "one":
		var o c04One
		c.Decode(&o)
		c04Run(run, o)
	case "batch":
		var b c04Batch
		c.Decode(&b)
		switch {
		case b.What == "catalogue":
			for _, k := range c04Catalogue {
				for _, forever := range []bool{true, false} {
					c04Run(run, c04One{Suite: b.Suite, Cmd: b.Cmd, Kind: k, Forever: forever, Seed: b.Seed})
				}
			}
			if b.Cmd != "close" {
				for _, k := range c04CodeKinds {
					c04Run(run, c04One{Suite: b.Suite, Cmd: b.Cmd, Kind: k, Forever: true, Seed: b.Seed, Pre: "busy-then-cancel"})
					c04Run(run, c04One{Suite: b.Suite, Cmd: b.Cmd, Kind: k, Forever: true, Seed: b.Seed, Pre: "failed-close"})
					c04Run(run, c04One{Suite: b.Suite, Cmd: b.Cmd, Kind: k, Forever: false, Seed: b.Seed, Pre: "failed-close"})
				}
			}
		case b.What == "codes":
			for _, k := range c04CodeKinds {
				for code := 1; code < 256; code++ {
					c04Run(run, c04One{Suite: b.Suite, Cmd: b.Cmd, Kind: k, Forever: code%2 == 0, Code: code, Seed: b.Seed})
				}
			}
		case b.What == "truncs":
			for n := 0; n < 140; n++ {
				c04Run(run, c04One{Suite: b.Suite, Cmd: b.Cmd, Kind: "trunc", Arg: n, Forever: n%2 == 0, Seed: b.Seed})
			}
		default:
			step := 1
			fmt.Sscanf(b.What, "flips/%d", &step)
			for bit := int(b.Seed % int64(step)); bit < 140*8; bit += step {
				c04Run(run, c04One{Suite: b.Suite, Cmd: b.Cmd, Kind: "flip", Arg: bit, Forever: bit%2 == 0, Seed: b.Seed})
			}
		}
	}
}

func c04Run(run *ev.Run, o c04One) {
	cs := ev.MkCase("one", o)
	r := rng(o.Seed+int64(o.Suite), "c04"+o.Cmd)
	cfg := defaultCfg(r)
	su := stdSuites()[o.Suite%9]
	if strings.HasPrefix(o.Kind, "v15-") && o.Forever {
		cfg.SID = 1 // a BMC that numbers its sessions from 1, as the console does
	}
	e := NewEnv(cfg, memtr.Window)
	authBody := map[string][]byte{"guid": rbytes(r, 16), "devid": {0x20, 0x81, 0x03, 0x15, 0x02, 0xbf, 0x57, 0x01, 0x00, 0x34, 0x12, 1, 2, 3, 4}, "chassis": nil}[o.Cmd]
	forgedBody := map[string][]byte{"guid": rbytes(r, 16), "devid": {0x21, 0x01, 0x09, 0x99, 0x51, 0x00, 0x11, 0x22, 0x33, 0x78, 0x56, 9, 9, 9, 9}, "chassis": nil}[o.Cmd]
	e.BMC.Handler = func(ev *refbmc.Event) (byte, []byte, bool) {
		if o.Cmd == "close" && ev.NetFn == 6 && ev.Cmd == 0x3c {
			return 0x87, nil, true
		}
		return 0, authBody, true
	}
	ctx, cancel := e.LimitCtx(20)
	prefs := []ipmi.CipherSuite{libSuite(su)}
	sess, err := e.ST.NewV2Session(ctx, &bmc.V2SessionOpts{
		SessionOpts:  bmc.SessionOpts{Username: cfg.Username, Password: cfg.Password, MaxPrivilegeLevel: ipmi.PrivilegeLevelAdministrator},
		CipherSuites: prefs,
	})
	cancel()
	if err != nil {
		run.Violation("C04:handshake-failed", err.Error(), cs, nil)
		return
	}
	if (o.Arg+o.Code+o.Suite+len(o.Kind))%2 == 0 {
		// the caller's option values are the caller's: once the session exists it wipes (or reuses)
		// its preference list
		prefs[0] = ipmi.CipherSuite{}
	}
	// half of the cases first run an in-session Get Channel Authentication Capabilities whose
	// (authentic) answer has every capability and "disabled" bit set: nothing in it may relax
	// what the session accepts afterwards
	capsFirst := (o.Arg+o.Code+len(o.Kind)+o.Suite)%2 == 1
	if capsFirst {
		e.BMC.Handler = func(ev *refbmc.Event) (byte, []byte, bool) {
			if ev.NetFn == 6 && ev.Cmd == 0x38 {
				return 0, []byte{0x01, 0xb7, 0x1f, 0x03, 0xaa, 0xbb, 0xcc, 0xdd}, true
			}
			if o.Cmd == "close" && ev.NetFn == 6 && ev.Cmd == 0x3c {
				return 0x87, nil, true
			}
			return 0, authBody, true
		}
		pc, pcancel := e.LimitCtx(4)
		if _, cerr := sess.GetChannelAuthenticationCapabilities(pc, &ipmi.GetChannelAuthenticationCapabilitiesReq{ExtendedData: true, Channel: ipmi.ChannelPresentInterface, MaxPrivilegeLevel: ipmi.PrivilegeLevelAdministrator}); cerr != nil {
			run.Violation("C04:harness-caps", "in-session capabilities command failed: "+cerr.Error(), cs, nil)
		}
		pcancel()
	}
	if o.Pre == "failed-close" {
		// the Close Session request is lost on its way to the BMC, so Close fails and the BMC keeps the session
		e.PreFilter = func(n int, req []byte) []byte { return nil }
		pc, pcancel := e.LimitCtx(3)
		cerr := sess.Close(pc)
		pcancel()
		e.PreFilter = nil
		if cerr == nil {
			run.Violation("C04:close-succeeded-without-response", "Close reported success although its request never reached the BMC", cs, nil)
			return
		}
	}
	attempt, authenticDelivered, forgedDelivered := 0, 0, 0
	skip := false
	var forgedBytes []byte
	var cancelCaller context.CancelFunc
	e.Filter = func(n int, req, reply []byte) ([]byte, error) {
		attempt++
		if reply == nil && o.Cmd != "close" && e.BMC.Sess != nil {
			// the BMC did not answer this request (it may not even have accepted it); someone who
			// can guess the command in flight does not need its answer to inject a datagram
			op := map[string][2]byte{"guid": {6, 0x37}, "devid": {6, 0x01}, "chassis": {0, 0x02}}[o.Cmd]
			reply = e.BMC.Sess.Wrap(refbmc.BuildRsp(0x81, op[0]+1, 0, 0x20, 1, 0, op[1], 0, authBody), refbmc.WrapOpts{})
			if !(attempt == 1 || o.Forever) {
				return nil, nil
			}
		}
		if reply == nil {
			return nil, nil
		}
		if o.Pre == "busy-then-cancel" {
			if attempt == 1 {
				// the BMC is momentarily busy: an authentic reply, which the library retries
				last := e.BMC.Last()
				return e.BMC.Sess.Wrap(refbmc.RespMsg(last, 0xc0, nil), refbmc.WrapOpts{}), nil
			}
			if cancelCaller != nil {
				cancelCaller()
			}
		}
		if attempt == 1 || o.Forever {
			f, ok := c04Forge(o, e.BMC, reply, forgedBody, r)
			if !ok {
				skip = true
				authenticDelivered++
				return reply, nil
			}
			forgedDelivered++
			forgedBytes = f
			return f, nil
		}
		authenticDelivered++
		return reply, nil
	}
	cctx, ccancel := e.LimitCtx(3)
	defer ccancel()
	cancelCaller = ccancel
	firstEvent := e.BMC.Len()
	var code ipmi.CompletionCode
	var value []byte
	pv, stk := safe(func() {
		switch o.Cmd {
		case "guid":
			if (o.Arg+o.Suite)%2 == 1 {
				// through the session's own method
				var g [16]byte
				g, err = sess.GetSystemGUID(cctx)
				value = g[:]
				break
			}
			cmd := &ipmi.GetSystemGUIDCmd{}
			code, err = sess.SendCommand(cctx, cmd)
			value = cmd.Rsp.GUID[:]
		case "devid":
			cmd := &RawCmd{Op: ipmi.OperationGetDeviceIDReq, NoReq: true}
			code, err = sess.SendCommand(cctx, cmd)
			value = cmd.Rsp.Data
		case "chassis":
			cmd := &ipmi.ChassisControlCmd{Req: ipmi.ChassisControlReq{ChassisControl: ipmi.ChassisControlPowerOn}}
			code, err = sess.SendCommand(cctx, cmd)
		case "close":
			err = sess.Close(cctx)
		}
	})
	if o.Cmd == "close" {
		// the authentic answer is a refusal, so Close can only report success off a forgery
		run.Eval(1)
		desc := fmt.Sprintf("suite %v Close() forgery %s/%d forever=%v caps-first=%v", su, o.Kind, o.Arg, o.Forever, capsFirst)
		if pv != nil {
			run.Violation("C04:panic:"+panicSite(stk), fmt.Sprintf("%s: panic %v\n%s", desc, pv, trimStack(stk)), cs, nil)
			return
		}
		if forgedDelivered > 0 || skip {
			run.Nontrivial(desc)
			run.Event("forged-datagrams-delivered", forgedDelivered)
		}
		if err == nil && !(o.Kind == "flip" && o.Arg < 32) {
			run.Violation("C04:accepted-forgery:close:"+o.Kind, fmt.Sprintf("%s: Close reported success although the BMC's authentic answer is completion code 0x87 (forged datagram %x)", desc, forgedBytes), cs, nil)
		}
		return
	}
	if skip && o.Kind == "baseline-authentic-only" {
		run.Eval(1)
		run.Nontrivial(fmt.Sprintf("suite %v cmd %s baseline caps-first %v", su, o.Cmd, capsFirst))
		if pv != nil || err != nil || code != 0 || (o.Cmd != "chassis" && !bytes.Equal(value, authBody)) {
			run.Violation("C04:authentic-reply-not-accepted:"+su.String(), fmt.Sprintf("suite %v cmd %s: the authentic reply (signed under K1, encrypted under K2) was the only thing delivered: code=%v err=%v panic=%v value %x want %x", su, o.Cmd, code, err, pv, value, authBody), cs, nil)
		}
		return
	}
	if skip {
		return // the item does not apply to this reply (e.g. bit index beyond the datagram)
	}
	run.Eval(1)
	desc := fmt.Sprintf("suite %v cmd %s forgery %s/%d code %#x forever=%v caps-first=%v", su, o.Cmd, o.Kind, o.Arg, o.Code, o.Forever, capsFirst)
	if o.Pre != "" {
		desc += " after " + o.Pre
	}
	if pv != nil {
		run.Violation("C04:panic:"+panicSite(stk), fmt.Sprintf("%s: panic %v\n%s", desc, pv, trimStack(stk)), cs, nil)
		return
	}
	if forgedDelivered > 0 {
		run.Nontrivial(desc)
		run.Event("forged-datagrams-delivered", forgedDelivered)
	}
	run.Event("authentic-datagrams-delivered", authenticDelivered)
	// a forged datagram counts as no response: what the library sends next is the same well-formed,
	// correctly signed request it would have sent after silence - the BMC accepts every one of them
	for _, evn := range e.BMC.Since(firstEvent) {
		if evn.Problem != "" {
			run.Violation("C04:request-rejected-after-forgery", fmt.Sprintf("%s: after the forged datagram the BMC rejected the library's next request (%s); datagram %x", desc, evn.Problem, evn.Raw), cs, nil)
			return
		}
	}
	_ = context.Canceled
	tolerable := o.Kind == "flip" && o.Arg < 32 // RMCP header bits are outside the authenticated range
	if err == nil && code == 0 {
		if authenticDelivered == 0 {
			if tolerable && bytes.Equal(value, authBody) {
				run.Observe("rmcp-header-flip-tolerated", 1)
				return
			}
			key := "C04:accepted-forgery:" + o.Kind
			if o.Kind == "flip" {
				key = fmt.Sprintf("C04:accepted-bit-flip:%s", c04Region(o.Arg/8, len(forgedBytes), su))
			}
			run.Violation(key, fmt.Sprintf("%s: SendCommand succeeded although only forged datagrams were delivered (value %x, forged datagram %x)", desc, value, forgedBytes), cs, nil)
			return
		}
		if o.Cmd != "chassis" && !bytes.Equal(value, authBody) {
			run.Violation("C04:wrong-value:"+o.Kind, fmt.Sprintf("%s: returned %x, authentic value is %x (forged body %x)", desc, value, authBody, forgedBody), cs, nil)
			return
		}
	} else if err == nil && code != 0 {
		run.Violation("C04:wrong-code:"+o.Kind, fmt.Sprintf("%s: returned completion code %v from a tampered datagram", desc, code), cs, nil)
		return
	}
	if o.Kind != "flip" && o.Kind != "trunc" && o.Forever {
		run.Sample(o.Kind, map[string]any{"suite": su.String(), "command": o.Cmd, "forgery": o.Kind, "forged_datagram": ev.Hex(forgedBytes), "result_err": errStr(err)})
	}
}

func c04Region(byteIdx, total int, su refbmc.Suite) string {
	_, il := refbmc.IntegFor(su.Integ)
	switch {
	case byteIdx < 4:
		return "rmcp"
	case byteIdx == 5:
		return "flags-byte"
	case byteIdx < 16:
		return "session-header"
	case byteIdx >= total-il:
		return "authcode"
	default:
		return "payload-or-trailer"
	}
}

// c04Forge builds the forged datagram for one catalogue item from the
// authentic reply.
func c04Forge(o c04One, b *refbmc.BMC, auth []byte, forgedBody []byte, r interface{ Read([]byte) (int, error) }) ([]byte, bool) {
	se := b.Sess
	last := b.Last()
	if se == nil || last == nil {
		return nil, false
	}
	if last.Problem != "" || !last.Accepted {
		// the BMC could not make sense of the request; the forger answers the command it knows to be in flight
		op := map[string][2]byte{"guid": {6, 0x37}, "devid": {6, 0x01}, "chassis": {0, 0x02}, "close": {6, 0x3c}}[o.Cmd]
		last.RqAddr, last.RsAddr, last.NetFn, last.Cmd, last.RqSeq, last.RqLUN, last.RsLUN = 0x81, 0x20, op[0], op[1], 1, 0, 0
	}
	msg := refbmc.RespMsg(last, byte(o.Code), forgedBody)
	_, il := refbmc.IntegFor(se.Suite.Integ)
	randBytes := func(n int) []byte { x := make([]byte, n); r.Read(x); return x }
	other := se.ConsoleSID ^ 0x5a5a0000
	switch o.Kind {
	case "flip":
		if o.Arg/8 >= len(auth) {
			return nil, false
		}
		m := append([]byte(nil), auth...)
		m[o.Arg/8] ^= 1 << (o.Arg % 8)
		return m, true
	case "trunc":
		if o.Arg >= len(auth) {
			return nil, false
		}
		return append([]byte(nil), auth[:o.Arg]...), true
	case "flag-cleared-trailer-kept":
		return se.Wrap(msg, refbmc.WrapOpts{NoAuthFlag: true}), true
	case "flag-cleared-trailer-removed":
		return se.Wrap(msg, refbmc.WrapOpts{NoAuthFlag: true, DropTrailer: true}), true
	case "authcode-empty":
		return se.Wrap(msg, refbmc.WrapOpts{AuthCodeSet: true, AuthCode: nil}), true
	case "authcode-short":
		d := se.Wrap(msg, refbmc.WrapOpts{})
		return d[:len(d)-1], true
	case "authcode-long":
		return append(se.Wrap(msg, refbmc.WrapOpts{}), 0x00), true
	case "authcode-zero":
		return se.Wrap(msg, refbmc.WrapOpts{AuthCodeSet: true, AuthCode: make([]byte, il)}), true
	case "authcode-random":
		return se.Wrap(msg, refbmc.WrapOpts{AuthCodeSet: true, AuthCode: randBytes(il)}), true
	case "wrong-k1":
		return se.Wrap(msg, refbmc.WrapOpts{Key1: randBytes(len(se.K1))}), true
	case "v15-wrapper-none", "v15-wrapper-none-bmcsid", "v15-wrapper-md5", "v15-wrapper-password":
		// the forged message in an IPMI v1.5 session wrapper: no RMCP+ integrity at all
		sid := se.ConsoleSID
		if o.Kind == "v15-wrapper-none-bmcsid" {
			sid = se.BMCSID
		}
		at := map[string]byte{"v15-wrapper-none": 0, "v15-wrapper-none-bmcsid": 0, "v15-wrapper-md5": 2, "v15-wrapper-password": 4}[o.Kind]
		d := []byte{at}
		d = append(d, refbmc.LE32(se.OutSeq+1)...)
		d = append(d, refbmc.LE32(sid)...)
		if at != 0 {
			d = append(d, randBytes(16)...)
		}
		d = append(d, byte(len(msg)))
		return refbmc.RMCP(append(d, msg...)), true
	case "baseline-authentic-only":
		return nil, false // nothing is forged: the authentic reply alone must complete the command
	case "signed-k1-first-16", "signed-k1-first-12":
		// signed under a prefix of K1 (what a key copied into a too-short array gives)
		n := 16
		if o.Kind == "signed-k1-first-12" {
			n = 12
		}
		if len(se.K1) <= n {
			return nil, false
		}
		return se.Wrap(msg, refbmc.WrapOpts{Key1: append([]byte(nil), se.K1[:n]...)}), true
	case "signed-k2":
		return se.Wrap(msg, refbmc.WrapOpts{Key1: se.K2}), true
	case "signed-sik":
		return se.Wrap(msg, refbmc.WrapOpts{Key1: se.SIK}), true
	case "wrong-sid-signed":
		return se.Wrap(msg, refbmc.WrapOpts{SID: &other}), true
	case "sid-bmc-signed", "sid-bmc-unsigned", "sid-zero-signed", "sid-plus1-signed", "sid-minus1-signed", "sid-swapped-signed", "sid-highbit-signed", "sid-inverted-signed", "sid-bmc-plus1-signed":
		var sid uint32
		switch strings.TrimSuffix(strings.TrimSuffix(o.Kind, "-signed"), "-unsigned") {
		case "sid-bmc":
			sid = se.BMCSID
		case "sid-zero":
			sid = 0
		case "sid-plus1":
			sid = se.ConsoleSID + 1
		case "sid-minus1":
			sid = se.ConsoleSID - 1
		case "sid-swapped":
			sid = se.ConsoleSID<<16 | se.ConsoleSID>>16
		case "sid-highbit":
			sid = se.ConsoleSID ^ 0x80000000
		case "sid-inverted":
			sid = ^se.ConsoleSID
		case "sid-bmc-plus1":
			sid = se.BMCSID + 1
		}
		if sid == se.ConsoleSID {
			return nil, false
		}
		if strings.HasSuffix(o.Kind, "-unsigned") {
			return se.Wrap(msg, refbmc.WrapOpts{SID: &sid, NoAuthFlag: true, DropTrailer: true}), true
		}
		return se.Wrap(msg, refbmc.WrapOpts{SID: &sid}), true
	case "wrong-sid-unsigned":
		return se.Wrap(msg, refbmc.WrapOpts{SID: &other, NoAuthFlag: true, DropTrailer: true, NoEncrypt: true}), true
	case "sessionless-wrapper":
		return refbmc.RMCP(refbmc.SessHdr(0, 0, 0, msg)), true
	case "plaintext-unsigned-session-sid":
		return se.Wrap(msg, refbmc.WrapOpts{NoAuthFlag: true, DropTrailer: true, NoEncrypt: true}), true
	case "unsigned-encrypted":
		return se.Wrap(msg, refbmc.WrapOpts{NoAuthFlag: true, DropTrailer: true}), true
	case "different-body-unsigned-same-seq":
		seq := se.OutSeq
		return se.Wrap(msg, refbmc.WrapOpts{Seq: &seq, NoAuthFlag: true, DropTrailer: true, NoEncrypt: true}), true
	case "integrity-pad-not-ff":
		// only meaningful when the trailer has pad bytes; choose the message so that it does
		d := se.Wrap(msg, refbmc.WrapOpts{PadByteSet: true, PadByte: 0x00})
		return d, true
	case "pad-sequential-17", "pad-sequential-24", "pad-sequential-40", "pad-sequential-200", "pad-sequential-255":
		// a fully consistent pad 01,02,..,N,N with N above the block size, clear of the IV
		var n int
		fmt.Sscanf(o.Kind, "pad-sequential-%d", &n)
		pt := append([]byte(nil), msg...)
		for (len(pt)+n+1)%16 != 0 {
			// lengthen the message body (keeping checksum 2 valid) until the total aligns
			pt = append(pt[:len(pt)-1], 0, 0)
			pt[len(pt)-1] = refbmc.Csum(pt[3 : len(pt)-1])
		}
		for i := 0; i < n; i++ {
			pt = append(pt, byte(i+1))
		}
		pt = append(pt, byte(n))
		return se.Wrap(nil, refbmc.WrapOpts{RawPlain: pt}), true
	case "pad-two-bytes-same-flip", "pad-two-bytes-swapped", "pad-all-zero-3", "pad-all-zero-7", "pad-all-zero-11", "pad-all-zero-15", "pad-all-ff-4", "pad-shifted-by-one", "pad-multi-a", "pad-multi-b", "pad-multi-c":
		// a pad of the right length in which several bytes are wrong at once (errors that
		// cancel under XOR or addition, constant fills, a shifted count)
		want := 6
		fmt.Sscanf(o.Kind, "pad-all-zero-%d", &want)
		fmt.Sscanf(o.Kind, "pad-all-ff-%d", &want)
		mm := append([]byte(nil), msg...)
		for (16-(len(mm)+1)%16)%16 != want {
			mm = append(mm[:len(mm)-1], 0, 0)
			mm[len(mm)-1] = refbmc.Csum(mm[3 : len(mm)-1])
		}
		pad := make([]byte, want)
		for i := range pad {
			pad[i] = byte(i + 1)
		}
		switch {
		case o.Kind == "pad-two-bytes-same-flip":
			pad[0] ^= 0x80
			pad[1] ^= 0x80
		case o.Kind == "pad-two-bytes-swapped":
			pad[1], pad[4] = pad[4], pad[1]
		case strings.HasPrefix(o.Kind, "pad-all-zero"):
			for i := range pad {
				pad[i] = 0
			}
		case strings.HasPrefix(o.Kind, "pad-all-ff"):
			for i := range pad {
				pad[i] = 0xff
			}
		case o.Kind == "pad-shifted-by-one":
			for i := range pad {
				pad[i] = byte(i)
			}
		default:
			// two to four bytes wrong, chosen so that the XOR of the errors is zero
			k := map[string]int{"pad-multi-a": 2, "pad-multi-b": 3, "pad-multi-c": 4}[o.Kind]
			x := randBytes(k)
			acc := byte(0)
			for i := 0; i < k-1; i++ {
				if x[i] == 0 {
					x[i] = 0x21
				}
				acc ^= x[i]
			}
			if acc == 0 {
				x[0] ^= 0x44
				acc = 0x44
			}
			x[k-1] = acc
			for i := 0; i < k; i++ {
				pad[i+1] ^= x[i]
			}
		}
		pt := append(append([]byte(nil), mm...), pad...)
		pt = append(pt, byte(want))
		return se.Wrap(nil, refbmc.WrapOpts{RawPlain: pt}), true
	case "pad-16-garbage", "pad-16-zero", "pad-16-garbage-long":
		// a whole extra block of "pad" whose content is not 01,02,.. (count byte 0x10)
		mm := append([]byte(nil), msg...)
		for len(mm)%16 != 15 || (o.Kind == "pad-16-garbage-long" && len(mm) < 40) {
			mm = append(mm[:len(mm)-1], 0, 0)
			mm[len(mm)-1] = refbmc.Csum(mm[3 : len(mm)-1])
		}
		pad := randBytes(16)
		if o.Kind == "pad-16-zero" {
			pad = make([]byte, 16)
		}
		pad[3] = 0x77 // never the sequential pad by accident
		pt := append(append([]byte(nil), mm...), pad...)
		pt = append(pt, 16)
		return se.Wrap(nil, refbmc.WrapOpts{RawPlain: pt}), true
	case "pad-last-byte-wrong", "pad-one-byte-wrong":
		mm := append([]byte(nil), msg...)
		want := 5
		if o.Kind == "pad-one-byte-wrong" {
			want = 1
		}
		// lengthen the message body until the pad has the wanted length
		for (16-(len(mm)+1)%16)%16 != want {
			mm = append(mm[:len(mm)-1], 0, 0)
			mm[len(mm)-1] = refbmc.Csum(mm[3 : len(mm)-1])
		}
		pt := append([]byte(nil), mm...)
		for i := 0; i < want; i++ {
			pt = append(pt, byte(i+1))
		}
		pt[len(pt)-1] ^= 0x10 // only the last pad byte is wrong
		pt = append(pt, byte(want))
		return se.Wrap(nil, refbmc.WrapOpts{RawPlain: pt}), true
	case "pad-wrong-value", "pad-wrong-count", "pad-count-over-15", "pad-count-16":
		// valid MAC around a payload whose confidentiality pad is invalid
		n := (16 - (len(msg)+1)%16) % 16
		if n < 2 && o.Kind == "pad-wrong-value" {
			msg = append(msg[:len(msg)-1], 0, 0, 0) // lengthen so that there are pad bytes
			msg[len(msg)-1] = refbmc.Csum(msg[3 : len(msg)-1])
			n = (16 - (len(msg)+1)%16) % 16
		}
		pt := append([]byte(nil), msg...)
		for i := 0; i < n; i++ {
			pt = append(pt, byte(i+1))
		}
		pt = append(pt, byte(n))
		switch o.Kind {
		case "pad-wrong-value":
			if n == 0 {
				return nil, false
			}
			pt[len(pt)-2] ^= 0x40
		case "pad-wrong-count":
			pt[len(pt)-1] = byte((n + 1) % 16)
			if n == 15 {
				pt[len(pt)-1] = 3
			}
		case "pad-count-over-15":
			pt[len(pt)-1] = 0x20
		case "pad-count-16":
			pt[len(pt)-1] = 16
		}
		return se.Wrap(nil, refbmc.WrapOpts{RawPlain: pt}), true
	}
	return nil, false
}
