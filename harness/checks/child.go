package checks

// ChildMain is the entry point of re-executed child processes (used by checks
// that must survive unrecoverable crashes of the code under test).
func ChildMain(args []string) int {
	if len(args) > 0 {
		if f, ok := childEntries[args[0]]; ok {
			return f(args[1:])
		}
	}
	return 2
}

var childEntries = map[string]func(args []string) int{}
