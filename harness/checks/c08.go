package checks

import (
	"bytes"
	"crypto/aes"
	"crypto/cipher"
	"crypto/hmac"
	"crypto/md5"
	"crypto/sha1"
	"crypto/sha256"
	"fmt"
	"hash"
	"math/rand"

	"verifharness/ev"

	"github.com/gebn/bmc/pkg/iana"
	"github.com/gebn/bmc/pkg/ipmi"
	"github.com/google/gopacket"
)

type c08Batch struct {
	Layer string
	Seed  int64
	Count int
}

// c08One is a fully specified single round-trip (replay form).
type c08One struct {
	Layer   string
	Seed    int64 // regenerates the value
	Index   int
	Reused  bool
	Prefill int // bytes serialised into the reused buffer beforehand
}

func init() {
	register(&Check{
		ID:    "C08",
		Level: "exploration",
		Rule: "values of the five two-way layers are generated over their wire domains (every payload length 0..200 cyclically, every NetFn, all flag combinations, random keys), " +
			"serialised into a fresh and into a reused gopacket buffer, decoded into a fresh layer, compared field by field, and re-serialised; " +
			"non-trivial = the serialise+decode+re-serialise cycle ran; distinct = distinct (layer, structural class: lengths mod 16 / NetFn / flags / auth type / username length, buffer kind)",
		Assumptions: []string{
			"values are restricted to what the wire format can carry (6-bit sequence, 24-bit enterprise numbers, completion code only on responses)",
			"AES ciphertexts are compared by decrypting them with crypto/cipher directly",
		},
		Gen: func(tier string, seed int64) []ev.Case {
			n := 10000
			if tier == "thorough" {
				n = 400000
			}
			var cs []ev.Case
			for _, l := range []string{"V1Session", "V2Session", "Message", "AES128CBC", "RAKPMessage1"} {
				for i := 0; i < n; i += 2500 {
					cs = append(cs, ev.MkCase("batch", c08Batch{Layer: l, Seed: seed*977 + int64(i), Count: 2500}))
				}
			}
			return cs
		},
		Exec:    c08Exec,
		Anchors: []string{"V2Session).SerializeTo", "V2Session).DecodeFromBytes", "V1Session).SerializeTo", "V1Session).DecodeFromBytes", "Message).SerializeTo", "Message).DecodeFromBytes", "AES128CBC).SerializeTo", "AES128CBC).DecodeFromBytes", "RAKPMessage1).SerializeTo", "RAKPMessage1).DecodeFromBytes"},
	})
}

var serOpts = gopacket.SerializeOptions{FixLengths: true, ComputeChecksums: true}

func c08Exec(run *ev.Run, c ev.Case) {
	switch c.Kind {
	case "batch":
		var b c08Batch
		c.Decode(&b)
		reused := gopacket.NewSerializeBuffer()
		dec := &c08Decoders{}
		for i := 0; i < b.Count; i++ {
			c08Round(run, c08One{Layer: b.Layer, Seed: b.Seed, Index: i, Reused: false}, nil, nil)
			c08Round(run, c08One{Layer: b.Layer, Seed: b.Seed, Index: i, Reused: true}, reused, dec)
		}
	case "one":
		var o c08One
		c.Decode(&o)
		var buf gopacket.SerializeBuffer
		if o.Reused {
			buf = gopacket.NewSerializeBuffer()
			// reproduce some buffer history
			gopacket.SerializeLayers(buf, serOpts, gopacket.Payload(make([]byte, o.Prefill)))
		}
		if o.Reused {
			// reproduce the decoder history of the batch up to this value
			dec := &c08Decoders{}
			for i := 0; i < o.Index; i++ {
				c08Round(run, c08One{Layer: o.Layer, Seed: o.Seed, Index: i, Reused: true}, buf, dec)
			}
			c08Round(run, o, buf, dec)
			return
		}
		c08Round(run, o, buf, nil)
	}
}

// c08Decoders are decode targets that live as long as a batch: the library
// decodes every received packet into the same layer values.
type c08Decoders struct {
	V1  ipmi.V1Session
	V2  ipmi.V2Session
	Msg ipmi.Message
	R1  ipmi.RAKPMessage1
	// one confidentiality layer per direction for the whole batch, as a session has
	AESKey     [16]byte
	AESX, AESY *ipmi.AES128CBC
}

func keyedHash(r *rand.Rand) (func() hash.Hash, string) {
	key := rbytes(r, 20)
	switch r.Intn(4) {
	case 0:
		return nil, "none"
	case 1:
		return func() hash.Hash { return truncHash{hmac.New(sha1.New, key), 12} }, "sha1-96"
	case 2:
		return func() hash.Hash { return hmac.New(md5.New, key) }, "md5-128"
	default:
		return func() hash.Hash { return truncHash{hmac.New(sha256.New, key), 16} }, "sha256-128"
	}
}

// truncHash is the harness's own truncated HMAC (the library's is unexported).
type truncHash struct {
	hash.Hash
	n int
}

func (t truncHash) Sum(b []byte) []byte { s := t.Hash.Sum(b); return s[:len(b)+t.n] }
func (t truncHash) Size() int           { return t.n }

func c08Round(run *ev.Run, o c08One, buf gopacket.SerializeBuffer, rdec *c08Decoders) {
	run.Eval(1)
	run.Event("round-trips", 1)
	cs := ev.MkCase("one", o)
	r := rng(o.Seed+int64(o.Index)*7919, "c08"+o.Layer)
	plen := (o.Index + r.Intn(3)*67) % 201
	if o.Layer == "V2Session" && o.Index%10 == 9 {
		// the RMCP+ length field is 16 bits wide: payloads beyond one byte's worth as well
		plen = []int{250, 254, 255, 256, 257, 300, 511, 512, 513, 700, 1024, 2000}[(o.Index/10)%12]
	}
	inner := rbytes(r, plen)
	if buf == nil {
		buf = gopacket.NewSerializeBuffer()
	}
	bufKind := "fresh"
	if o.Reused {
		bufKind = "reused"
	}
	viol := func(key, what string, detail any) {
		run.Violation("C08:"+o.Layer+":"+key, fmt.Sprintf("[%s buffer, payload %d bytes] %s", bufKind, plen, what), cs, detail)
	}
	if o.Reused {
		// whatever was sent before is still in the buffer's memory
		gopacket.SerializeLayers(buf, serOpts, gopacket.Payload(rbytes(r, 96+r.Intn(64))))
	}
	cur := buf
	// second: the re-serialisation of a decoded value goes into a fresh (zeroed) buffer
	// when the first went into the used one, so bytes a serialiser never writes show up
	second := func() {
		if o.Reused {
			cur = gopacket.NewSerializeBuffer()
		}
	}
	ser := func(l gopacket.SerializableLayer, payload []byte) ([]byte, bool) {
		var err error
		pv, st := safe(func() { err = gopacket.SerializeLayers(cur, serOpts, l, gopacket.Payload(payload)) })
		if pv != nil {
			viol("serialise-panic", fmt.Sprintf("panic: %v\n%s", pv, trimStack(st)), nil)
			return nil, false
		}
		if err != nil {
			viol("serialise-error", err.Error(), nil)
			return nil, false
		}
		return append([]byte(nil), cur.Bytes()...), true
	}
	// third: the decoded value carries its own lengths, pad count, checksums and AuthCode,
	// so it must serialise to the same bytes whichever of them the caller asks to have recomputed
	third := func(l gopacket.SerializableLayer, payload, b1 []byte) {
		for k, opts := range []gopacket.SerializeOptions{{FixLengths: false, ComputeChecksums: true}, {FixLengths: true, ComputeChecksums: false}, {}} {
			if (o.Index+k)%3 != 0 && o.Index%10 != 9 {
				continue
			}
			tb := gopacket.NewSerializeBuffer()
			var err error
			pv, st := safe(func() { err = gopacket.SerializeLayers(tb, opts, l, gopacket.Payload(payload)) })
			if pv != nil {
				viol("serialise-panic", fmt.Sprintf("panic: %v\n%s", pv, trimStack(st)), nil)
				return
			}
			run.Event("reserialisations-with-other-options", 1)
			if err != nil || !bytes.Equal(tb.Bytes(), b1) {
				viol(fmt.Sprintf("reserialise-mismatch:fixlengths-%v-checksums-%v", opts.FixLengths, opts.ComputeChecksums), fmt.Sprintf("decoded value serialised with %+v: err %v, first % x now % x", opts, err, b1, tb.Bytes()), nil)
				return
			}
		}
	}
	dec := func(l interface {
		DecodeFromBytes([]byte, gopacket.DecodeFeedback) error
	}, data []byte) bool {
		var err error
		d := append([]byte(nil), data...)
		d = d[:len(d):len(d)]
		pv, st := safe(func() { err = l.DecodeFromBytes(d, gopacket.NilDecodeFeedback) })
		if pv != nil {
			viol("decode-panic", fmt.Sprintf("panic decoding own serialisation: %v\n%s", pv, trimStack(st)), ev.Hex(data))
			return false
		}
		if err != nil {
			viol("decode-error", "decoding own serialisation failed: "+err.Error(), ev.Hex(data))
			return false
		}
		return true
	}

	switch o.Layer {
	case "V1Session":
		x := ipmi.V1Session{AuthType: ipmi.AuthenticationType([]byte{0, 1, 2, 4, 5}[r.Intn(5)]), Sequence: r.Uint32(), ID: r.Uint32()}
		if plen > 255 {
			plen = 255
		}
		if x.AuthType != ipmi.AuthenticationTypeNone {
			r.Read(x.AuthCode[:])
		}
		b1, ok := ser(&x, inner)
		if !ok {
			return
		}
		var y ipmi.V1Session
		if !dec(&y, b1) {
			return
		}
		if y.AuthType != x.AuthType || y.Sequence != x.Sequence || y.ID != x.ID || y.AuthCode != x.AuthCode || int(y.Length) != len(inner) {
			viol("field-mismatch", fmt.Sprintf("decoded %+v from value %+v", fieldsV1(&y), fieldsV1(&x)), ev.Hex(b1))
			return
		}
		if rdec != nil && dec(&rdec.V1, b1) {
			z := &rdec.V1
			if z.AuthType != x.AuthType || z.Sequence != x.Sequence || z.ID != x.ID || z.AuthCode != x.AuthCode || int(z.Length) != len(inner) || !bytes.Equal(z.LayerPayload(), inner) {
				viol("field-mismatch-on-reused-decoder", fmt.Sprintf("decoded %+v from value %+v", fieldsV1(z), fieldsV1(&x)), ev.Hex(b1))
				return
			}
		}
		if !bytes.Equal(y.LayerPayload(), inner) {
			viol("payload-mismatch", "inner payload differs", ev.Hex(b1))
			return
		}
		second()
		b2, ok := ser(&y, y.LayerPayload())
		if ok && !bytes.Equal(b1, b2) {
			viol("reserialise-mismatch", fmt.Sprintf("first % x second % x", b1, b2), nil)
		}
		if ok {
			third(&y, y.LayerPayload(), b1)
		}
		run.Nontrivial(fmt.Sprintf("v1 %d %d %s", x.AuthType, plen%4, bufKind))
	case "V2Session":
		hf, hname := keyedHash(r)
		x := ipmi.V2Session{Encrypted: r.Intn(2) == 0, Authenticated: r.Intn(2) == 0, ID: r.Uint32(), Sequence: r.Uint32()}
		switch r.Intn(4) {
		case 0:
			x.PayloadDescriptor = ipmi.PayloadDescriptor{PayloadType: ipmi.PayloadTypeOEM, Enterprise: iana.Enterprise(r.Intn(1 << 24)), PayloadID: uint16(r.Intn(65536))}
		case 1:
			x.PayloadDescriptor = ipmi.PayloadDescriptor{PayloadType: ipmi.PayloadType(r.Intn(64))}
			if x.PayloadType == ipmi.PayloadTypeOEM {
				x.PayloadType = ipmi.PayloadTypeIPMI
			}
		default:
			x.PayloadDescriptor = ipmi.PayloadDescriptorIPMI
		}
		// one hash instance serves both directions, as in a session
		var shared hash.Hash
		if hf != nil {
			shared = hf()
			x.IntegrityAlgorithm = shared
		}
		b1, ok := ser(&x, inner)
		if !ok {
			return
		}
		var y ipmi.V2Session
		if hf != nil {
			y.IntegrityAlgorithm = shared
		}
		if hf != nil && x.Authenticated && o.Index%2 == 0 {
			// a packet damaged in transit is decoded (and refused) in between; it must
			// not disturb what follows
			bad := append([]byte(nil), b1...)
			bad[len(bad)-1-r.Intn(4)] ^= 1 << uint(r.Intn(8))
			var junk ipmi.V2Session
			junk.IntegrityAlgorithm = shared
			safe(func() { junk.DecodeFromBytes(bad, gopacket.NilDecodeFeedback) })
			run.Event("damaged-packets-decoded-in-between", 1)
			if b1b, ok := ser(&x, inner); ok && !bytes.Equal(b1b, b1) {
				viol("serialisation-differs-after-rejected-packet", fmt.Sprintf("the same value serialises to % x, and after a rejected packet went through the same integrity hash to % x", b1, b1b), ev.Hex(bad))
				return
			}
		}
		if !dec(&y, b1) {
			return
		}
		wantPad := 0
		hdr := 12
		if x.PayloadType == ipmi.PayloadTypeOEM {
			hdr = 18
		}
		if x.Authenticated {
			wantPad = (4 - (hdr+len(inner)+2)%4) % 4
		}
		if y.PayloadDescriptor != x.PayloadDescriptor || y.Encrypted != x.Encrypted || y.Authenticated != x.Authenticated || y.ID != x.ID ||
			y.Sequence != x.Sequence || int(y.Length) != len(inner) || int(y.Pad) != wantPad || !bytes.Equal(y.Signature, x.Signature) {
			viol("field-mismatch", fmt.Sprintf("decoded %v from value %v (want pad %d)", fieldsV2(&y), fieldsV2(&x), wantPad), ev.Hex(b1))
			return
		}
		if !bytes.Equal(y.LayerPayload(), inner) {
			viol("payload-mismatch", "inner payload differs", ev.Hex(b1))
			return
		}
		if rdec != nil {
			rdec.V2.IntegrityAlgorithm = nil
			if hf != nil {
				rdec.V2.IntegrityAlgorithm = hf()
			}
			if dec(&rdec.V2, b1) {
				z := &rdec.V2
				if z.PayloadDescriptor != x.PayloadDescriptor || z.Encrypted != x.Encrypted || z.Authenticated != x.Authenticated || z.ID != x.ID ||
					z.Sequence != x.Sequence || int(z.Length) != len(inner) || int(z.Pad) != wantPad || !bytes.Equal(z.Signature, x.Signature) || !bytes.Equal(z.LayerPayload(), inner) {
					viol("field-mismatch-on-reused-decoder", fmt.Sprintf("decoded %v from value %v into a layer used before", fieldsV2(z), fieldsV2(&x)), ev.Hex(b1))
					return
				}
			}
		}
		// structure of the trailer as the specification lays it out
		if x.Authenticated {
			tr := b1[hdr+len(inner):]
			sigLen := map[string]int{"none": 0, "sha1-96": 12, "md5-128": 16, "sha256-128": 16}[hname]
			okTr := len(tr) == wantPad+2+sigLen
			for i := 0; okTr && i < wantPad; i++ {
				okTr = tr[i] == 0xff
			}
			if okTr {
				okTr = int(tr[wantPad]) == wantPad && tr[wantPad+1] == 0x07
			}
			if !okTr || len(b1)%4 != sigLen%4 {
				viol("trailer-layout", fmt.Sprintf("trailer % x for pad %d, authcode %d bytes", tr, wantPad, sigLen), ev.Hex(b1))
				return
			}
		} else if len(b1) != hdr+len(inner) {
			viol("trailer-layout", "unauthenticated packet has a trailer", ev.Hex(b1))
			return
		}
		second()
		b2, ok := ser(&y, y.LayerPayload())
		if ok && !bytes.Equal(b1, b2) {
			viol("reserialise-mismatch", fmt.Sprintf("first % x second % x", b1, b2), nil)
		}
		if ok {
			third(&y, y.LayerPayload(), b1)
		}
		run.Nontrivial(fmt.Sprintf("v2 %v %v %v %s %d %s", x.PayloadType == ipmi.PayloadTypeOEM, x.Encrypted, x.Authenticated, hname, plen%4, bufKind))
	case "Message":
		nf := ipmi.NetworkFunction(o.Index % 64)
		x := ipmi.Message{
			Operation:     ipmi.Operation{Function: nf, Command: ipmi.CommandNumber(r.Intn(256))},
			RemoteAddress: ipmi.Address(r.Intn(256)), RemoteLUN: ipmi.LUN(r.Intn(4)),
			LocalAddress: ipmi.Address(r.Intn(256)), LocalLUN: ipmi.LUN(r.Intn(4)), Sequence: uint8(r.Intn(64)),
		}
		if !nf.IsRequest() {
			x.CompletionCode = ipmi.CompletionCode(r.Intn(256))
		}
		switch nf {
		case ipmi.NetworkFunctionGroupReq, ipmi.NetworkFunctionGroupRsp:
			x.Body = ipmi.BodyCode(r.Intn(256))
		case ipmi.NetworkFunctionOEMReq, ipmi.NetworkFunctionOEMRsp:
			x.Enterprise = iana.Enterprise(r.Intn(1 << 24))
		}
		b1, ok := ser(&x, inner)
		if !ok {
			return
		}
		var y ipmi.Message
		if !dec(&y, b1) {
			return
		}
		if y.Operation != x.Operation || y.RemoteAddress != x.RemoteAddress || y.RemoteLUN != x.RemoteLUN || y.LocalAddress != x.LocalAddress ||
			y.LocalLUN != x.LocalLUN || y.Sequence != x.Sequence || y.CompletionCode != x.CompletionCode || y.Checksum1 != x.Checksum1 || y.Checksum2 != x.Checksum2 {
			viol("field-mismatch", fmt.Sprintf("decoded %+v from value %+v", fieldsMsg(&y), fieldsMsg(&x)), ev.Hex(b1))
			return
		}
		if !bytes.Equal(y.LayerPayload(), inner) {
			viol("payload-mismatch", fmt.Sprintf("inner payload differs: got % x want % x", y.LayerPayload(), inner), ev.Hex(b1))
			return
		}
		if rdec != nil && dec(&rdec.Msg, b1) {
			z := &rdec.Msg
			if z.Operation != x.Operation || z.RemoteAddress != x.RemoteAddress || z.RemoteLUN != x.RemoteLUN || z.LocalAddress != x.LocalAddress ||
				z.LocalLUN != x.LocalLUN || z.Sequence != x.Sequence || z.CompletionCode != x.CompletionCode || !bytes.Equal(z.LayerPayload(), inner) {
				viol("field-mismatch-on-reused-decoder", fmt.Sprintf("decoded %+v from value %+v into a Message used before", fieldsMsg(z), fieldsMsg(&x)), ev.Hex(b1))
				return
			}
		}
		second()
		b2, ok := ser(&y, y.LayerPayload())
		if ok && !bytes.Equal(b1, b2) {
			viol("reserialise-mismatch", fmt.Sprintf("first % x second % x", b1, b2), nil)
		}
		if ok {
			third(&y, y.LayerPayload(), b1)
		}
		run.Nontrivial(fmt.Sprintf("msg %d %s", nf, bufKind))
	case "AES128CBC":
		var key [16]byte
		r.Read(key[:])
		x, err := ipmi.NewAES128CBC(key)
		if err != nil {
			viol("new", err.Error(), nil)
			return
		}
		if rdec != nil {
			if rdec.AESX == nil {
				rdec.AESKey = key
				rdec.AESX = x
				rdec.AESY, _ = ipmi.NewAES128CBC(key)
			}
			key, x = rdec.AESKey, rdec.AESX
		}
		b1, ok := ser(x, inner)
		if !ok {
			return
		}
		blk, _ := aes.NewCipher(key[:])
		refDecrypt := func(b []byte) ([]byte, string) {
			if len(b) < 32 || len(b)%16 != 0 {
				return nil, fmt.Sprintf("length %d is not IV + positive multiple of 16", len(b))
			}
			pt := make([]byte, len(b)-16)
			cipher.NewCBCDecrypter(blk, b[:16]).CryptBlocks(pt, b[16:])
			n := int(pt[len(pt)-1])
			if n > 15 || n+1 > len(pt) {
				return nil, fmt.Sprintf("pad length byte %d", n)
			}
			for i := 0; i < n; i++ {
				if pt[len(pt)-1-n+i] != byte(i+1) {
					return nil, "pad bytes not 01,02,.."
				}
			}
			return pt[:len(pt)-1-n], ""
		}
		p1, prob := refDecrypt(b1)
		if prob != "" || !bytes.Equal(p1, inner) {
			key := "ciphertext-not-decryptable"
			if bytes.Contains(b1, inner) && len(inner) >= 8 {
				key = "plaintext-on-wire"
			}
			viol(key, fmt.Sprintf("serialised bytes do not decrypt to the payload under the layer's key (%s); contains plaintext: %v", prob, bytes.Contains(b1, inner) && len(inner) > 0), ev.Hex(b1))
			return
		}
		wantLen := 16 + (len(inner)+1+15)/16*16
		if len(b1) != wantLen {
			viol("ciphertext-length", fmt.Sprintf("ciphertext is %d bytes, want %d", len(b1), wantLen), nil)
			return
		}
		y, _ := ipmi.NewAES128CBC(key)
		if rdec != nil {
			y = rdec.AESY
		}
		if !dec(y, b1) {
			return
		}
		if !bytes.Equal(y.LayerPayload(), inner) {
			viol("payload-mismatch", fmt.Sprintf("decoded payload % x, want % x", y.LayerPayload(), inner), ev.Hex(b1))
			return
		}
		second()
		b2, ok := ser(y, append([]byte(nil), y.LayerPayload()...))
		if ok {
			p2, prob2 := refDecrypt(b2)
			if prob2 != "" || !bytes.Equal(p2, inner) || len(b2) != len(b1) {
				viol("reserialise-mismatch", fmt.Sprintf("second ciphertext (%d bytes) does not decrypt to the same payload: %s", len(b2), prob2), ev.Hex(b2))
				return
			}
			if bytes.Equal(b1[:16], b2[:16]) {
				viol("iv-reused", "two serialisations used the same IV", nil)
			}
		}
		run.Nontrivial(fmt.Sprintf("aes %d %s", plen%16, bufKind))
	case "RAKPMessage1":
		x := ipmi.RAKPMessage1{Tag: uint8(r.Intn(256)), ManagedSystemSessionID: r.Uint32(), PrivilegeLevelLookup: r.Intn(2) == 0,
			MaxPrivilegeLevel: ipmi.PrivilegeLevel(r.Intn(16)), Username: randUser(r, o.Index%17)}
		r.Read(x.RemoteConsoleRandom[:])
		var err error
		pv, st := safe(func() { err = gopacket.SerializeLayers(buf, serOpts, &x) })
		if pv != nil || err != nil {
			viol("serialise-error", fmt.Sprintf("%v %v %s", pv, err, trimStack(st)), nil)
			return
		}
		b1 := append([]byte(nil), buf.Bytes()...)
		var y ipmi.RAKPMessage1
		if !dec(&y, b1) {
			return
		}
		if y.Tag != x.Tag || y.ManagedSystemSessionID != x.ManagedSystemSessionID || y.RemoteConsoleRandom != x.RemoteConsoleRandom ||
			y.PrivilegeLevelLookup != x.PrivilegeLevelLookup || y.MaxPrivilegeLevel != x.MaxPrivilegeLevel || y.Username != x.Username {
			viol("field-mismatch", fmt.Sprintf("decoded %+v from %+v", y, x), ev.Hex(b1))
			return
		}
		if rdec != nil && dec(&rdec.R1, b1) {
			z := &rdec.R1
			if z.Tag != x.Tag || z.ManagedSystemSessionID != x.ManagedSystemSessionID || z.RemoteConsoleRandom != x.RemoteConsoleRandom ||
				z.PrivilegeLevelLookup != x.PrivilegeLevelLookup || z.MaxPrivilegeLevel != x.MaxPrivilegeLevel || z.Username != x.Username {
				viol("field-mismatch-on-reused-decoder", fmt.Sprintf("decoded %+v from %+v", *z, x), ev.Hex(b1))
				return
			}
		}
		second()
		if err := gopacket.SerializeLayers(cur, serOpts, &y); err != nil || !bytes.Equal(cur.Bytes(), b1) {
			viol("reserialise-mismatch", fmt.Sprintf("err %v first % x second % x", err, b1, cur.Bytes()), nil)
		}
		run.Nontrivial(fmt.Sprintf("rakp1 %d %v %s", len(x.Username), x.PrivilegeLevelLookup, bufKind))
	}
	if o.Index%997 == 0 {
		run.Sample(o.Layer, map[string]any{"layer": o.Layer, "payload_len": plen, "buffer": bufKind, "seed": o.Seed, "index": o.Index})
	}
}

func fieldsV1(s *ipmi.V1Session) string {
	return fmt.Sprintf("{auth %v seq %#x id %#x code %x len %d}", s.AuthType, s.Sequence, s.ID, s.AuthCode, s.Length)
}
func fieldsV2(s *ipmi.V2Session) string {
	return fmt.Sprintf("{%v enc %v auth %v id %#x seq %#x len %d pad %d sig %x}", s.PayloadDescriptor, s.Encrypted, s.Authenticated, s.ID, s.Sequence, s.Length, s.Pad, s.Signature)
}
func fieldsMsg(m *ipmi.Message) string {
	return fmt.Sprintf("{%+v ra %#x rl %d c1 %#x la %#x ll %d seq %d cc %#x c2 %#x}", m.Operation, m.RemoteAddress, m.RemoteLUN, m.Checksum1, m.LocalAddress, m.LocalLUN, m.Sequence, uint8(m.CompletionCode), m.Checksum2)
}
