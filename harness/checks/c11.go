package checks

import (
	"bytes"
	"context"
	"fmt"
	"time"

	"verifharness/ev"
	"verifharness/memtr"
	"verifharness/refbmc"
	"verifharness/udpbmc"

	"github.com/gebn/bmc"
	"github.com/gebn/bmc/pkg/ipmi"
)

type c11Op struct {
	Name       string
	NetFn, Cmd byte
	Group      bool
	OEM        bool
	NoRsp      bool // the command has no response layer (only the completion code comes back)
}

// the first ten are the pair universe of the statement; the rest add pairs
// inside the group-extension (DCMI) and OEM NetFn classes, where only the
// command number distinguishes the responses
var c11Ops = []c11Op{
	{"guid", 6, 0x37, false, false, false}, {"devid", 6, 0x01, false, false, false}, {"authcaps", 6, 0x38, false, false, false}, {"chassisstatus", 0, 0x01, false, false, false}, {"repoinfo", 0x0a, 0x20, false, false, false},
	{"reserve", 0x0a, 0x22, false, false, false}, {"sensorreading", 4, 0x2d, false, false, false}, {"sessioninfo", 6, 0x3d, false, false, false}, {"getsdr", 0x0a, 0x23, false, false, false}, {"power", 0x2c, 0x02, true, false, false},
	{"dcmicap", 0x2c, 0x01, true, false, false}, {"dcmisensorinfo", 0x2c, 0x07, true, false, false}, {"oem-a", 0x2e, 0x10, false, true, false}, {"oem-b", 0x2e, 0x11, false, true, false},
	{"chassiscontrol", 0, 0x02, false, false, true}, {"closeother", 6, 0x3c, false, false, true},
}

var c11Enterprise = []byte{0x57, 0x01, 0x00}

type c11One struct {
	A, B      int    // indices into c11Ops: the stray reply answers A, the caller sent B
	StrayCode byte   // completion code carried by the stray reply
	Pattern   string // stray-only | stray-then-right | stale-previous | unsolicited-twice | reordered
	InSession bool
	Suite     int
	Follow    int // commands sent afterwards to check re-synchronisation
	Seed      int64
	// Typed: where the library has a command type of its own for the operation (Get System GUID,
	// Get Device ID, Reserve SDR Repository, Chassis Control, Close Session) that type is
	// used instead of the harness's raw command, and the decoded fields are compared
	Typed bool `json:",omitempty"`
}

type c11Batch struct {
	Full      bool // thorough: the whole stray-code grid
	InSession bool
	From, To  int
	Seed      int64
	UDP       int
}

var c11Patterns = []string{"lost-only", "stray-then-bare-error", "stray-only", "stray-then-right", "stale-previous", "unsolicited-twice", "reordered", "busy-stray-giveup", "encapsulated", "reflected", "stale-previous-same-cmd-value", "busy-then-stray-then-right", "lost-then-stray-then-right"}

func init() {
	register(&Check{
		ID:    "C11",
		Level: "fault_enumeration",
		Rule: "every ordered pair of distinct commands from a set of 14 (the statement's 10 plus two more DCMI group-extension and two OEM commands, so that pairs differing only in the command number exist; 7 of them outside a session) x 5 stray-reply patterns x stray completion codes {00, C1, D4, C0, FF} (only strays; stray then the right reply; the previous call's duplicate; two unsolicited replies; reordered replies) x {session-less, in-session with authentic strays}: " +
			"the reply delivered during the call for command B is a well-formed (and in-session: authentic) response to command A with a distinguishable body long enough to decode as B's; result must be an error or B's own value, and 3..6 follow-up commands must each return their own value; " +
			"plus loopback-UDP histories in which the simulated BMC really duplicates datagrams into the socket queue; non-trivial = a stray datagram was delivered during a call; distinct = distinct (A, B, pattern, mode)",
		Assumptions: []string{"strays are responses to a different (NetFn, command); duplicates of the same command cannot be told apart by the statement and are not asserted"},
		Exhaustive:  func(tier string) bool { return tier == "thorough" },
		Gen: func(tier string, seed int64) []ev.Case {
			var cs []ev.Case
			for f := 0; f < 16*16; f += 16 {
				cs = append(cs, ev.MkCase("batch", c11Batch{InSession: true, From: f, To: f + 16, Seed: seed}))
			}
			cs = append(cs, ev.MkCase("batch", c11Batch{InSession: false, From: 0, To: 16 * 16, Seed: seed}))
			nu := 6
			if tier == "thorough" {
				nu = 60
				for i := range cs {
					var bb c11Batch
					cs[i].Decode(&bb)
					bb.Full = true
					cs[i] = ev.MkCase("batch", bb)
				}
				for k := 1; k < 30; k++ {
					for f := 0; f < 16*16; f += 16 {
						cs = append(cs, ev.MkCase("batch", c11Batch{InSession: true, From: f, To: f + 16, Seed: seed + int64(k)*997}))
					}
				}
			}
			for i := 0; i < nu; i++ {
				cs = append(cs, ev.MkCase("batch", c11Batch{UDP: 1, Seed: seed*13 + int64(i), InSession: i%2 == 0}))
			}
			return cs
		},
		Exec:    c11Exec,
		Anchors: []string{"V2Session).buildAndSend", "buildAndSendCommand", "transport).Send"},
	})
}

func c11Exec(run *ev.Run, c ev.Case) {
	switch c.Kind {
	case "one":
		var o c11One
		c.Decode(&o)
		c11Run(run, o)
	case "udp":
		var b c11Batch
		c.Decode(&b)
		c11UDP(run, b)
	case "batch":
		var b c11Batch
		c.Decode(&b)
		if b.UDP > 0 {
			c11UDP(run, b)
			return
		}
		for idx := b.From; idx < b.To; idx++ {
			a, bb := idx/16, idx%16
			if a == bb {
				continue
			}
			sessionlessOK := func(i int) bool { return i <= 2 || (i >= 10 && i != 15) } // guid, devid, authcaps, DCMI capabilities and OEM commands
			if !b.InSession && (!sessionlessOK(a) || !sessionlessOK(bb)) {
				continue
			}
			for pi, p := range c11Patterns {
				for ci, code := range []byte{0x00, 0xc1, 0xd4, 0xc0, 0xff} {
					if ci > 0 && (p == "stale-previous" || (!b.Full && (idx+pi+ci)%2 == 1)) {
						continue // the stale reply is the real one; the quick tier halves the error-code grid
					}
					c11Run(run, c11One{A: a, B: bb, StrayCode: code, Pattern: p, InSession: b.InSession, Suite: (idx + pi) % 9, Follow: 3 + (idx+pi)%4, Seed: b.Seed, Typed: (idx+pi+ci)%3 == 0})
				}
			}
		}
	}
}

// c11Body returns a distinguishable body of 24 bytes for a (command, tag).
func c11Body(op c11Op, tag byte) []byte {
	b := make([]byte, 24)
	for i := range b {
		b[i] = tag ^ byte(i*7+int(op.Cmd))
	}
	if op.Group {
		b[0] = 0xdc
	}
	if op.OEM {
		copy(b, c11Enterprise)
	}
	return b
}

func c11Run(run *ev.Run, o c11One) {
	run.Eval(1)
	cs := ev.MkCase("one", o)
	r := rng(o.Seed+int64(o.A*10+o.B), "c11"+o.Pattern)
	cfg := defaultCfg(r)
	e := NewEnv(cfg, memtr.Window)
	opA, opB := c11Ops[o.A], c11Ops[o.B]
	tag := byte(0)
	// the BMC answers every command with a body derived from a running tag
	sentBody := map[int][]byte{}
	sentCode := map[int]byte{}
	e.BMC.Handler = func(evn *refbmc.Event) (byte, []byte, bool) {
		for _, op := range c11Ops {
			if op.NetFn == evn.NetFn && op.Cmd == evn.Cmd {
				tag++
				if op.NoRsp {
					code := []byte{0x00, 0xd4, 0xcc}[int(tag)%3]
					if op.Cmd == 0x3c {
						code = []byte{0x87, 0xd4, 0xcc}[int(tag)%3] // a successful Close Session would end the session
					}
					sentCode[evn.N] = code
					sentBody[evn.N] = nil
					return code, nil, true
				}
				body := c11Body(op, tag)
				sentBody[evn.N] = body
				return 0, body, true
			}
		}
		return 0xc1, nil, true
	}
	var conn bmc.Connection = e.ST
	var sess *bmc.V2Session
	if o.InSession {
		ctx, cancel := e.LimitCtx(20)
		var err error
		sess, err = e.OpenSession(ctx, stdSuites()[o.Suite%9])
		cancel()
		if err != nil {
			run.Violation("C11:handshake-failed", err.Error(), cs, nil)
			return
		}
		conn = sess
	}
	wrap := func(m []byte) []byte {
		if o.InSession {
			return e.BMC.Sess.Wrap(m, refbmc.WrapOpts{})
		}
		return refbmc.RMCP(refbmc.SessHdr(0, 0, 0, m))
	}
	shared := &RawCmd{} // one command value re-targeted between sends (a caller's "raw command" helper)
	send := func(op c11Op, maxSends int) (ipmi.CompletionCode, []byte, error, any, string) {
		cmd := &RawCmd{}
		if o.Pattern == "stale-previous-same-cmd-value" {
			cmd = shared
			cmd.Rsp = RawRsp{}
		}
		*cmd = RawCmd{Op: ipmi.Operation{Function: ipmi.NetworkFunction(op.NetFn), Command: ipmi.CommandNumber(op.Cmd)}, NoReq: !op.Group && !op.OEM, Label: op.Name}
		if op.Group {
			cmd.Op.Body = ipmi.BodyCodeDCMI
			cmd.Req = []byte{1, 0, 0}
		}
		if op.OEM {
			cmd.Op.Enterprise = 0x000157
			cmd.Req = []byte{9}
		}
		if op.NoRsp {
			cmd.NoRsp, cmd.NoReq, cmd.Req = true, false, []byte{0x42, 0, 0, 0}
		}
		ctx, cancel := e.LimitCtx(maxSends)
		defer cancel()
		var code ipmi.CompletionCode
		var err error
		if o.Typed {
			var typed ipmi.Command
			var result func() []byte
			switch op.Name {
			case "guid":
				c := &ipmi.GetSystemGUIDCmd{}
				typed, result = c, func() []byte { return c.Rsp.GUID[:] }
			case "devid":
				c := &ipmi.GetDeviceIDCmd{}
				typed, result = c, func() []byte { return []byte{c.Rsp.ID} }
			case "reserve":
				c := &ipmi.ReserveSDRRepositoryCmd{}
				typed, result = c, func() []byte { return []byte{byte(c.Rsp.ReservationID), byte(c.Rsp.ReservationID >> 8)} }
			case "chassiscontrol":
				typed, result = &ipmi.ChassisControlCmd{Req: ipmi.ChassisControlReq{ChassisControl: ipmi.ChassisControlPowerCycle}}, func() []byte { return nil }
			case "closeother":
				typed, result = &ipmi.CloseSessionCmd{Req: ipmi.CloseSessionReq{ID: 0x42}}, func() []byte { return nil }
			}
			if typed != nil {
				pv, st := safe(func() { code, err = conn.SendCommand(ctx, typed) })
				if err != nil || code != 0 {
					return code, nil, err, pv, st
				}
				return code, result(), err, pv, st
			}
		}
		pv, st := safe(func() { code, err = conn.SendCommand(ctx, cmd) })
		return code, cmd.Rsp.Data, err, pv, st
	}
	// canon reduces a response body to what the typed command exposes of it
	canon := func(op c11Op, body []byte) []byte {
		if !o.Typed || body == nil {
			return body
		}
		switch op.Name {
		case "guid":
			return body[:16]
		case "devid":
			return body[:1]
		case "reserve":
			return body[:2]
		}
		return body
	}
	strayBodyA := c11Body(opA, 0xe0)
	strayMsg := func(evn *refbmc.Event) []byte {
		body := strayBodyA
		if o.StrayCode != 0 && (o.A+o.B)%2 == 0 {
			// error replies are usually truncated after the code (group/OEM prefix kept)
			switch {
			case opA.Group:
				body = body[:1]
			case opA.OEM:
				body = body[:3]
			default:
				body = nil
			}
		}
		return refbmc.BuildRsp(0x81, opA.NetFn+1, 0, 0x20, evn.RqSeq, 0, opA.Cmd, o.StrayCode, body)
	}
	attempt := 0
	strays := 0
	bareDelivered := false
	var prevReply []byte
	switch o.Pattern {
	case "stale-previous", "stale-previous-same-cmd-value":
		// call A for real first; its reply is delivered again to B's first attempt
		e.Filter = func(n int, req, reply []byte) ([]byte, error) { prevReply = reply; return reply, nil }
		if _, _, err, pv, st := send(opA, 4); err != nil || pv != nil {
			run.Violation("C11:baseline", fmt.Sprintf("fault-free command %s failed: %v %v %s", opA.Name, err, pv, trimStack(st)), cs, nil)
			return
		}
	}
	var rightBody []byte
	rightCode := byte(0)
	e.Filter = func(n int, req, reply []byte) ([]byte, error) {
		attempt++
		last := e.BMC.Last()
		if last != nil {
			if b, ok := sentBody[last.N]; ok {
				rightBody = b
				rightCode = sentCode[last.N]
			}
		}
		switch o.Pattern {
		case "lost-only":
			// nothing comes back at all (inside a session that ends the command; outside, the
			// bounded context does): whatever is returned, it is not a response
			return nil, nil
		case "stray-only":
			strays++
			return wrap(strayMsg(last)), nil
		case "stray-then-right":
			if attempt == 1 {
				strays++
				return wrap(strayMsg(last)), nil
			}
		case "stray-then-bare-error":
			// the stray first; the command's own reply then is an error completion code and nothing
			// else - not even the group extension byte / enterprise number (some BMCs cut error replies
			// that short); the attempt after that is answered in full
			if attempt == 1 {
				strays++
				return wrap(strayMsg(last)), nil
			}
			if attempt == 2 {
				bareDelivered = true
				return wrap(refbmc.BuildRsp(0x81, opB.NetFn+1, 0, 0x20, last.RqSeq, 0, opB.Cmd, 0xc1, nil)), nil
			}
		case "busy-then-stray-then-right", "lost-then-stray-then-right":
			// the first attempt fails for an unrelated reason; the stray meets the second one
			if attempt == 1 {
				if o.Pattern[0] == 'l' && !o.InSession {
					return nil, nil
				}
				pre := []byte(nil)
				if opB.Group {
					pre = []byte{0xdc}
				}
				if opB.OEM {
					pre = c11Enterprise
				}
				return wrap(refbmc.RespMsg(last, 0xc0, pre)), nil
			}
			if attempt == 2 {
				strays++
				return wrap(strayMsg(last)), nil
			}
		case "stale-previous", "stale-previous-same-cmd-value":
			if attempt == 1 && prevReply != nil {
				strays++
				return prevReply, nil
			}
		case "unsolicited-twice":
			if attempt <= 2 {
				strays++
				return wrap(strayMsg(last)), nil
			}
		case "busy-stray-giveup":
			// node busy for the command itself, then a stray, then the caller's context ends
			if attempt == 1 {
				pre := []byte(nil)
				if opB.Group {
					pre = []byte{0xdc}
				}
				if opB.OEM {
					pre = c11Enterprise
				}
				return wrap(refbmc.RespMsg(last, 0xc0, pre)), nil
			}
			strays++
			return wrap(strayMsg(last)), nil
		case "reflected":
			// a request-form message (even NetFn) for the very command in flight, carrying other
			// data: the console's request reflected, or the BMC itself issuing that command
			if attempt == 1 {
				strays++
				body := c11Body(opB, 0xe2)
				if opB.NoRsp {
					body = []byte{0x42, 0, 0, 0}
				}
				m := refbmc.BuildRsp(0x81, opB.NetFn&^1, 0, 0x20, last.RqSeq, 0, opB.Cmd, o.StrayCode, body)
				if !o.InSession && (o.A+o.B)%2 == 0 {
					return append([]byte(nil), req...), nil
				}
				return wrap(m), nil
			}
		case "encapsulated":
			// a stray reply to a bridging command (Send Message, or Master Write-Read) whose data
			// bytes are themselves a well-formed response message to the command in flight
			if attempt == 1 {
				strays++
				body := c11Body(opB, 0xe1)
				if opB.NoRsp {
					body = nil
				}
				inner := refbmc.BuildRsp(0x81, opB.NetFn+1, 0, 0x20, last.RqSeq, 0, opB.Cmd, o.StrayCode, body)
				bridge := []byte{0x34, 0x52}[(o.A+o.B)%2]
				return wrap(refbmc.BuildRsp(0x81, 0x07, 0, 0x20, last.RqSeq, 0, bridge, 0, inner)), nil
			}
		case "reordered":
			// B's own reply is held back and A's arrives first; B's arrives on the retry
			if attempt == 1 {
				strays++
				return wrap(strayMsg(last)), nil
			}
		}
		return reply, nil
	}
	maxSends := 4
	if o.Pattern == "busy-stray-giveup" {
		maxSends = 2
	}
	code, got, err, pv, st := send(opB, maxSends)
	e.Filter = nil
	desc := fmt.Sprintf("stray reply (code %#x) to %s (NetFn %#x cmd %#x) during %s (NetFn %#x cmd %#x), pattern %s, in-session %v", o.StrayCode, opA.Name, opA.NetFn+1, opA.Cmd, opB.Name, opB.NetFn, opB.Cmd, o.Pattern, o.InSession)
	if pv != nil {
		run.Violation("C11:panic:"+panicSite(st), fmt.Sprintf("%s: panic %v\n%s", desc, pv, trimStack(st)), cs, nil)
		return
	}
	if strays > 0 {
		run.Nontrivial(fmt.Sprintf("%d %d %#x %s %v", o.A, o.B, o.StrayCode, o.Pattern, o.InSession))
		run.Event("stray-datagrams-delivered", strays)
	}
	wantBody := rightBody
	if opB.Group && len(wantBody) > 0 {
		wantBody = wantBody[1:]
	}
	if opB.OEM && len(wantBody) >= 3 {
		wantBody = wantBody[3:]
	}
	if o.Pattern == "lost-only" {
		run.Nontrivial(fmt.Sprintf("lost %d %v %v", o.B, o.InSession, o.Typed))
		if err == nil {
			run.Violation("C11:result-without-response", fmt.Sprintf("%s (NetFn %#x cmd %#x, in-session %v, library command type %v): every reply was lost, yet the call returned completion code %v, body %x and no error - a result that comes from no response at all", opB.Name, opB.NetFn, opB.Cmd, o.InSession, o.Typed, code, got), cs, nil)
		}
		return
	}
	if err == nil {
		if o.Pattern == "stray-only" || o.Pattern == "busy-stray-giveup" {
			run.Violation("C11:stray-accepted", fmt.Sprintf("%s: call succeeded (code %v, body %x) although only responses to another command were delivered", desc, code, got), cs, nil)
			return
		}
		wantBody = canon(opB, wantBody)
		if rightCode != 0 && o.Typed {
			wantBody = nil
		}
		bareAccepted := bareDelivered && code == 0xc1 && len(got) == 0 // the bare error reply is a response to this command too
		if !bareAccepted && (byte(code) != rightCode || !bytes.Equal(got, wantBody)) {
			run.Violation("C11:stray-accepted", fmt.Sprintf("%s: returned code %v body %x, the command's own response was code %#x body %x", desc, code, got, rightCode, wantBody), cs, nil)
			return
		}
	}
	// re-synchronisation
	for k := 0; k < o.Follow; k++ {
		op := c11Ops[(o.B+k+1)%len(c11Ops)]
		if (op.OEM || op.NoRsp) && !o.InSession {
			op = c11Ops[0]
		}
		if !o.InSession {
			op = c11Ops[[]int{0, 2}[k%2]]
		}
		rightBody, rightCode = nil, 0
		e.Filter = func(n int, req, reply []byte) ([]byte, error) {
			if last := e.BMC.Last(); last != nil {
				if b, ok := sentBody[last.N]; ok {
					rightBody = b
					rightCode = sentCode[last.N]
				}
			}
			return reply, nil
		}
		code, got, err, pv, st := send(op, 4)
		if pv != nil {
			run.Violation("C11:panic:"+panicSite(st), fmt.Sprintf("%s: follow-up %d panicked: %v", desc, k, pv), cs, nil)
			return
		}
		want := rightBody
		if op.Group && len(want) > 0 {
			want = want[1:]
		}
		if op.OEM && len(want) >= 3 {
			want = want[3:]
		}
		want = canon(op, want)
		if rightCode != 0 && o.Typed {
			want = nil
		}
		if err != nil || byte(code) != rightCode || !bytes.Equal(got, want) {
			run.Violation("C11:desynchronised", fmt.Sprintf("%s: follow-up command %d (%s) returned code %v err %v body %x, its own response was %x", desc, k, op.Name, code, err, got, want), cs, nil)
			return
		}
	}
	if o.A == 1 && o.B == 0 {
		run.Sample(o.Pattern, map[string]any{"stray_for": opA.Name, "sent": opB.Name, "pattern": o.Pattern, "in_session": o.InSession, "result_err": errStr(err), "strays_delivered": strays})
	}
}

// c11UDP: the simulated BMC duplicates one reply into the real socket queue, so
// the next call reads the previous command's response first.
func c11UDP(run *ev.Run, b c11Batch) {
	run.Eval(1)
	cs := ev.MkCase("udp", b)
	r := rng(b.Seed, "c11udp")
	cfg := defaultCfg(r)
	bm := refbmc.New(cfg)
	tag := byte(0)
	sent := map[int][]byte{}
	bm.Handler = func(evn *refbmc.Event) (byte, []byte, bool) {
		for _, op := range c11Ops {
			if op.NetFn == evn.NetFn && op.Cmd == evn.Cmd {
				tag++
				body := c11Body(op, tag)
				sent[evn.N] = body
				return 0, body, true
			}
		}
		return 0xc1, nil, true
	}
	srv, err := udpbmc.Listen(bm)
	if err != nil {
		run.Inconclusive("udp listen: " + err.Error())
		return
	}
	defer srv.Close()
	st, err := bmc.DialV2(srv.Addr(), bmc.WithTimeout(300*time.Millisecond))
	if err != nil {
		run.Inconclusive("udp dial: " + err.Error())
		return
	}
	defer st.Close()
	ctx, cancel := context.WithTimeout(context.Background(), 20*time.Second)
	defer cancel()
	var conn bmc.Connection = st
	ops := []int{0, 2}
	if b.InSession {
		sess, err := st.NewV2Session(ctx, &bmc.V2SessionOpts{SessionOpts: bmc.SessionOpts{Username: cfg.Username, Password: cfg.Password, MaxPrivilegeLevel: ipmi.PrivilegeLevelAdministrator},
			CipherSuites: []ipmi.CipherSuite{libSuite(stdSuites()[int(b.Seed%9+9)%9])}})
		if err != nil {
			run.Violation("C11:handshake-failed", err.Error(), cs, nil)
			return
		}
		conn = sess
		ops = []int{0, 1, 2, 3, 4, 5, 6}
	}
	dupAt := 2 + r.Intn(3)
	base := int(srv.Received.Load())
	srv.SetFault(func(n int, req, reply []byte) ([][]byte, time.Duration) {
		if n-base == dupAt {
			return [][]byte{reply, reply}, 0
		}
		return [][]byte{reply}, 0
	})
	run.Nontrivial(fmt.Sprintf("udp %v %d %d", b.InSession, dupAt, b.Seed))
	for k := 0; k < 8; k++ {
		op := c11Ops[ops[(k+int(b.Seed))%len(ops)]]
		if k > 0 {
			// consecutive commands differ
			op = c11Ops[ops[(k*3+int(b.Seed))%len(ops)]]
		}
		cmd := &RawCmd{Op: ipmi.Operation{Function: ipmi.NetworkFunction(op.NetFn), Command: ipmi.CommandNumber(op.Cmd)}, NoReq: true, Label: op.Name}
		before := bm.Len()
		cctx, ccancel := context.WithTimeout(ctx, 3*time.Second)
		code, err := conn.SendCommand(cctx, cmd)
		ccancel()
		run.Event("udp-commands", 1)
		var want []byte
		for _, e := range bm.Since(before) {
			if bdy, ok := sent[e.N]; ok {
				want = bdy
			}
		}
		if err == nil && (code != 0 || !bytes.Equal(cmd.Rsp.Data, want)) {
			// whose response was it?
			key := "C11:stray-accepted"
			for n, bdy := range sent {
				if bytes.Equal(bdy, cmd.Rsp.Data) {
					for _, e := range bm.Since(0) {
						if e.N == n && e.NetFn == op.NetFn && e.Cmd == op.Cmd {
							key = "C11:stale-same-command-reply-after-duplicate"
						}
					}
				}
			}
			run.Violation(key, fmt.Sprintf("udp history (duplicate after datagram %d, in-session %v): command %d (%s) returned code %v body %x, its own response was %x", dupAt, b.InSession, k, op.Name, code, cmd.Rsp.Data, want), cs, nil)
			if key == "C11:stray-accepted" {
				return
			}
		}
		if err != nil {
			run.Observe("udp-command-errors", 1)
		}
	}
}
