package checks

import (
	"bytes"
	"context"
	"fmt"
	"math/rand"
	"os"
	"time"

	"verifharness/ev"
	"verifharness/memtr"
	"verifharness/mon"
	"verifharness/refbmc"

	"github.com/cenkalti/backoff/v4"
	"github.com/gebn/bmc"
	"github.com/gebn/bmc/pkg/dcmi"
	"github.com/gebn/bmc/pkg/ipmi"
	"github.com/google/gopacket"
	"github.com/google/gopacket/layers"
)

type c05Batch struct {
	Ring  string // "struct" | "random" | "strings" | "packet" | "subst" | "pads"
	Layer string
	Flow  string
	Seed  int64
	Count int
}

// c05Input is the replay form of a ring-1 case.
type c05Input struct {
	Layer string
	Hex   string
	C     int // character count for string decoders
}

// c05Subst is the replay form of a ring-2 case.
type c05Subst struct {
	Flow string
	Seed int64
	Pos  int
	Item int
}

func init() {
	register(&Check{
		ID:    "C05",
		Level: "fault_enumeration",
		Rule: "ring 1: every layer decoder (and the registered gopacket decoders, and the ID-string decoders) is called on exact-capacity slices and on windows of a 512-byte buffer with two different tail poisons; " +
			"inputs are every truncation and every single-byte boundary-value mutation of valid encodings (with and without checksum fix-up), constant fills of every length 0..64, and PRNG strings up to 512 bytes. " +
			"ring 2: at every transmission of eight library call flows the reply is replaced by each item of a hostile corpus derived from the correct reply (all truncations, length-field edits, undersized 'successful' setup payloads, " +
			"7-byte and header-less response messages, and — using the session keys — authentic packets around hostile plaintexts and confidentiality pads). " +
			"A case is non-trivial when the decoder/flow actually ran on a distinct input class; distinct = distinct (layer|flow position, input class, length) signatures",
		Assumptions: []string{
			"a Go runtime panic (index/slice out of range, nil dereference) is the memory-safety oracle: the module has no unsafe or cgo",
			"over-reads inside the reused receive buffer are detected by exact-capacity delivery (panic) and by the poisoned-tail differential",
			"termination is judged by a 20 s watchdog per call on microsecond operations and a logical bound on transmissions per flow",
		},
		Gen:  c05Gen,
		Exec: c05Exec,
		Anchors: []string{"Message).DecodeFromBytes", "decodeDataHeader", "AES128CBC).DecodeFromBytes", "RAKPMessage2).DecodeFromBytes", "RAKPMessage4).DecodeFromBytes",
			"OpenSessionRsp).DecodeFromBytes", "FullSensorRecord).DecodeFromBytes", "parseCipherSuiteRecordData", "buildAndSendCommand", "buildAndSendPayload", "V2Session).buildAndSend"},
	})
}

var c05Flows = []string{"guid", "authcaps", "session", "discover", "sdr", "dcmi", "sensor", "suites"}

func c05Gen(tier string, seed int64) []ev.Case {
	var cs []ev.Case
	nRandom := 4000
	if tier == "thorough" {
		nRandom = 150000
	}
	for _, s := range specs() {
		cs = append(cs, ev.MkCase("batch", c05Batch{Ring: "struct", Layer: s.Name, Seed: seed}))
		for i := 0; i < nRandom; i += 4000 {
			cs = append(cs, ev.MkCase("batch", c05Batch{Ring: "random", Layer: s.Name, Seed: seed + int64(i), Count: 4000}))
		}
	}
	cs = append(cs, ev.MkCase("batch", c05Batch{Ring: "strings", Seed: seed, Count: 20}))
	cs = append(cs, ev.MkCase("batch", c05Batch{Ring: "pads", Seed: seed}))
	cs = append(cs, ev.MkCase("batch", c05Batch{Ring: "budget", Seed: seed}))
	nsr := 4000
	if tier == "thorough" {
		nsr = 1000000
	}
	for i := 0; i < nsr; i += 4000 {
		cs = append(cs, ev.MkCase("batch", c05Batch{Ring: "suiterecords", Seed: seed + int64(i), Count: 4000}))
	}
	for _, lt := range []string{"rmcp", "message", "sdr", "getsdr", "fsr", "v2", "v1"} {
		n := 3000
		if tier == "thorough" {
			n = 100000
		}
		for i := 0; i < n; i += 3000 {
			cs = append(cs, ev.MkCase("batch", c05Batch{Ring: "packet", Layer: lt, Seed: seed + int64(i), Count: 3000}))
		}
	}
	reps := 1
	if tier == "thorough" {
		reps = 12
	}
	for _, f := range c05Flows {
		for k := 0; k < reps; k++ {
			sd := seed + int64(k)*101
			n, _, _, _ := c05RunFlow(f, sd, 0, nil)
			first := 1
			if f == "sdr" || f == "dcmi" || f == "sensor" {
				first = 4 // the three handshake exchanges are covered by the "session" flow
			}
			cs = append(cs, ev.MkCase("batch", c05Batch{Ring: "subst", Flow: f, Seed: sd, Count: 0}))
			for pos := first; pos <= n; pos++ {
				cs = append(cs, ev.MkCase("batch", c05Batch{Ring: "subst", Flow: f, Seed: sd, Count: pos}))
			}
		}
	}
	return cs
}

// hangGuard makes a hanging call observable: if f does not return within d the
// run is finished with a violation for the current case.
func hangGuard(run *ev.Run, d time.Duration, cs func() ev.Case, what string, f func()) {
	t := time.AfterFunc(d, func() {
		run.Violation(run.ID+":hang:"+what, fmt.Sprintf("%s did not return within %v", what, d), cs(), nil)
		os.Exit(run.Finish())
	})
	f()
	t.Stop()
}

func c05Exec(run *ev.Run, c ev.Case) {
	if only := os.Getenv("VERIF_ONLY"); only != "" && c.Kind == "batch" {
		var b c05Batch
		c.Decode(&b)
		if b.Ring != only && b.Flow != only {
			return
		}
	}
	switch c.Kind {
	case "input":
		var in c05Input
		c.Decode(&in)
		b := unhex(in.Hex)
		if in.Layer == "string" {
			c05String(run, in.C, b)
			return
		}
		if sp := specByName(in.Layer); sp != nil {
			c05Decode(run, sp, b, "replay")
			return
		}
		c05Packet(run, in.Layer, b)
	case "subst":
		var s c05Subst
		c.Decode(&s)
		c05SubstOne(run, s)
	case "suitedata":
		var in c05Input
		c.Decode(&in)
		c05SuiteData(run, unhex(in.Hex), "replay")
	case "batch":
		var b c05Batch
		c.Decode(&b)
		switch b.Ring {
		case "budget":
			c05Budget(run, b.Seed, c)
		case "struct":
			c05Struct(run, specByName(b.Layer), b.Seed)
		case "random":
			c05Random(run, specByName(b.Layer), b.Seed, b.Count)
		case "strings":
			c05Strings(run, b.Seed)
		case "pads":
			c05Pads(run)
		case "suiterecords":
			c05SuiteRecords(run, b.Seed, b.Count)
		case "packet":
			c05PacketBatch(run, b.Layer, b.Seed, b.Count)
		case "subst":
			c05SubstFlow(run, b.Flow, b.Seed, b.Count)
		}
	}
}

func unhex(s string) []byte {
	b := make([]byte, len(s)/2)
	fmt.Sscanf(s, "%x", &b)
	return b
}

func exactCopy(b []byte) []byte {
	o := make([]byte, len(b))
	copy(o, b)
	return o[:len(o):len(o)]
}

func windowCopy(b []byte, poison func(i int) byte) []byte {
	buf := make([]byte, 512)
	n := copy(buf, b)
	for i := n; i < 512; i++ {
		buf[i] = poison(i)
	}
	return buf[:n]
}

// c05Decode runs one input through one layer three ways.
func c05Decode(run *ev.Run, sp *layerSpec, in []byte, class string) {
	run.Eval(1)
	if len(in) > 512 {
		in = in[:512]
	}
	cs := func() ev.Case { return ev.MkCase("input", c05Input{Layer: sp.Name, Hex: ev.Hex(in)}) }
	run.Nontrivial(fmt.Sprintf("%s|%s|%d", sp.Name, class, len(in)))
	run.Event("decoder-calls", 3)
	// (a) exact capacity: an over-read panics
	la := sp.New()
	var erra error
	var pv any
	var st string
	hangGuard(run, 20*time.Second, cs, sp.Name, func() {
		pv, st = safe(func() { erra = la.DecodeFromBytes(exactCopy(in), gopacket.NilDecodeFeedback) })
	})
	if pv != nil {
		run.Event("panics", 1)
		run.Violation("C05:panic:"+panicSite(st), fmt.Sprintf("%s.DecodeFromBytes panicked on %d bytes %x: %v\n%s", sp.Name, len(in), in, pv, trimStack(st)), cs(), nil)
		return
	}
	// (b), (c) windows into a 512-byte buffer with different tails
	l0, l1 := sp.New(), sp.New()
	var err0, err1 error
	var s0, s1 map[string]string
	pv, st = safe(func() {
		w := windowCopy(in, func(int) byte { return 0 })
		err0 = l0.DecodeFromBytes(w, gopacket.NilDecodeFeedback)
		s0 = mon.Fields(l0)
	})
	if pv == nil {
		pv, st = safe(func() {
			w := windowCopy(in, func(i int) byte { return byte(0xff - i%7) })
			err1 = l1.DecodeFromBytes(w, gopacket.NilDecodeFeedback)
			s1 = mon.Fields(l1)
		})
	}
	if pv != nil {
		run.Event("panics", 1)
		run.Violation("C05:panic:"+panicSite(st), fmt.Sprintf("%s.DecodeFromBytes panicked on a window of %d bytes %x: %v\n%s", sp.Name, len(in), in, pv, trimStack(st)), cs(), nil)
		return
	}
	if (err0 == nil) != (err1 == nil) || (erra == nil) != (err0 == nil) {
		run.Violation("C05:overread-dependence:"+sp.Name, fmt.Sprintf("%s: acceptance of %d bytes %x depends on memory beyond the datagram (exact err=%v, zero tail err=%v, poisoned tail err=%v)", sp.Name, len(in), in, erra, err0, err1), cs(), nil)
		return
	}
	if err0 == nil {
		run.Event("accepted-inputs", 1)
		if d := diffFields(s0, s1); len(d) > 0 {
			run.Violation("C05:overread-dependence:"+sp.Name, fmt.Sprintf("%s: decoded fields of %d bytes %x depend on memory beyond the datagram: %v", sp.Name, len(in), in, d), cs(), nil)
		}
	} else {
		run.Event("rejected-inputs", 1)
	}
}

func diffFields(a, b map[string]string) []string {
	var d []string
	for k, va := range a {
		if b[k] != va {
			d = append(d, fmt.Sprintf("%s: %s vs %s", k, va, b[k]))
		}
	}
	return d
}

func boundaryValues(n, p int) []byte {
	return []byte{0x00, 0x01, 0x02, 0x06, 0x07, 0x0f, 0x10, 0x1f, 0x3f, 0x40, 0x7f, 0x80, 0xc0, 0xff, byte(n - 1), byte(n), byte(n + 1), byte(n - p), byte(n - p - 1)}
}

func c05Struct(run *ev.Run, sp *layerSpec, seed int64) {
	r := rng(seed, "c05struct"+sp.Name)
	variants := func(b []byte) [][]byte {
		o := [][]byte{b}
		if sp.FixUp != nil {
			o = append(o, sp.FixUp(append([]byte(nil), b...)))
		}
		return o
	}
	for k := 0; k < 10; k++ {
		enc, _, branch := sp.Gen(r)
		if k == 0 {
			run.Sample("ring1:"+sp.Name, map[string]any{"layer": sp.Name, "valid_encoding": ev.Hex(enc), "branch": branch})
		}
		c05Decode(run, sp, enc, "valid-"+branch)
		for n := 0; n <= len(enc); n++ {
			for _, v := range variants(append([]byte(nil), enc[:n]...)) {
				c05Decode(run, sp, v, "trunc-"+branch)
			}
		}
		for p := 0; p < len(enc) && p < 64; p++ {
			for _, bv := range boundaryValues(len(enc), p) {
				m := append([]byte(nil), enc...)
				m[p] = bv
				for _, v := range variants(m) {
					c05Decode(run, sp, v, fmt.Sprintf("mut@%d-%s", p, branch))
				}
				// mutated and cut right after the mutated field's neighbourhood
				for _, cut := range []int{p + 1, p + 2, p + 3, len(enc) - 1} {
					if cut > 0 && cut <= len(m) {
						for _, v := range variants(append([]byte(nil), m[:cut]...)) {
							c05Decode(run, sp, v, fmt.Sprintf("mutcut@%d-%s", p, branch))
						}
					}
				}
			}
		}
		for x := 1; x <= 4; x++ {
			c05Decode(run, sp, append(append([]byte(nil), enc...), rbytes(r, x)...), "extended-"+branch)
		}
	}
	for n := 0; n <= 64; n++ {
		for _, fill := range []byte{0x00, 0xff, 0x06, 0x01} {
			for _, v := range variants(bytes.Repeat([]byte{fill}, n)) {
				c05Decode(run, sp, v, fmt.Sprintf("fill-%02x", fill))
			}
		}
		cnt := make([]byte, n)
		for i := range cnt {
			cnt[i] = byte(i + 1)
		}
		c05Decode(run, sp, cnt, "counting")
	}
}

func c05Random(run *ev.Run, sp *layerSpec, seed int64, count int) {
	r := rng(seed, "c05random"+sp.Name)
	for i := 0; i < count; i++ {
		var in []byte
		class := ""
		switch r.Intn(4) {
		case 0:
			n := r.Intn(64)
			if r.Intn(6) == 0 {
				n = r.Intn(513)
			}
			in = rbytes(r, n)
			class = "noise"
		case 1, 2:
			enc, _, br := sp.Gen(r)
			in = append([]byte(nil), enc...)
			for k := 1 + r.Intn(3); k > 0 && len(in) > 0; k-- {
				in[r.Intn(len(in))] = byte(r.Intn(256))
			}
			if r.Intn(2) == 0 && len(in) > 0 {
				in = in[:r.Intn(len(in)+1)]
			}
			class = "mutated-" + br
		default:
			enc, _, br := sp.Gen(r)
			cut := r.Intn(len(enc) + 1)
			in = append(append([]byte(nil), enc[:cut]...), rbytes(r, r.Intn(12))...)
			class = "spliced-" + br
		}
		if sp.FixUp != nil && r.Intn(2) == 0 {
			in = sp.FixUp(in)
			class += "-fixed"
		}
		c05Decode(run, sp, in, class)
	}
}

func c05String(run *ev.Run, c int, b []byte) {
	for enc := 0; enc < 4; enc++ {
		run.Eval(1)
		dec, err := ipmi.StringEncoding(enc).Decoder()
		if err != nil {
			continue
		}
		cs := ev.MkCase("input", c05Input{Layer: "string", Hex: ev.Hex(b), C: c})
		run.Nontrivial(fmt.Sprintf("string|%d|%d|%d", enc, c, len(b)))
		var s0, s1 string
		var n0, n1 int
		var e0, e1 error
		pv, st := safe(func() { dec.Decode(exactCopy(b), c) })
		if pv == nil {
			pv, st = safe(func() {
				s0, n0, e0 = dec.Decode(windowCopy(b, func(int) byte { return 0 }), c)
				s1, n1, e1 = dec.Decode(windowCopy(b, func(int) byte { return 0xee }), c)
			})
		}
		if pv != nil {
			run.Violation("C05:panic:"+panicSite(st), fmt.Sprintf("string decoder %d panicked for %d chars of %x: %v\n%s", enc, c, b, pv, trimStack(st)), cs, nil)
			continue
		}
		if (e0 == nil) != (e1 == nil) || s0 != s1 || n0 != n1 || (e0 == nil && n0 > len(b)) {
			run.Violation(fmt.Sprintf("C05:overread-dependence:string-%d", enc), fmt.Sprintf("string decoder %d: %d chars of %x gives %q/%d/%v vs %q/%d/%v", enc, c, b, s0, n0, e0, s1, n1, e1), cs, nil)
		}
	}
}

func c05Strings(run *ev.Run, seed int64) {
	r := rng(seed, "c05strings")
	for c := 0; c <= 31; c++ {
		for n := 0; n <= 34; n++ {
			c05String(run, c, rbytes(r, n))
		}
	}
}

// c05Pads: key-holder payloads for the AES layer — every pad count 0..255 in
// the final byte of 1..3 blocks, with pad bytes made consistent wherever they
// fall (including inside the IV).
func c05Pads(run *ev.Run) {
	sp := specByName("AES128CBC")
	blk := mustAES(aesSpecKey)
	for blocks := 1; blocks <= 3; blocks++ {
		for p := 0; p < 256; p++ {
			for variant := 0; variant < 2; variant++ {
				total := 16 + blocks*16
				img := make([]byte, total) // IV || plaintext as the decoder sees it after decryption
				for i := range img {
					img[i] = byte(0xa0 + i%16)
				}
				img[total-1] = byte(p)
				if variant == 0 {
					start := total - 1 - p
					for i := 0; i < p; i++ {
						if idx := start + i; idx >= 0 && idx < total-1 {
							img[idx] = byte(i + 1)
						}
					}
				}
				iv := img[:16]
				ct := make([]byte, blocks*16)
				newCBCEnc(blk, iv).CryptBlocks(ct, img[16:])
				in := append(append([]byte(nil), iv...), ct...)
				c05Decode(run, sp, in, fmt.Sprintf("pad-%d-blocks-%d-v%d", p, blocks, variant))
			}
		}
	}
}

var packetTypes = map[string]func() gopacket.LayerType{
	"rmcp":    func() gopacket.LayerType { return layers.LayerTypeRMCP },
	"message": func() gopacket.LayerType { return ipmi.LayerTypeMessage },
	"sdr":     func() gopacket.LayerType { return ipmi.LayerTypeSDR },
	"getsdr":  func() gopacket.LayerType { return ipmi.LayerTypeGetSDRRsp },
	"fsr":     func() gopacket.LayerType { return ipmi.LayerTypeFullSensorRecord },
	"v2":      func() gopacket.LayerType { return ipmi.LayerTypeV2Session },
	"v1":      func() gopacket.LayerType { return ipmi.LayerTypeV1Session },
}

func c05Packet(run *ev.Run, lt string, in []byte) {
	run.Eval(1)
	f := packetTypes[lt]
	if f == nil {
		return
	}
	cs := func() ev.Case { return ev.MkCase("input", c05Input{Layer: lt, Hex: ev.Hex(in)}) }
	run.Event("packet-decodes", 1)
	var pv any
	var st string
	hangGuard(run, 20*time.Second, cs, "NewPacket "+lt, func() {
		pv, st = safe(func() {
			p := gopacket.NewPacket(exactCopy(in), f(), gopacket.DecodeOptions{SkipDecodeRecovery: true, NoCopy: true})
			_ = p.Layers()
		})
	})
	if pv != nil {
		run.Violation("C05:panic:"+panicSite(st), fmt.Sprintf("gopacket.NewPacket(%s) panicked on %d bytes %x: %v\n%s", lt, len(in), in, pv, trimStack(st)), cs(), nil)
	}
}

// validDatagram builds a random valid response datagram for the registered
// decoder chains.
func validDatagram(r *rand.Rand, lt string) []byte {
	all := specs()
	pick := func(name string) []byte { e, _, _ := specByName(name).Gen(r); return e }
	switch lt {
	case "rmcp", "v2", "message":
		// response message of a known operation so that the chain continues into the body
		ops := []struct {
			netfn, cmd byte
			body       string
		}{{7, 0x01, "GetDeviceIDRsp"}, {1, 0x01, "GetChassisStatusRsp"}, {7, 0x37, "GetSystemGUIDRsp"}, {7, 0x38, "GetChannelAuthenticationCapabilitiesRsp"},
			{7, 0x3b, "SetSessionPrivilegeLevelRsp"}, {0x0b, 0x20, "GetSDRRepositoryInfoRsp"}, {0x0b, 0x22, "ReserveSDRRepositoryRsp"}, {0x0b, 0x23, "GetSDRRsp"},
			{5, 0x2d, "GetSensorReadingRsp"}, {7, 0x3d, "GetSessionInfoRsp"}, {7, 0x54, "GetChannelCipherSuitesRsp"}}
		op := ops[r.Intn(len(ops))]
		body := pick(op.body)
		if op.body == "GetSDRRsp" {
			fsr, _, _ := genFSR(r, 0, -1)
			hdr := []byte{byte(r.Intn(256)), byte(r.Intn(256)), 0x51, 0x01, byte(len(fsr))}
			body = append([]byte{byte(r.Intn(256)), byte(r.Intn(256))}, append(hdr, fsr...)...)
		}
		cc := byte(0)
		if r.Intn(5) == 0 {
			cc = byte(r.Intn(256))
		}
		msg := refbmc.BuildRsp(0x81, op.netfn, 0, 0x20, byte(r.Intn(64)), 0, op.cmd, cc, body)
		if lt == "message" {
			return msg
		}
		var s []byte
		switch r.Intn(4) {
		case 0:
			pt := []byte{0x11, 0x13, 0x15}[r.Intn(3)]
			s = refbmc.SessHdr(pt, 0, 0, pick(map[byte]string{0x11: "OpenSessionRsp", 0x13: "RAKPMessage2", 0x15: "RAKPMessage4"}[pt]))
		default:
			s = refbmc.SessHdr(0, r.Uint32(), r.Uint32(), msg)
		}
		if lt == "v2" {
			return s
		}
		if r.Intn(6) == 0 {
			return refbmc.RMCP(pick("V1Session"))
		}
		return refbmc.RMCP(s)
	case "sdr":
		fsr, _, _ := genFSR(r, 0, -1)
		return append([]byte{byte(r.Intn(256)), byte(r.Intn(256)), 0x51, byte(r.Intn(3)), byte(len(fsr))}, fsr...)
	case "getsdr":
		fsr, _, _ := genFSR(r, 0, -1)
		return append([]byte{1, 0, byte(r.Intn(256)), byte(r.Intn(256)), 0x51, 0x01, byte(len(fsr))}, fsr...)
	case "fsr":
		fsr, _, _ := genFSR(r, 0, -1)
		return fsr
	case "v1":
		return pick("V1Session")
	}
	_ = all
	return nil
}

func c05PacketBatch(run *ev.Run, lt string, seed int64, count int) {
	r := rng(seed, "c05packet"+lt)
	for i := 0; i < count; i++ {
		d := validDatagram(r, lt)
		class := "valid"
		switch r.Intn(5) {
		case 0:
		case 1:
			d = d[:r.Intn(len(d)+1)]
			class = "trunc"
		case 2, 3:
			for k := 1 + r.Intn(3); k > 0 && len(d) > 0; k-- {
				p := r.Intn(len(d))
				bv := boundaryValues(len(d), p)
				d[p] = bv[r.Intn(len(bv))]
			}
			class = "mut"
			if r.Intn(2) == 0 {
				// repair the message checksums so the chain continues past the message layer
				off := map[string]int{"rmcp": 16, "v2": 12, "message": 0}
				if o, ok := off[lt]; ok && len(d) >= o+7 {
					fixMsgChecksums(d[o:])
					class = "mut-fixed"
				}
			}
			if r.Intn(3) == 0 && len(d) > 0 {
				d = d[:r.Intn(len(d)+1)]
				class += "-trunc"
			}
		default:
			d = rbytes(r, r.Intn(80))
			class = "noise"
		}
		run.Nontrivial(fmt.Sprintf("packet|%s|%s|%d", lt, class, len(d)))
		c05Packet(run, lt, d)
	}
}

// ---------------------------------------------------------------- ring 2

type c05FlowEnv struct {
	e      *Env
	repo   *refbmc.Repo
	finish func()
}

// c05RunFlow performs the library calls of one flow; sub, if non-nil, may
// replace the reply of the pos-th transmission.
func c05RunFlow(flow string, seed int64, pos int, sub func(req, reply []byte, e *Env) []byte) (sends int, pv any, stack string, err error) {
	r := rng(seed, "c05flow"+flow)
	cfg := defaultCfg(r)
	cfg.Suites = stdSuites()
	su := stdSuites()[r.Intn(9)]
	e := NewEnv(cfg, memtr.Exact)
	fsr1, _, _ := genFSR(r, 3, 6)
	fsr2, _, _ := genFSR(r, 2, 5)
	fsr1[18], fsr2[18] = 0, 0 // linear
	fsr1[15] &= 0x3f
	repo := refbmc.NewRepo([]refbmc.SDRRecord{{ID: 1, Type: 1, Body: fsr1}, {ID: 0x30, Type: 2, Body: rbytes(r, 20)}, {ID: 0x31, Type: 1, Body: fsr2}}, 5000)
	cs := &refbmc.CipherSuiteServer{Channel: 1, Data: refbmc.EncodeSuiteRecords([]refbmc.SuiteRecord{
		{ID: 3, Auth: 1, Integs: []byte{1}, Confs: []byte{1}}, {ID: 17, Auth: 3, Integs: []byte{4}, Confs: []byte{1}},
		{ID: 0x80, OEM: true, IANA: 0x1234, Auth: 2, Integs: []byte{2, 3}, Confs: []byte{1, 2}}, {ID: 8, Auth: 2, Integs: []byte{2}, Confs: []byte{1}}})}
	sd := &refbmc.SensorDevice{}
	sd.Set(fsr1[1]&3, fsr1[2], []byte{0x55, 0x40, 0x00})
	// the BMC reports two more instances per entity than it returns record IDs for (pages past
	// the real ones come back empty): the enumeration has to stop by itself
	dc := &refbmc.DCMISensorInfo{PageSize: 3, Overclaim: 2, IDs: map[[2]byte][]uint16{{1, 0x40}: {1, 2, 3, 4}, {1, 0x41}: {9}, {1, 0x42}: {}}}
	e.BMC.Handler = refbmc.Chain(repo.Handle, cs.Handle, sd.Handle, dc.Handle,
		refbmc.Fixed(6, 0x37, 0, rbytes(r, 16)), refbmc.Fixed(6, 0x38, 0, []byte{1, 0x80, 0x04, 0x02, 0, 0, 0, 0}),
		refbmc.Fixed(6, 0x01, 0, []byte{0x20, 0x81, 0x03, 0x15, 0x02, 0xbf, 0x57, 0x01, 0x00, 0x34, 0x12, 1, 2, 3, 4}), refbmc.Fixed(6, 0x3c, 0, nil))
	var cancelFlow func()
	if sub != nil {
		e.Filter = func(n int, req, reply []byte) ([]byte, error) {
			if n == pos {
				if flow == "sdr" {
					// the SDR retrieval sleeps on its own 500 ms back-off after an
					// error; everything that happens without sleeping is over within
					// milliseconds, so end the call shortly after the substitution
					time.AfterFunc(40*time.Millisecond, func() { cancelFlow() })
				}
				return sub(req, reply, e), nil
			}
			return reply, nil
		}
	}
	ctx, cancel := e.LimitCtx(60)
	defer cancel()
	cancelFlow = cancel
	pv, stack = safe(func() {
		switch flow {
		case "guid":
			_, err = e.ST.GetSystemGUID(ctx)
		case "authcaps":
			_, err = e.ST.GetChannelAuthenticationCapabilities(ctx, &ipmi.GetChannelAuthenticationCapabilitiesReq{ExtendedData: true, Channel: ipmi.ChannelPresentInterface, MaxPrivilegeLevel: ipmi.PrivilegeLevelAdministrator})
		case "suites":
			_, err = bmc.RetrieveSupportedCipherSuites(ctx, e.ST)
		case "discover":
			var s *bmc.V2Session
			s, err = e.ST.NewV2Session(ctx, &bmc.V2SessionOpts{SessionOpts: bmc.SessionOpts{Username: cfg.Username, Password: cfg.Password, MaxPrivilegeLevel: ipmi.PrivilegeLevelOperator}})
			if err == nil {
				err = s.Close(ctx)
			}
		default:
			var s *bmc.V2Session
			s, err = e.OpenSession(ctx, su)
			if err != nil {
				return
			}
			switch flow {
			case "session":
				if _, err = s.GetDeviceID(ctx); err == nil {
					err = s.Close(ctx)
				}
			case "sdr":
				_, err = bmc.RetrieveSDRRepository(ctx, s)
			case "dcmi":
				_, err = dcmi.GetSensorInfo(ctx, s)
			case "sensor":
				var rd bmc.SensorReader
				var fr ipmi.FullSensorRecord
				if err = fr.DecodeFromBytes(fsr1, gopacket.NilDecodeFeedback); err != nil {
					return
				}
				if rd, err = bmc.NewSensorReader(&fr); err == nil {
					_, err = rd.Read(ctx, s)
				}
			}
		}
	})
	return e.T.Transmissions(), pv, stack, err
}

// c05Corpus builds the hostile replacements for one correct reply.
func c05Corpus(req, reply []byte, e *Env) (items [][]byte, classes []string) {
	add := func(class string, b []byte) {
		items = append(items, b)
		classes = append(classes, class)
	}
	R := reply
	if R == nil {
		R = refbmc.RMCP(refbmc.SessHdr(0, 0, 0, nil))
	}
	for n := 0; n < len(R); n++ {
		add("trunc", append([]byte(nil), R[:n]...))
	}
	if len(R) >= 16 {
		for _, d := range []int{1, 3, 255, 0xffff, -1, 0} {
			m := append([]byte(nil), R...)
			l := int(m[14]) | int(m[15])<<8
			switch {
			case d == 0xffff:
				l = 0xffff
			case d == 0:
				l = 0
			default:
				l += d
			}
			m[14], m[15] = byte(l), byte(l>>8)
			add("length-field", m)
		}
	}
	add("empty", []byte{})
	add("noise-512", bytes.Repeat([]byte{0xa7}, 512))
	add("ff-512", bytes.Repeat([]byte{0xff}, 512))
	for _, n := range []int{254, 255, 256, 257, 300, 480} {
		for _, flags := range []byte{0x40, 0xc0, 0x00} {
			// a session header followed by nothing but the integrity pad value
			hdr := []byte{6, 0, 0xff, 7, 6, flags, 0, 0, 0, 0, 1, 0, 0, 0, 0, 0}
			if len(R) >= 16 {
				copy(hdr[6:14], R[6:14])
			}
			add(fmt.Sprintf("ff-run-%d-%#x", n, flags), append(hdr, bytes.Repeat([]byte{0xff}, n)...))
			h2 := append([]byte(nil), hdr...)
			h2[14] = 16
			add(fmt.Sprintf("ff-run-after-payload-%d-%#x", n, flags), append(append(h2, bytes.Repeat([]byte{0x11}, 16)...), bytes.Repeat([]byte{0xff}, n)...))
		}
	}
	if len(R) >= 16 {
		// the correct reply claiming to be authenticated (and encrypted), with a syntactically complete
		// trailer behind the payload: integrity pad, pad length, next header and an AuthCode of every
		// length an algorithm uses (or none) - whatever the connection has negotiated, or nothing yet
		for _, fl := range []byte{0x40, 0xc0} {
			for _, al := range []int{0, 1, 12, 16, 20} {
				for _, wrongPad := range []bool{false, true} {
					m := append([]byte(nil), R...)
					m[5] |= fl
					pad := (4 - (len(m)-4+2)%4) % 4
					if wrongPad {
						pad = (pad + 1) % 4
					}
					m = append(m, bytes.Repeat([]byte{0xff}, pad)...)
					m = append(m, byte(pad), 0x07)
					m = append(m, bytes.Repeat([]byte{0x5a}, al)...)
					add(fmt.Sprintf("auth-flag-with-trailer-%#x-%d-%v", fl, al, wrongPad), m)
				}
			}
		}
	}
	add("asf-pong", []byte{6, 0, 0xff, 6, 0, 0, 0x11, 0xbe, 0x40, 0, 0, 0x10})
	add("v15-wrapper", refbmc.RMCP(append([]byte{0, 1, 0, 0, 0, 0, 0, 0, 0, 8}, refbmc.BuildRsp(0x81, 7, 0, 0x20, 1, 0, 0x38, 0, nil)...)))
	add("v15-authcode-short", refbmc.RMCP([]byte{2, 1, 0, 0, 0, 0, 0, 0, 0, 1, 2, 3}))
	// request parameters to echo
	var rqNetFn, rqCmd, rqSeq byte = 6, 0x38, 1
	if ev := lastEvent(e.BMC); ev != nil && ev.Plain != nil && len(ev.Plain) >= 6 {
		rqNetFn, rqCmd, rqSeq = ev.NetFn, ev.Cmd, ev.RqSeq
	}
	hostileMsgs := func() (out [][]byte, cl []string) {
		for n := 0; n <= 12; n++ {
			m := make([]byte, n)
			for i := range m {
				m[i] = byte(0x10 + i)
			}
			if n > 0 {
				m[0] = 0x81
			}
			if n > 1 {
				m[1] = (rqNetFn + 1) << 2
			}
			if n > 3 {
				m[3] = 0x20
			}
			if n > 4 {
				m[4] = rqSeq << 2
			}
			if n > 5 {
				m[5] = rqCmd
			}
			if n > 6 {
				m[6] = 0
			}
			out, cl = append(out, fixMsgChecksums(m)), append(cl, fmt.Sprintf("msg-len-%d", n))
		}
		for _, nf := range []byte{0x2d, 0x2f, 0x2c, 0x2e} {
			for extra := 0; extra <= 3; extra++ {
				m := []byte{0x81, nf << 2, 0, 0x20, rqSeq << 2, rqCmd}
				if nf&1 == 1 {
					m = append(m, 0)
				}
				m = append(m, bytes.Repeat([]byte{0xdc}, extra)...)
				m = append(m, 0)
				out, cl = append(out, fixMsgChecksums(m)), append(cl, fmt.Sprintf("special-netfn-%#x-extra-%d", nf, extra))
			}
		}
		// right command, body of every short length
		for n := 0; n <= 20; n++ {
			out, cl = append(out, refbmc.BuildRsp(0x81, rqNetFn+1, 0, 0x20, rqSeq, 0, rqCmd, 0, bytes.Repeat([]byte{0xff}, n))), append(cl, fmt.Sprintf("ok-body-len-%d", n))
		}
		// right command, every completion code
		for code := 1; code < 256; code++ {
			out, cl = append(out, refbmc.BuildRsp(0x81, rqNetFn+1, 0, 0x20, rqSeq, 0, rqCmd, byte(code), nil)), append(cl, fmt.Sprintf("code-%#02x", code))
		}
		return
	}
	se := e.BMC.Sess
	inSession := len(req) >= 10 && (req[6] != 0 || req[7] != 0 || req[8] != 0 || req[9] != 0) && se != nil && se.Active
	ptype := byte(0)
	if len(req) > 5 {
		ptype = req[5] & 0x3f
	}
	switch {
	case inSession:
		// authentic replies whose BMC-side session sequence number sits at the boundaries of 32-bit
		// window arithmetic relative to the reply accepted just before (base-1): half the number space
		// away, wrapped, zero, repeated, one behind
		base := se.OutSeq
		okMsg := refbmc.BuildRsp(0x81, rqNetFn+1, 0, 0x20, rqSeq, 0, rqCmd, 0, nil)
		for _, sq := range []uint32{base - 1 + 0x80000000, base + 0x80000000, base - 2 + 0x80000000, 0x80000000, 0x7fffffff, 0xffffffff, 0, 1, base - 1, base - 2, base + 0x7fffffff, base + 15, base + 16, base + 17, base + 32, base + 33} {
			sq := sq
			add(fmt.Sprintf("authentic-bmc-sequence-%#x-rel-%#x", sq, sq-(base-1)), se.Wrap(okMsg, refbmc.WrapOpts{Seq: &sq}))
		}
		msgs, cl := hostileMsgs()
		for i, m := range msgs {
			add("authentic-"+cl[i], se.Wrap(m, refbmc.WrapOpts{}))
		}
		for _, p := range []int{0, 1, 15, 16, 17, 31, 32, 33, 47, 48, 255} {
			for blocks := 1; blocks <= 3; blocks++ {
				pt := make([]byte, blocks*16)
				for i := range pt {
					pt[i] = byte(i + 1)
				}
				pt[len(pt)-1] = byte(p)
				start := len(pt) - 1 - p
				for i := 0; i < p; i++ {
					if idx := start + i; idx >= 0 && idx < len(pt)-1 {
						pt[idx] = byte(i + 1)
					}
				}
				iv := make([]byte, 16)
				for i := 0; i < 16; i++ {
					// make the pad consistent inside the IV too
					if v := i + 16 - start; start < 0 && v >= 1 && v <= p {
						iv[i] = byte(v)
					} else {
						iv[i] = byte(0x30 + i)
					}
				}
				add(fmt.Sprintf("authentic-pad-%d-blocks-%d", p, blocks), se.Wrap(nil, refbmc.WrapOpts{RawPlain: pt, IV: iv}))
			}
		}
		add("authentic-empty-payload", se.Wrap(nil, refbmc.WrapOpts{NoEncrypt: true}))
		add("authentic-enc-flag-16-bytes", se.Wrap(bytes.Repeat([]byte{1}, 16), refbmc.WrapOpts{NoEncrypt: true, EncFlagOnly: true}))
	case ptype == 0x10 || ptype == 0x12 || ptype == 0x14:
		tag := byte(0)
		if len(req) > 16 {
			tag = req[16]
		}
		for n := 0; n <= 48; n++ {
			body := make([]byte, n)
			if n > 0 {
				body[0] = tag
			}
			add(fmt.Sprintf("setup-ok-len-%d", n), refbmc.RMCP(refbmc.SessHdr(ptype+1, 0, 0, body)))
			if n > 1 {
				b2 := append([]byte(nil), body...)
				b2[1] = 0x12
				add(fmt.Sprintf("setup-err-len-%d", n), refbmc.RMCP(refbmc.SessHdr(ptype+1, 0, 0, b2)))
			}
		}
		// the right payload with algorithm payload bytes damaged
		if ptype == 0x10 && len(R) >= 52 {
			for off := 28; off < 52; off++ {
				for _, v := range []byte{0, 1, 2, 8, 0x3f, 0xff} {
					m := append([]byte(nil), R...)
					m[off] = v
					add("open-alg-byte", m)
				}
			}
		}
		for _, pt := range []byte{0x11, 0x13, 0x15, 0x10, 0x12, 0x14, 0x20, 0x02} {
			add(fmt.Sprintf("other-payload-type-%#x", pt), refbmc.RMCP(refbmc.SessHdr(pt, 0, 0, make([]byte, 8))))
		}
		add("oem-payload-short", refbmc.RMCP([]byte{6, 2, 0, 0, 0, 0, 0, 0, 0, 0, 0, 0, 0, 0}))
	default:
		msgs, cl := hostileMsgs()
		for i, m := range msgs {
			add(cl[i], refbmc.RMCP(refbmc.SessHdr(0, 0, 0, m)))
		}
		add("authenticated-flag-no-trailer", refbmc.RMCP(refbmc.SessHdr(0x40, 0, 0, refbmc.BuildRsp(0x81, rqNetFn+1, 0, 0x20, rqSeq, 0, rqCmd, 0, nil))))
		add("encrypted-flag", refbmc.RMCP(refbmc.SessHdr(0x80, 0, 0, refbmc.BuildRsp(0x81, rqNetFn+1, 0, 0x20, rqSeq, 0, rqCmd, 0, nil))))
	}
	return
}

func lastEvent(b *refbmc.BMC) *refbmc.Event { return b.Last() }

func c05SubstFlow(run *ev.Run, flow string, seed int64, only int) {
	if only == 0 {
		run.Eval(1)
		n, pv, st, err := c05RunFlow(flow, seed, 0, nil)
		if pv != nil || err != nil {
			run.Violation("C05:flow-baseline:"+flow, fmt.Sprintf("fault-free flow %s failed: panic=%v err=%v\n%s", flow, pv, err, trimStack(st)), ev.MkCase("subst", c05Subst{Flow: flow, Seed: seed}), nil)
			return
		}
		run.Sample("ring2:"+flow, map[string]any{"flow": flow, "transmissions_fault_free": n})
		return
	}
	for pos := only; pos <= only; pos++ {
		// learn the corpus size for this position
		size := 0
		c05RunFlow(flow, seed, pos, func(req, reply []byte, e *Env) []byte {
			items, _ := c05Corpus(req, reply, e)
			size = len(items)
			return reply
		})
		for item := 0; item < size; item++ {
			c05SubstOne(run, c05Subst{Flow: flow, Seed: seed, Pos: pos, Item: item})
		}
	}
}

func c05SubstOne(run *ev.Run, s c05Subst) {
	run.Eval(1)
	cs := ev.MkCase("subst", s)
	class := ""
	var hostile []byte
	var sends int
	var pv any
	var st string
	var err error
	hangGuard(run, 60*time.Second, func() ev.Case { return cs }, "flow "+s.Flow, func() {
		sends, pv, st, err = c05RunFlow(s.Flow, s.Seed, s.Pos, func(req, reply []byte, e *Env) []byte {
			items, classes := c05Corpus(req, reply, e)
			if s.Item >= len(items) {
				return reply
			}
			class = classes[s.Item]
			hostile = items[s.Item]
			return hostile
		})
	})
	run.Event("flows-run", 1)
	run.Event("transmissions", sends)
	run.Nontrivial(fmt.Sprintf("subst|%s|%d|%s|%d", s.Flow, s.Pos, class, len(hostile)))
	if pv != nil {
		run.Event("panics", 1)
		run.Violation("C05:panic:"+panicSite(st), fmt.Sprintf("flow %s panicked when reply %d was replaced by [%s] %x: %v\n%s", s.Flow, s.Pos, class, hostile, pv, trimStack(st)), cs, nil)
		return
	}
	if sends >= 60 && err == nil {
		run.Violation("C05:unbounded:"+s.Flow, fmt.Sprintf("flow %s kept transmitting (%d sends) after one substituted reply [%s]", s.Flow, sends, class), cs, nil)
	}
	_ = context.Canceled
}

// c05SuiteData serves raw cipher suite record data through the real retrieval
// (the record parser is unexported) and requires termination without a panic.
func c05SuiteData(run *ev.Run, data []byte, class string) {
	run.Eval(1)
	cs := ev.MkCase("suitedata", c05Input{Layer: "suitedata", Hex: ev.Hex(data)})
	cfg := defaultCfg(rng(int64(len(data)), "c05suite"))
	e := NewEnv(cfg, memtr.Exact)
	e.BMC.KeepLog = false
	server := &refbmc.CipherSuiteServer{Channel: 1, Data: data}
	e.BMC.Handler = server.Handle
	ctx, cancel := e.LimitCtx(200)
	defer cancel()
	var pv any
	var st string
	hangGuard(run, 30*time.Second, func() ev.Case { return cs }, "RetrieveSupportedCipherSuites", func() {
		pv, st = safe(func() { bmc.RetrieveSupportedCipherSuites(ctx, e.ST) })
	})
	run.Nontrivial(fmt.Sprintf("suitedata|%s|%d", class, len(data)%48))
	if pv != nil {
		run.Event("panics", 1)
		run.Violation("C05:panic:"+panicSite(st), fmt.Sprintf("RetrieveSupportedCipherSuites panicked on record data %x: %v\n%s", data, pv, trimStack(st)), cs, nil)
	}
	if len(server.Requests) > 66 {
		run.Violation("C05:unbounded:suites", fmt.Sprintf("%d Get Channel Cipher Suites requests for %d bytes of record data", len(server.Requests), len(data)), cs, nil)
	}
}

func c05SuiteRecords(run *ev.Run, seed int64, count int) {
	r := rng(seed, "c05suiterecords")
	for i := 0; i < count; i++ {
		var data []byte
		class := "noise"
		switch r.Intn(4) {
		case 0:
			data = rbytes(r, r.Intn(40))
			for k := range data {
				// bias towards the tag values the grammar distinguishes
				if r.Intn(3) == 0 {
					data[k] = []byte{0xc0, 0xc1, 0x01, 0x41, 0x81, 0x00, 0xff, 0xc2}[r.Intn(8)]
				}
			}
		default:
			recs := c16RandRecords(r, 1+r.Intn(6))
			data = refbmc.EncodeSuiteRecords(recs)
			class = "records"
			if r.Intn(2) == 0 && len(data) > 0 {
				data = data[:r.Intn(len(data)+1)]
				class = "cut"
			}
			if r.Intn(3) == 0 && len(data) > 0 {
				data[r.Intn(len(data))] = []byte{0xc0, 0xc1, 0x01, 0x41, 0x81, 0x00, 0xff}[r.Intn(7)]
				class += "-mut"
			}
		}
		c05SuiteData(run, data, class)
	}
	// endless full chunks
	if seed%7 == 0 || count > 0 {
		cfg := defaultCfg(r)
		e := NewEnv(cfg, memtr.Exact)
		n := 0
		e.BMC.Handler = func(evn *refbmc.Event) (byte, []byte, bool) {
			n++
			return 0, append([]byte{1}, 0xc0, 0x01, 0x01, 0x41, 0x81, 0xc0, 0x02, 0x02, 0x42, 0x81, 0xc0, 0x03, 0x03, 0x44, 0x81, 0x82), true
		}
		ctx, cancel := e.LimitCtx(300)
		cs := ev.MkCase("batch", c05Batch{Ring: "suiterecords", Seed: seed, Count: 0})
		hangGuard(run, 30*time.Second, func() ev.Case { return cs }, "RetrieveSupportedCipherSuites(endless)", func() {
			safe(func() { bmc.RetrieveSupportedCipherSuites(ctx, e.ST) })
		})
		cancel()
		run.Eval(1)
		if n > 66 {
			run.Violation("C05:unbounded:suites", fmt.Sprintf("a BMC answering every list index with a full chunk was asked %d times", n), cs, nil)
		}
	}
}

// c05Budget: the retry loops are bounded by the back-off policy as well as by the
// context. With a policy that allows four retries, a BMC that answers every
// attempt with a temporary code (or garbage, or a stray) and a caller context
// without a deadline, a call must end after at most five transmissions.
func c05Budget(run *ev.Run, seed int64, cs ev.Case) {
	for mi, mode := range []string{"sl", "in", "hs"} {
		for oi, outcome := range []string{"busy", "tmo", "garbage:noise", "stray:othercmd", "garbage:reflect", "busy-tmo-alternating"} {
			run.Eval(1)
			r := rng(seed+int64(mi*10+oi), "c05budget")
			cfg := defaultCfg(r)
			se := NewScriptEnv(cfg, memtr.Exact)
			se.ST = bmc.VerifNewV2SessionlessTransport(se.T, 5*time.Second, backoff.WithMaxRetries(&backoff.ZeroBackOff{}, 4))
			var conn bmc.Connection = se.ST
			ctx, cancel := context.WithCancel(context.Background())
			stop := time.AfterFunc(30*time.Second, cancel) // watchdog only: the verdict is the transmission count
			desc := fmt.Sprintf("mode %s, every attempt answered with %s, back-off policy allowing 4 retries, context without deadline", mode, outcome)
			if mode == "in" {
				// the session is opened through a connection with an ordinary policy
				s, err := se.OpenSession(ctx, stdSuites()[int(seed+int64(oi))%9])
				if err != nil {
					run.Violation("C05:flow-baseline:budget", desc+": "+err.Error(), cs, nil)
					stop.Stop()
					cancel()
					continue
				}
				conn = s
			}
			script := make([]string, 400)
			for i := range script {
				script[i] = outcome
				if outcome == "busy-tmo-alternating" {
					script[i] = []string{"busy", "tmo"}[i%2]
				}
			}
			before := se.T.Transmissions()
			var err error
			var pv any
			var st string
			if mode == "hs" {
				se.Filter2 = func(req, reply []byte) []byte { return []byte{6, 0, 0xff, 7, 6, 0x55, 1} }
				pv, st = safe(func() { _, err = se.OpenSession(ctx, stdSuites()[oi%9]) })
				se.Filter2 = nil
			} else {
				cmd, okBody, _, _, _ := c10Cmd([]string{"sl-guid", "devid"}[mi%2])
				se.st = &scriptState{script: script, okBody: okBody}
				pv, st = safe(func() { _, err = conn.SendCommand(ctx, cmd) })
				se.st = nil
			}
			stop.Stop()
			cancel()
			n := se.T.Transmissions() - before
			run.Event("transmissions", n)
			run.Nontrivial("budget|" + mode + "|" + outcome)
			if pv != nil {
				run.Violation("C05:panic:"+panicSite(st), fmt.Sprintf("%s: %v", desc, pv), cs, nil)
				continue
			}
			if n > 5 || err == nil {
				run.Violation("C05:unbounded:retry-budget", fmt.Sprintf("%s: %d transmissions (err=%v); the policy allows the first attempt and four retries", desc, n, err), cs, nil)
			}
		}
	}
}
