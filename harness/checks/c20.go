package checks

import (
	"fmt"
	"runtime/debug"
	"strings"
	"sync"
	"time"

	"verifharness/ev"
	"verifharness/refbmc"
	"verifharness/refcodec"

	"github.com/gebn/bmc/pkg/dcmi"
	"github.com/gebn/bmc/pkg/ipmi"
	"github.com/google/gopacket"
)

func init() {
	register(&Check{
		ID:    "C20",
		Level: "exploration",
		Rule: "each primitive conversion is reached through the exported API and compared with its arithmetic definition over its whole finite domain " +
			"(256 bytes, 1024 ten-bit and 16 four-bit values, every nibble/6-bit code/byte at every position of strings of 0..31 characters, every whole-second duration 0..64 days, 128 instances, 65536 message headers); " +
			"every input is non-trivial; distinct = distinct (domain, input) for the small domains and distinct (domain, output byte) for the 5.5M durations",
		Assumptions: []string{
			"BCD is only defined for nibbles 0..9; bytes with a nibble above 9 are only required not to panic",
			"period encoder definition: largest unit not exceeding d, floor, saturating at 63 days (as the library documents)",
		},
		Exhaustive: func(string) bool { return true },
		Gen: func(tier string, seed int64) []ev.Case {
			var cs []ev.Case
			for _, k := range []string{"bcd", "analog", "tenbit", "fourbit", "checksum-ser", "checksum-dec", "bcdplus", "sixbit", "latin1", "period-dec", "instance"} {
				cs = append(cs, ev.MkCase(k, map[string]int{}))
			}
			// the conversions are plain functions of their input, shared by every connection of a
			// process: the same definitions must hold when many goroutines convert at once
			cs = append(cs, ev.MkCase("concurrent", map[string]int{"goroutines": 16, "rounds": 3000, "seed": int(seed)}))
			// durations split into 64 day-sized chunks (+1 for the saturating tail)
			for d := 0; d <= 65; d++ {
				cs = append(cs, ev.MkCase("period-enc", map[string]int{"day": d}))
			}
			return cs
		},
		Exec:    c20Exec,
		Anchors: []string{"bcd.Decode", "complement.Ones", "complement.Twos", "checksum", "decodeBCDPlus", "decodePacked6BitAscii", "decode8BitAsciiLatin1", "rollingAvgPeriodDuration", "rollingAvgPeriodByte"},
	})
}

func fsrTemplate() []byte {
	b := make([]byte, 45)
	b[0] = 0x20
	b[42] = 0xc2 // 8-bit, 2 chars
	b[43], b[44] = 'A', 'B'
	return b
}

func twos(v, bits int) int {
	if v&(1<<(bits-1)) != 0 {
		return v - (1 << bits)
	}
	return v
}

func c20Exec(run *ev.Run, c ev.Case) {
	viol := func(key, what string, detail any) {
		run.Violation("C20:"+key, what, c, detail)
	}
	examples := map[string]string{
		"bcd":          "Get Device ID byte 4 = 0x37 -> minor revision 37; SDR version byte 0x51 -> 15",
		"analog":       "format 1 (1's complement) raw 0x80 -> -127, raw 0xff -> 0; format 2 raw 0x80 -> -128",
		"tenbit":       "M raw 0x200 (bytes 20,21 = 00,80|3f) -> -512",
		"fourbit":      "R exponent nibble 0x8 -> -8",
		"checksum-ser": "header 20 18 -> checksum 0xc8",
		"checksum-dec": "response message with checksum 2 replaced by each of 256 values: only the correct one decodes",
		"bcdplus":      "nibbles a,b,c,d,e,f -> \" -.:,_\"",
		"sixbit":       "3 bytes 29 dc a6 -> \"IPMI\"",
		"latin1":       "byte 0xe9 -> U+00E9",
		"period-dec":   "0x41 -> 1m0s, 0xc3 -> 72h",
		"period-enc":   "61s -> 0x41, 86400s -> 0xc1, 64 days -> 0xff",
		"instance":     "0x5f system-relative, 0x60 device-relative",
	}
	run.Event("domains-enumerated", 1)
	reused := &ipmi.FullSensorRecord{} // one record layer for the whole domain, as a packet parser keeps it
	run.Sample(c.Kind, map[string]any{"domain": c.Kind, "example": examples[c.Kind], "params": string(c.P)})
	switch c.Kind {
	case "bcd":
		for v := 0; v < 256; v++ {
			run.Eval(1)
			hi, lo := v>>4, v&0xf
			// Get Device ID minor firmware revision: BCD, high nibble tens
			d := make([]byte, 11)
			d[3] = byte(v)
			var g ipmi.GetDeviceIDRsp
			pv, st := safe(func() { _ = g.DecodeFromBytes(d, gopacket.NilDecodeFeedback) })
			if pv != nil {
				viol("bcd-panic", fmt.Sprintf("Get Device ID decode panicked on BCD byte %#x: %v\n%s", v, pv, trimStack(st)), nil)
				continue
			}
			// SDR version: low nibble is the major digit
			h := []byte{0, 0, byte(v), 1, 0}
			var s ipmi.SDR
			_ = s.DecodeFromBytes(h, gopacket.NilDecodeFeedback)
			ri := make([]byte, 14)
			ri[0] = byte(v)
			var info ipmi.GetSDRRepositoryInfoRsp
			_ = info.DecodeFromBytes(ri, gopacket.NilDecodeFeedback)
			if hi <= 9 && lo <= 9 {
				run.Nontrivial(fmt.Sprintf("bcd:%d", v))
				if int(g.MinorFirmwareRevision) != hi*10+lo {
					viol("bcd-minor-revision", fmt.Sprintf("BCD byte %#x decoded as %d, want %d", v, g.MinorFirmwareRevision, hi*10+lo), nil)
				}
				if int(s.Version) != lo*10+hi {
					viol("bcd-sdr-version", fmt.Sprintf("SDR version byte %#x decoded as %d, want %d", v, s.Version, lo*10+hi), nil)
				}
				if int(info.Version) != lo*10+hi {
					viol("bcd-repo-version", fmt.Sprintf("SDR repository version byte %#x decoded as %d, want %d", v, info.Version, lo*10+hi), nil)
				}
			}
		}
	case "analog":
		for f := 0; f < 4; f++ {
			p, err := ipmi.AnalogDataFormat(f).Parser()
			if f == 3 {
				run.Eval(1)
				if err == nil {
					viol("analog-format-3", "AnalogDataFormat 3 (no analog reading) yields a parser", nil)
				}
				continue
			}
			if err != nil {
				viol("analog-parser-missing", fmt.Sprintf("format %d has no parser: %v", f, err), nil)
				continue
			}
			for v := 0; v < 256; v++ {
				run.Eval(1)
				run.Nontrivial(fmt.Sprintf("analog:%d:%d", f, v))
				var want int
				switch f {
				case 0:
					want = v
				case 1:
					if v&0x80 != 0 {
						want = -(^v & 0xff)
					} else {
						want = v
					}
				case 2:
					want = twos(v, 8)
				}
				if got := int(p.Parse(byte(v))); got != want {
					viol(fmt.Sprintf("analog-%d", f), fmt.Sprintf("format %d raw %#x parsed as %d, want %d", f, v, got, want), nil)
				}
			}
		}
	case "tenbit":
		for field := 0; field < 3; field++ {
			for v := 0; v < 1024; v++ {
				run.Eval(1)
				run.Nontrivial(fmt.Sprintf("tenbit:%d:%d", field, v))
				b := fsrTemplate()
				// surrounding bits set to ones to catch mask slips
				b[20], b[22], b[23] = 0x3f, 0, 0x0f
				switch field {
				case 0:
					b[19] = byte(v)
					b[20] = byte(v>>8)<<6 | 0x3f
				case 1:
					b[21] = byte(v)
					b[22] = byte(v>>8)<<6 | 0x3f
				case 2:
					b[22] = byte(v)&0x3f | 0xc0
					b[23] = byte(v>>6)<<4 | 0x0f
				}
				var r ipmi.FullSensorRecord
				if err := r.DecodeFromBytes(b, gopacket.NilDecodeFeedback); err != nil {
					viol("tenbit-decode-error", fmt.Sprintf("full sensor record failed to decode: %v", err), ev.Hex(b))
					continue
				}
				got := []int{int(r.M), int(r.B), int(r.Accuracy)}[field]
				if got != twos(v, 10) {
					viol(fmt.Sprintf("tenbit-field-%d", field), fmt.Sprintf("10-bit field %d raw %#x decoded as %d, want %d", field, v, got, twos(v, 10)), ev.Hex(b))
				}
			}
		}
	case "fourbit":
		for field := 0; field < 2; field++ {
			for v := 0; v < 16; v++ {
				for other := 0; other < 16; other++ {
					run.Eval(1)
					run.Nontrivial(fmt.Sprintf("fourbit:%d:%d:%d", field, v, other))
					b := fsrTemplate()
					if field == 0 {
						b[24] = byte(v)<<4 | byte(other)
					} else {
						b[24] = byte(other)<<4 | byte(v)
					}
					var r ipmi.FullSensorRecord
					if err := r.DecodeFromBytes(b, gopacket.NilDecodeFeedback); err != nil {
						viol("fourbit-decode-error", err.Error(), nil)
						continue
					}
					got := int(r.RExp)
					if field == 1 {
						got = int(r.BExp)
					}
					if got != twos(v, 4) {
						viol(fmt.Sprintf("fourbit-field-%d", field), fmt.Sprintf("4-bit exponent %d raw %#x decoded as %d, want %d", field, v, got, twos(v, 4)), nil)
					}
				}
			}
		}
	case "checksum-ser":
		r := rng(1, "c20chk")
		buf := gopacket.NewSerializeBuffer()
		for a := 0; a < 256; a++ {
			for nl := 0; nl < 256; nl++ {
				run.Eval(1)
				netfn := nl >> 2
				if netfn == 0x2c || netfn == 0x2d || netfn == 0x2e || netfn == 0x2f {
					continue // extra header bytes; covered by C08
				}
				m := ipmi.Message{
					Operation:     ipmi.Operation{Function: ipmi.NetworkFunction(netfn), Command: ipmi.CommandNumber(r.Intn(256))},
					RemoteAddress: ipmi.Address(a), RemoteLUN: ipmi.LUN(nl & 3),
					LocalAddress: ipmi.Address(r.Intn(256)), LocalLUN: ipmi.LUN(r.Intn(4)), Sequence: uint8(r.Intn(64)),
					CompletionCode: ipmi.CompletionCode(r.Intn(256)),
				}
				body := rbytes(r, r.Intn(24))
				if (a+nl)%97 == 0 {
					// the checksum is defined over regions of any length: long bodies too
					body = rbytes(r, []int{240, 249, 250, 251, 252, 253, 254, 255, 256, 257, 300, 511, 512, 700}[(a*3+nl)%14])
				}
				if err := gopacket.SerializeLayers(buf, gopacket.SerializeOptions{FixLengths: true, ComputeChecksums: true}, &m, gopacket.Payload(body)); err != nil {
					viol("checksum-serialise-error", err.Error(), nil)
					continue
				}
				out := buf.Bytes()
				run.Nontrivial(fmt.Sprintf("chk:%d:%d", a, nl))
				if out[2] != refbmc.Csum(out[:2]) {
					viol("checksum1", fmt.Sprintf("checksum 1 of header % x is %#x, want %#x", out[:2], out[2], refbmc.Csum(out[:2])), ev.Hex(out))
				}
				if out[len(out)-1] != refbmc.Csum(out[3:len(out)-1]) {
					viol("checksum2", fmt.Sprintf("checksum 2 is %#x, want %#x", out[len(out)-1], refbmc.Csum(out[3:len(out)-1])), ev.Hex(out))
				}
				if (int(out[0])+int(out[1])+int(out[2]))%256 != 0 {
					viol("checksum1-sum", "header bytes and checksum 1 do not sum to zero", ev.Hex(out))
				}
			}
		}
	case "checksum-dec":
		r := rng(2, "c20chkdec")
		for i := 0; i < 64; i++ {
			body := rbytes(r, r.Intn(20))
			if i%8 == 7 {
				body = rbytes(r, []int{245, 249, 250, 251, 252, 256, 300, 460}[i/8])
			}
			msg := refbmc.BuildRsp(0x81, 0x07, 0, 0x20, byte(r.Intn(64)), 0, byte(r.Intn(256)), byte(r.Intn(256)), body)
			for pos := 0; pos < 2; pos++ {
				idx := 2
				if pos == 1 {
					idx = len(msg) - 1
				}
				good := msg[idx]
				for v := 0; v < 256; v++ {
					run.Eval(1)
					run.Nontrivial(fmt.Sprintf("chkdec:%d:%d", pos, v))
					m2 := append([]byte(nil), msg...)
					m2[idx] = byte(v)
					var m ipmi.Message
					var err error
					pv, st := safe(func() { err = m.DecodeFromBytes(m2, gopacket.NilDecodeFeedback) })
					if pv != nil {
						viol("checksum-dec-panic", fmt.Sprintf("panic: %v\n%s", pv, trimStack(st)), ev.Hex(m2))
						continue
					}
					if (err == nil) != (byte(v) == good) {
						viol(fmt.Sprintf("checksum-dec-%d", pos+1), fmt.Sprintf("message with checksum %d = %#x (correct %#x) decoded with err=%v", pos+1, v, good, err), ev.Hex(m2))
					}
				}
			}
		}
	case "bcdplus":
		alphabet := "0123456789 -.:,_"
		dec, err := ipmi.StringEncodingBCDPlus.Decoder()
		if err != nil {
			viol("bcdplus-no-decoder", err.Error(), nil)
			return
		}
		for n := 0; n <= 31; n++ {
			for pos := 0; pos < n || (n == 0 && pos == 0); pos++ {
				for nib := 0; nib < 16; nib++ {
					run.Eval(1)
					run.Nontrivial(fmt.Sprintf("bcdplus:%d:%d:%d", n, pos, nib))
					// background nibble pattern, then the probed nibble
					nibs := make([]int, n)
					for i := range nibs {
						nibs[i] = (i*7 + 3) & 0xf
					}
					if n > 0 {
						nibs[pos] = nib
					}
					b := make([]byte, (n+1)/2)
					for i, v := range nibs {
						if i%2 == 0 {
							b[i/2] |= byte(v) << 4
						} else {
							b[i/2] |= byte(v)
						}
					}
					want := ""
					for _, v := range nibs {
						want += string(alphabet[v])
					}
					b = append(b, 0xa5) // one byte that must not be consumed
					got, consumed, err := dec.Decode(b, n)
					if err != nil || got != want || consumed != (n+1)/2 {
						viol("bcdplus", fmt.Sprintf("BCD-plus %d chars from % x: got %q consumed %d err %v, want %q consumed %d", n, b, got, consumed, err, want, (n+1)/2), nil)
					}
					// the same string ending exactly where the data ends (how a record usually ends)
					if got, consumed, err := dec.Decode(exactCopy(b[:len(b)-1]), n); err != nil || got != want || consumed != (n+1)/2 {
						viol("bcdplus-at-end-of-data", fmt.Sprintf("BCD-plus %d chars from exactly % x: got %q consumed %d err %v, want %q", n, b[:len(b)-1], got, consumed, err, want), nil)
					}
					if nib == 0 || pos == n-1 {
						c20Record(viol, reused, 1, n, b[:len(b)-1], want)
					}
				}
			}
		}
	case "sixbit":
		dec, err := ipmi.StringEncodingPacked6BitAscii.Decoder()
		if err != nil {
			viol("sixbit-no-decoder", err.Error(), nil)
			return
		}
		for n := 0; n <= 31; n++ {
			for pos := 0; pos < n || (n == 0 && pos == 0); pos++ {
				for code := 0; code < 64; code++ {
					run.Eval(1)
					run.Nontrivial(fmt.Sprintf("sixbit:%d:%d:%d", n, pos, code))
					codes := make([]int, n)
					for i := range codes {
						codes[i] = (i*11 + 5) & 0x3f
					}
					if n > 0 {
						codes[pos] = code
					}
					// bit stream, least significant bit first
					nbytes := (n*6 + 7) / 8
					b := make([]byte, nbytes)
					for i, v := range codes {
						for k := 0; k < 6; k++ {
							if v&(1<<k) != 0 {
								bit := i*6 + k
								b[bit/8] |= 1 << (bit % 8)
							}
						}
					}
					want := ""
					for _, v := range codes {
						want += string(rune(v + 0x20))
					}
					b = append(b, 0xff)
					got, consumed, err := dec.Decode(b, n)
					if err != nil || got != want || consumed != nbytes {
						viol("sixbit", fmt.Sprintf("6-bit packed %d chars from % x: got %q consumed %d err %v, want %q consumed %d", n, b, got, consumed, err, want, nbytes), nil)
					}
					if got, consumed, err := dec.Decode(exactCopy(b[:len(b)-1]), n); err != nil || got != want || consumed != nbytes {
						viol("sixbit-at-end-of-data", fmt.Sprintf("6-bit packed %d chars from exactly % x: got %q consumed %d err %v, want %q", n, b[:len(b)-1], got, consumed, err, want), nil)
					}
					if code == 0 || pos == n-1 {
						c20Record(viol, reused, 2, n, b[:len(b)-1], want)
					}
				}
			}
		}
	case "latin1":
		for _, enc := range []ipmi.StringEncoding{ipmi.StringEncoding8BitAsciiLatin1, ipmi.StringEncodingUnicode} {
			dec, err := enc.Decoder()
			if err != nil {
				viol("latin1-no-decoder", err.Error(), nil)
				return
			}
			for n := 0; n <= 31; n++ {
				if n == 1 {
					// a length of 1 is reserved for the 8-bit encodings: a decoder may refuse
					// it, but if it decodes, it decodes one character from one byte
					for v := 0; v < 256; v++ {
						for _, tail := range [][]byte{{'Z'}, {'Z', 'Y', 'X'}, {0}} {
							run.Eval(1)
							run.Nontrivial(fmt.Sprintf("latin1:%d:1:%d:%d", enc, v, len(tail)))
							in := append([]byte{byte(v)}, tail...)
							got, consumed, err := dec.Decode(exactCopy(in), 1)
							if err == nil && (got != string(rune(v)) || consumed != 1) {
								viol("latin1-length-1", fmt.Sprintf("8-bit string (encoding %d) of 1 char from % x: got %q consumed %d, want %q consumed 1 (or an error)", enc, in, got, consumed, string(rune(v))), nil)
							}
						}
					}
					continue
				}
				for pos := 0; pos < n || (n == 0 && pos == 0); pos++ {
					for v := 0; v < 256; v++ {
						if n == 0 && v > 0 {
							break
						}
						run.Eval(1)
						run.Nontrivial(fmt.Sprintf("latin1:%d:%d:%d:%d", enc, n, pos, v))
						b := make([]byte, n)
						for i := range b {
							b[i] = byte('a' + i%26)
						}
						if n > 0 {
							b[pos] = byte(v)
						}
						want := ""
						for _, x := range b {
							want += string(rune(x)) // Latin-1 code point = byte value
						}
						if v == 0x41 || v == 0xe9 || pos == n-1 {
							c20Record(viol, reused, map[ipmi.StringEncoding]byte{ipmi.StringEncoding8BitAsciiLatin1: 3, ipmi.StringEncodingUnicode: 0}[enc], n, b, want)
						}
						in := append(append([]byte(nil), b...), 0x00, 0x00)[:n]
						got, consumed, err := dec.Decode(in, n)
						if err != nil || got != want || consumed != n {
							key := "latin1"
							if n == 0 {
								key = "latin1-zero-length"
							} else if v >= 0x80 && err == nil && consumed == n {
								key = "latin1-high-bytes-not-transcoded"
							}
							viol(key, fmt.Sprintf("8-bit string (encoding %d) of %d chars % x: got %q consumed %d err %v, want %q", enc, n, b, got, consumed, err, want), nil)
						}
					}
				}
			}
		}
	case "concurrent":
		var p map[string]int
		c.Decode(&p)
		c20Concurrent(run, viol, p["goroutines"], p["rounds"], int64(p["seed"]))
	case "period-dec":
		units := []time.Duration{time.Second, time.Minute, time.Hour, 24 * time.Hour}
		for v := 0; v < 256; v++ {
			run.Eval(1)
			run.Nontrivial(fmt.Sprintf("perioddec:%d", v))
			body := []byte{1, 5, 2, 3, byte(v), byte(255 - v), byte(v ^ 0x55)}
			var g dcmi.GetDCMICapabilitiesInfoEnhancedSystemPowerStatisticsAttrsRsp
			if err := g.DecodeFromBytes(body, gopacket.NilDecodeFeedback); err != nil || len(g.PowerRollingAvgTimePeriods) != 3 {
				viol("period-dec-error", fmt.Sprintf("enhanced power attrs failed: %v", err), ev.Hex(body))
				continue
			}
			for i, pb := range []int{v, 255 - v, v ^ 0x55} {
				want := time.Duration(pb&0x3f) * units[pb>>6]
				if g.PowerRollingAvgTimePeriods[i] != want {
					viol("period-dec", fmt.Sprintf("period byte %#x decoded as %v, want %v", pb, g.PowerRollingAvgTimePeriods[i], want), nil)
				}
			}
		}
	case "period-enc":
		var p map[string]int
		c.Decode(&p)
		day := p["day"]
		buf := gopacket.NewSerializeBuffer()
		for s := day * 86400; s < (day+1)*86400; s++ {
			run.Eval(1)
			d := time.Duration(s) * time.Second
			req := dcmi.GetPowerReadingReq{Mode: dcmi.SystemPowerStatisticsModeEnhanced, Period: d}
			buf.Clear()
			if err := req.SerializeTo(buf, gopacket.SerializeOptions{}); err != nil {
				viol("period-enc-error", err.Error(), nil)
				continue
			}
			out := buf.Bytes()
			var want byte
			switch {
			case s < 60:
				want = byte(s)
			case s < 3600:
				want = 0x40 | byte(s/60)
			case s < 86400:
				want = 0x80 | byte(s/3600)
			default:
				dd := s / 86400
				if dd > 63 {
					dd = 63
				}
				want = 0xc0 | byte(dd)
			}
			if len(out) != 3 || out[0] != 2 || out[1] != want || out[2] != 0 {
				viol("period-enc", fmt.Sprintf("duration %v encoded as % x, want 02 %02x 00", d, out, want), nil)
			}
			if s%977 == 0 {
				run.Nontrivial(fmt.Sprintf("periodenc:%#x", want))
			}
		}
	case "instance":
		for v := 0; v < 256; v++ {
			run.Eval(1)
			run.Nontrivial(fmt.Sprintf("instance:%d", v))
			i := ipmi.EntityInstance(v)
			if v >= 0x80 {
				// outside the 7-bit field (a caller passing an unmasked byte): neither range
				// of table 39-1 contains it, so it is in neither class
				if i.IsSystemRelative() || i.IsDeviceRelative() {
					viol("entity-instance-out-of-range", fmt.Sprintf("instance %#x (outside 0x00..0x7f): system-relative %v device-relative %v", v, i.IsSystemRelative(), i.IsDeviceRelative()), nil)
				}
				continue
			}
			if i.IsSystemRelative() != (v <= 0x5f) || i.IsDeviceRelative() != (v >= 0x60) {
				viol("entity-instance", fmt.Sprintf("instance %#x: system-relative %v device-relative %v", v, i.IsSystemRelative(), i.IsDeviceRelative()), nil)
			}
			// the rendering names the class and the number within it (device-relative numbers count from 0x60)
			var str string
			if pv, _ := safe(func() { str = i.String() }); pv != nil {
				viol("entity-instance-string", fmt.Sprintf("instance %#x: String() panicked: %v", v, pv), nil)
				continue
			}
			num, class := -1, ""
			fmt.Sscanf(str, "%d", &num)
			sys, dev := strings.Count(str, "System-relative"), strings.Count(str, "Device-relative")
			switch {
			case sys == 1 && dev == 0:
				class = "system"
			case dev == 1 && sys == 0:
				class = "device"
			}
			wantNum, wantClass := v, "system"
			if v >= 0x60 {
				wantNum, wantClass = v-0x60, "device"
			}
			if num != wantNum || class != wantClass {
				viol("entity-instance-string", fmt.Sprintf("instance %#x renders as %q, want number %d of the %s-relative class", v, str, wantNum, wantClass), nil)
			}
		}
	}
}

// c20Concurrent has G goroutines convert at the same time, each its own
// inputs (strings of all four encodings through the decoders and through Full
// Sensor Records, BCD bytes, ten-bit and four-bit fields, analog formats,
// period bytes, checksums): every result must be the definition's value for
// that goroutine's input, whatever the others are converting.
func c20Concurrent(run *ev.Run, viol func(string, string, any), g, rounds int, seed int64) {
	alphabet := "0123456789 -.:,_"
	decs := map[byte]ipmi.StringDecoder{}
	for code, enc := range map[byte]ipmi.StringEncoding{0: ipmi.StringEncodingUnicode, 1: ipmi.StringEncodingBCDPlus, 2: ipmi.StringEncodingPacked6BitAscii, 3: ipmi.StringEncoding8BitAsciiLatin1} {
		d, err := enc.Decoder()
		if err != nil {
			viol("concurrent-no-decoder", err.Error(), nil)
			return
		}
		decs[code] = d
	}
	var wg sync.WaitGroup
	var mu sync.Mutex
	reported := map[string]bool{}
	report := func(key, what string) {
		mu.Lock()
		first := !reported[key]
		reported[key] = true
		mu.Unlock()
		if first {
			viol(key, what, nil)
		}
	}
	start := make(chan struct{})
	for w := 0; w < g; w++ {
		wg.Add(1)
		go func(w int) {
			defer wg.Done()
			r := rng(seed+int64(w)*7919, "c20conc")
			layer := &ipmi.FullSensorRecord{}
			<-start
			defer func() {
				if pv := recover(); pv != nil {
					report("concurrent:panic", fmt.Sprintf("goroutine %d of %d: a conversion panicked: %v\n%s", w, g, pv, trimStack(string(debug.Stack()))))
				}
			}()
			for i := 0; i < rounds; i++ {
				enc := byte((i + w) % 4)
				n := 2 + r.Intn(30)
				chars := make([]rune, n)
				for k := range chars {
					switch enc {
					case 1:
						chars[k] = rune(alphabet[r.Intn(16)])
					case 2:
						chars[k] = rune(0x20 + r.Intn(64))
					default:
						chars[k] = rune(r.Intn(256))
					}
				}
				want := string(chars)
				tl, idb := refcodec.IDString(enc, chars)
				got, consumed, err := decs[enc].Decode(exactCopy(idb), n)
				if err != nil || got != want || consumed != len(idb) {
					report(fmt.Sprintf("concurrent:string-decoder:%d", enc), fmt.Sprintf("goroutine %d of %d, round %d: ID string encoding %d of %d characters from % x decoded as %q (consumed %d, err %v) while other goroutines were decoding; its definition is %q", w, g, i, enc, n, idb, got, consumed, err, want))
				}
				rec := make([]byte, 43, 43+len(idb))
				rec[0], rec[42] = 0x20, tl
				m, b := r.Intn(1024), r.Intn(1024)
				rexp, bexp := r.Intn(16), r.Intn(16)
				rec[19], rec[20] = byte(m), byte(m>>8)<<6
				rec[21], rec[22] = byte(b), byte(b>>8)<<6
				rec[24] = byte(rexp)<<4 | byte(bexp)
				rec = append(rec, idb...)
				if err := layer.DecodeFromBytes(exactCopy(rec), gopacket.NilDecodeFeedback); err != nil || layer.Identity != want || int(layer.M) != twos(m, 10) || int(layer.B) != twos(b, 10) || int(layer.RExp) != twos(rexp, 4) || int(layer.BExp) != twos(bexp, 4) {
					report(fmt.Sprintf("concurrent:record:%d", enc), fmt.Sprintf("goroutine %d of %d, round %d: Full Sensor Record % x decoded as Identity %q M %d B %d RExp %d BExp %d (err %v) while other goroutines were decoding; want %q %d %d %d %d", w, g, i, rec, layer.Identity, layer.M, layer.B, layer.RExp, layer.BExp, err, want, twos(m, 10), twos(b, 10), twos(rexp, 4), twos(bexp, 4)))
				}
				// a message with valid checksums decodes, with one checksum off by one it does not
				body := rbytes(r, r.Intn(20))
				msg := refbmc.BuildRsp(0x81, 0x07, 0, 0x20, byte(r.Intn(64)), 0, byte(r.Intn(256)), 0, body)
				var ml ipmi.Message
				if err := ml.DecodeFromBytes(exactCopy(msg), gopacket.NilDecodeFeedback); err != nil {
					report("concurrent:checksum", fmt.Sprintf("goroutine %d round %d: message % x with valid checksums refused while other goroutines were decoding: %v", w, i, msg, err))
				}
				msg[len(msg)-1]++
				if err := ml.DecodeFromBytes(exactCopy(msg), gopacket.NilDecodeFeedback); err == nil {
					report("concurrent:checksum", fmt.Sprintf("goroutine %d round %d: message % x with a wrong second checksum accepted while other goroutines were decoding", w, i, msg))
				}
			}
		}(w)
	}
	close(start)
	wg.Wait()
	run.Eval(g * rounds)
	run.Nontrivial(fmt.Sprintf("concurrent:%d:%d", g, rounds))
	run.Event("concurrent-conversions", g*rounds*4)
}

// c20Record decodes the ID string where it lives: at the end of a Full Sensor
// Record that ends with it (type/length byte, then exactly the string's bytes).
func c20Record(viol func(string, string, any), reused *ipmi.FullSensorRecord, enc byte, chars int, idBytes []byte, want string) {
	rec := make([]byte, 43, 43+len(idBytes))
	rec[42] = enc<<6 | byte(chars)
	rec = append(rec, idBytes...)
	var fsr ipmi.FullSensorRecord
	var err error
	pv, _ := safe(func() { err = fsr.DecodeFromBytes(exactCopy(rec), gopacket.NilDecodeFeedback) })
	if pv != nil || err != nil || fsr.Identity != want {
		viol("id-string-in-record", fmt.Sprintf("Full Sensor Record ending with a %d-character ID string (encoding %d, bytes % x): Identity %q err %v panic %v, want %q", chars, enc, idBytes, fsr.Identity, err, pv, want), nil)
	}
	// the same record decoded into a layer that has decoded other records before, and the record
	// with a zero-length ID string of the same encoding straight after it: a string's value is
	// defined by its own bytes, not by what the layer held
	pv, _ = safe(func() { err = reused.DecodeFromBytes(exactCopy(rec), gopacket.NilDecodeFeedback) })
	if pv != nil || err != nil || reused.Identity != want {
		viol("id-string-in-record-reused-layer", fmt.Sprintf("Full Sensor Record ending with a %d-character ID string (encoding %d, bytes % x) decoded into a used layer: Identity %q err %v panic %v, want %q", chars, enc, idBytes, reused.Identity, err, pv, want), nil)
	}
	empty := make([]byte, 43)
	empty[42] = enc << 6
	pv, _ = safe(func() { err = reused.DecodeFromBytes(exactCopy(empty), gopacket.NilDecodeFeedback) })
	if pv != nil || err != nil || reused.Identity != "" {
		viol("zero-length-id-string-in-record-reused-layer", fmt.Sprintf("Full Sensor Record with a zero-length ID string (encoding %d) decoded into a layer that held %q before: Identity %q err %v panic %v, want the empty string", enc, want, reused.Identity, err, pv), nil)
	}
}
