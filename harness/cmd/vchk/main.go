// vchk runs one property check: vchk <ID> <quick|thorough> | vchk <ID> --replay <file>
package main

import (
	"fmt"
	"os"
	"sort"

	"verifharness/checks"
	"verifharness/ev"
)

func main() {
	if len(os.Args) >= 2 && os.Args[1] == "--child" {
		os.Exit(checks.ChildMain(os.Args[2:]))
	}
	if len(os.Args) < 3 {
		ids := []string{}
		for id := range checks.Registry {
			ids = append(ids, id)
		}
		sort.Strings(ids)
		fmt.Println("usage: vchk <ID> <quick|thorough> | vchk <ID> --replay <file>; checks:", ids)
		os.Exit(2)
	}
	id := os.Args[1]
	c := checks.Registry[id]
	if c == nil {
		fmt.Println("unknown check", id)
		os.Exit(2)
	}
	tier := os.Args[2]
	replay := ""
	if tier == "--replay" {
		if len(os.Args) < 4 {
			fmt.Println("--replay needs a file")
			os.Exit(2)
		}
		replay = os.Args[3]
		tier = "quick"
	}
	if t := os.Getenv("VERIF_TIER"); t != "" && replay == "" {
		tier = t
	}
	if tier != "quick" && tier != "thorough" {
		fmt.Println("tier must be quick or thorough")
		os.Exit(2)
	}
	os.Exit(checks.RunCheck(c, tier, ev.SeedFromEnv(), replay))
}
