// Package memtr is the in-memory transport the hooked constructor accepts. It
// records every Send at the library/transport boundary (copy of the bytes, the
// attempt context's deadline, whether that context was already done), obtains
// the reply from a script or a simulated BMC, and hands it to the library in
// one of three delivery modes that together act as a bounds sanitizer for the
// library's reused 512-byte receive buffer.
package memtr

import (
	"context"
	"errors"
	"net"
	"os"
	"sync"
	"sync/atomic"
	"syscall"
	"time"
)

// Delivery selects how reply bytes are handed to the library.
type Delivery int

const (
	// Exact returns a slice whose capacity equals its length: any read past
	// the datagram panics.
	Exact Delivery = iota
	// Window returns a window into a 512-byte buffer (as the production
	// transport does) whose tail is filled with Poison.
	Window
)

// ErrLost is returned when the script says the reply was lost (what the
// production transport reports as a read timeout).
var ErrLost error = &net.OpError{Op: "read", Net: "udp", Err: os.ErrDeadlineExceeded}

// ErrRefused is a transport failure that is not a timeout (what the
// production transport reports after an ICMP port unreachable).
var ErrRefused error = &net.OpError{Op: "read", Net: "udp", Err: os.NewSyscallError("recvfrom", syscall.ECONNREFUSED)}

// ErrCtx is returned when the attempt context is already done at Send, in
// which case nothing is transmitted (the production transport fails the write
// on its expired deadline).
var ErrCtx = errors.New("memtr: attempt context already done; nothing transmitted")

// Stamp is a process-wide logical clock over transport events.
var Stamp atomic.Int64

// SendRec is one recorded Send.
type SendRec struct {
	Stamp       int64
	Bytes       []byte
	Deadline    time.Time
	HasDeadline bool
	CtxDone     bool // attempt context already done: not transmitted
	At          time.Time
	ReplyLen    int
	Err         error
}

// ReplyFunc produces the reply for the n-th transmitted datagram (1-based).
// A nil reply with nil error means the reply is lost.
type ReplyFunc func(n int, req []byte) ([]byte, error)

type T struct {
	// BlockOnLoss makes a lost reply take as long as it does on a socket: Send returns
	// its timeout error only when the attempt context is done.
	BlockOnLoss bool
	mu          sync.Mutex
	Sends       []SendRec
	Reply       ReplyFunc
	Mode        Delivery
	Poison      byte
	PoisonFn    func(i int) byte // overrides Poison when set
	buf         [512]byte
	// BeforeReply is called with the 1-based transmission count after the send
	// was recorded and before the reply is produced (used to cancel contexts at
	// a scripted step or to yield the processor).
	BeforeReply func(n int)
	// Worker tags stamps for interleaving evidence.
	Worker int
	Trace  func(worker int, stamp int64)
	Closed bool
	tx     int
	// KeepBytes=false drops datagram copies (long stress runs).
	DropBytes bool
}

func New(reply ReplyFunc) *T { return &T{Reply: reply, Mode: Exact} }

func (t *T) Address() net.Addr { return &net.UDPAddr{IP: net.IPv4(127, 0, 0, 1), Port: 623} }

func (t *T) Close() error {
	t.mu.Lock()
	t.Closed = true
	t.mu.Unlock()
	return nil
}

// Transmissions is the number of datagrams actually handed to the counterpart.
func (t *T) Transmissions() int {
	t.mu.Lock()
	defer t.mu.Unlock()
	return t.tx
}

func (t *T) Records() []SendRec {
	t.mu.Lock()
	defer t.mu.Unlock()
	return append([]SendRec(nil), t.Sends...)
}

// Len is the number of recorded sends.
func (t *T) Len() int {
	t.mu.Lock()
	defer t.mu.Unlock()
	return len(t.Sends)
}

// Since returns a copy of the records from index i on.
func (t *T) Since(i int) []SendRec {
	t.mu.Lock()
	defer t.mu.Unlock()
	if i > len(t.Sends) {
		i = len(t.Sends)
	}
	return append([]SendRec(nil), t.Sends[i:]...)
}

func (t *T) Reset() {
	t.mu.Lock()
	t.Sends = nil
	t.tx = 0
	t.mu.Unlock()
}

func (t *T) Send(ctx context.Context, b []byte) ([]byte, error) {
	st := Stamp.Add(1)
	if t.Trace != nil {
		t.Trace(t.Worker, st)
	}
	rec := SendRec{Stamp: st, At: time.Now()}
	if !t.DropBytes {
		rec.Bytes = append([]byte(nil), b...)
	}
	rec.Deadline, rec.HasDeadline = ctx.Deadline()
	if ctx.Err() != nil {
		rec.CtxDone = true
		rec.Err = ErrCtx
		t.mu.Lock()
		t.Sends = append(t.Sends, rec)
		t.mu.Unlock()
		return nil, ErrCtx
	}
	t.mu.Lock()
	t.tx++
	n := t.tx
	idx := len(t.Sends)
	t.Sends = append(t.Sends, rec)
	t.mu.Unlock()
	if t.BeforeReply != nil {
		t.BeforeReply(n)
	}
	req := rec.Bytes
	if req == nil {
		req = append([]byte(nil), b...)
	}
	rsp, err := t.Reply(n, req)
	if err == nil && rsp == nil {
		err = ErrLost
		if t.BlockOnLoss {
			// as on a socket: the read blocks until the attempt's deadline
			<-ctx.Done()
		}
	}
	t.mu.Lock()
	t.Sends[idx].Err = err
	t.Sends[idx].ReplyLen = len(rsp)
	t.mu.Unlock()
	if err != nil {
		return nil, err
	}
	if len(rsp) > 512 {
		rsp = rsp[:512] // a UDP read into a 512-byte buffer truncates
	}
	switch t.Mode {
	case Window:
		copy(t.buf[:], rsp)
		for i := len(rsp); i < len(t.buf); i++ {
			if t.PoisonFn != nil {
				t.buf[i] = t.PoisonFn(i)
			} else {
				t.buf[i] = t.Poison
			}
		}
		return t.buf[:len(rsp)], nil
	default:
		o := make([]byte, len(rsp))
		copy(o, rsp)
		return o[:len(o):len(o)], nil
	}
}
