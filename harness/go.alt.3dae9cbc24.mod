module verifharness

go 1.22

require (
	github.com/cenkalti/backoff/v4 v4.3.0
	github.com/gebn/bmc v0.0.0
	github.com/google/gopacket v1.1.19
	github.com/prometheus/client_golang v1.20.5
	github.com/prometheus/client_model v0.6.1
)

require (
	github.com/beorn7/perks v1.0.1 // indirect
	github.com/cespare/xxhash/v2 v2.3.0 // indirect
	github.com/munnerz/goautoneg v0.0.0-20191010083416-a7dc8b61c822 // indirect
	github.com/prometheus/common v0.60.0 // indirect
	github.com/prometheus/procfs v0.15.1 // indirect
	golang.org/x/sys v0.26.0 // indirect
	google.golang.org/protobuf v1.35.1 // indirect
)

replace github.com/gebn/bmc => /tmp/mx.c52.4280
