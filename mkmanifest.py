#!/usr/bin/env python3
"""Regenerates MANIFEST.json from the table below (kept as code so the file is
always schema-valid). Run: python3 mkmanifest.py"""
import json, subprocess, os

HOOK_COMMITS = ["44e7bc2"]

# id -> (category, technique, level text, level note, design ref)
CHECKS = {}

def add(id, category, technique, text, note, ref):
    CHECKS[id] = dict(category=category, technique=technique, text=text, note=note, ref=ref)

exec(open(os.path.join(os.path.dirname(__file__), "manifest_table.py")).read())

ALL = ["C%02d" % i for i in range(1, 21)]
checks = []
for id in ALL:
    if id not in CHECKS:
        continue
    c = CHECKS[id]
    checks.append({
        "property_id": id,
        "quick_cmd": "./check %s quick" % id,
        "thorough_cmd": "./check %s thorough" % id,
        "evidence_file": "/verif/evidence/%s.json" % id,
        "replay_cmd_template": "./check %s --replay {path}" % id,
        "engine": "vchk",
        "level_claimed": {"category": c["category"], "text": c["text"], "design_ref": c["ref"]},
        "level_note": c["note"],
        "technique": c["technique"],
    })
na = [{"property_id": id, "reason": NOT_APPLICABLE.get(id, "check not built yet in this session; no claim is made")}
      for id in ALL if id not in CHECKS]
m = {
    "version": 1,
    "setup_cmd": "./setup.sh",
    "hooks": {
        "guard": "verif",
        "enable": "go build -tags verif (the harness module replaces github.com/gebn/bmc with /repo, so every check build compiles /repo's working tree)",
        "baseline_off_cmd": "cd /repo && go build ./... && go test -vet=off -count=1 -timeout 25m ./...",
        "source_commits": HOOK_COMMITS,
        "add_only": True,
    },
    "engines": [{
        "name": "vchk",
        "path": "/verif/harness",
        "serves_properties": sorted(CHECKS),
        "kind_free_text": "Go harness: independent simulated BMC (refbmc), reference codecs (refcodec), in-memory and loopback-UDP transports, online monitors over the wire/event log, Go race detector for C19, Go's coverage-guided fuzzer over C05's decode oracles in the thorough tier",
    }],
    "checks": checks,
    "not_applicable": na,
    "notes": "Runtime monitoring only: every verdict is an oracle observing executions of the real library built from /repo's working tree. Known findings: /verif/known_findings.json. Seeded changes used to validate the monitors: /verif/seeded/ (438, eleven rounds); behaviour-preserving controls on which every check stays silent: /verif/benign/ (42).",
}
json.dump(m, open(os.path.join(os.path.dirname(__file__), "MANIFEST.json"), "w"), indent=1)
print("MANIFEST.json:", len(checks), "checks,", len(na), "not applicable")
