#!/bin/bash
# tools/tryseed.sh <patch.diff> [check ids...]
# Applies a seeded change to /repo, runs the given checks (default: all) at the
# quick tier, reverts /repo, and prints which checks raised a violation.
set -u
PATCH=$(readlink -f "$1"); shift
cd /verif
IDS=${*:-C01 C02 C03 C04 C05 C06 C07 C08 C09 C10 C11 C12 C13 C14 C15 C16 C17 C18 C19 C20}
TIER=${SEED_TIER:-quick}
if ! git -C /repo diff --quiet; then echo "/repo is dirty; refusing"; exit 2; fi
git -C /repo apply "$PATCH" || { echo "patch does not apply"; exit 2; }
trap 'git -C /repo checkout -- . ; git -C /repo clean -fdq' EXIT
# the seeded tree must still pass the repository's own tests
(cd /repo && export GOFLAGS=-mod=mod GOPROXY=off GOSUMDB=off GOTOOLCHAIN=local && go build ./... && go test -vet=off -count=1 ./... >/tmp/tryseed.$$.test 2>&1) && echo "REPO-TESTS pass" || { echo "REPO-TESTS FAIL"; tail -5 /tmp/tryseed.$$.test; }
rm -f /tmp/tryseed.$$.test
mkdir -p out/seedruns
pids=()
for id in $IDS; do
  ( ./check $id $TIER > out/seedruns/$id.$$.out 2>&1; echo "rc=$?" >> out/seedruns/$id.$$.out ) &
  pids+=($!)
  # at most 5 checks at a time
  while [ $(jobs -r | wc -l) -ge 5 ]; do sleep 0.2; done
done
wait
caught=""
for id in $IDS; do
  f=out/seedruns/$id.$$.out
  if grep -q '^VIOLATION' $f; then
    caught="$caught $id"
    echo "== $id: $(grep -c '^VIOLATION' $f) violation lines; first:"
    grep '^VIOLATION' $f | head -2 | cut -c1-420
  elif ! grep -q 'rc=0' $f; then
    echo "== $id: non-zero exit without VIOLATION: $(tail -3 $f | cut -c1-300)"
  fi
  rm -f $f
done
echo "CAUGHT-BY:${caught:- none}"
