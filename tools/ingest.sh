#!/bin/bash
# tools/ingest.sh <out dir of a sub-agent, e.g. /tmp/r9-out/C05-a> <seed id, e.g. C05-17>
# copies a sub-agent's deliverable into seeded/<id>/ and confirms it (tools/autoseed.sh with NOTRY=1).
set -u
SRC=$1; ID=$2
cd /verif
[ -f $SRC/patch.diff ] || { echo "$ID: no patch.diff in $SRC"; exit 2; }
rm -rf seeded/$ID; mkdir -p seeded/$ID
cp -r $SRC/patch.diff $SRC/notes.md $SRC/demo seeded/$ID/ 2>/dev/null
NOTRY=1 tools/autoseed.sh seeded/$ID 2>&1 | tail -4
