#!/bin/bash
# tools/altcheck.sh <repo-copy-dir> <ID> <tier>
# Development aid for mutation sweeps: runs a check against a COPY of the
# repository (never /repo) with its own module file, binary, evidence and replay
# directories, so that many mutants can be examined in parallel without touching
# /repo. The commands registered in MANIFEST.json never use this.
set -u
REPO=$(readlink -f "$1"); ID=$2; TIER=${3:-quick}
cd /verif
export GOFLAGS=-mod=mod GOPROXY=off GOSUMDB=off GOTOOLCHAIN=local
TAG=$(echo "$REPO" | md5sum | cut -c1-10)
ALT=/verif/out/alt/$TAG
mkdir -p $ALT/evidence $ALT/out/replay out/bin out/logs
cp known_findings.json $ALT/
sed "s#=> /repo#=> $REPO#" harness/go.mod > harness/go.alt.$TAG.mod
cp /repo/go.sum harness/go.alt.$TAG.sum
BIN=out/bin/vchk.$TAG
BUILD=(-tags verif -cover -covermode=atomic -coverpkg=github.com/gebn/bmc/...,verifharness/cmd/vchk)
if [ "$ID" = C19 ]; then BIN=out/bin/vchk-race.$TAG; BUILD+=(-race); fi
if [ ! -x $BIN ] || [ -n "${ALT_REBUILD:-}" ]; then
  (cd harness && go build -modfile=go.alt.$TAG.mod "${BUILD[@]}" -o ../$BIN ./cmd/vchk) || { echo "BUILD-FAILURE $ID"; rm -f harness/go.alt.$TAG.*; exit 2; }
fi
case "$ID" in C05|C07|C08|C20)
  if [ ! -x $BIN.386 ]; then
    (cd harness && GOARCH=386 CGO_ENABLED=0 go build -modfile=go.alt.$TAG.mod -tags verif -o ../$BIN.386 ./cmd/vchk) || echo "386 build failed"
  fi ;;
esac
rm -f harness/go.alt.$TAG.mod harness/go.alt.$TAG.sum
COV=$ALT/cov.$ID; rm -rf $COV; mkdir -p $COV
VERIF_ROOT=$ALT VERIF_RACE_LOG=$ALT/race.$ID GORACE="halt_on_error=0 exitcode=0 log_path=$ALT/race.$ID" GOCOVERDIR=$COV \
  timeout -s QUIT 1500 $BIN $ID $TIER > $ALT/$ID.log 2>&1
rc=$?
grep -E '^(VIOLATION|KNOWN-FINDING|SUMMARY|HARNESS-FAILURE)' $ALT/$ID.log | cut -c1-300 | head -5
# as ./check does: a process killed by a fault inside the library (e.g. "concurrent map writes") is a violation
if [ $rc -ne 0 ] && [ $rc -ne 1 ] && grep -qE '^(fatal error:|panic:)' $ALT/$ID.log; then
  if awk '/^(fatal error:|panic:)/{f=1} f&&/^goroutine /{g++} f&&g<=1' $ALT/$ID.log | grep -q 'github.com/gebn/bmc'; then
    echo "VIOLATION property=$ID replay=$ALT/$ID.log key=$ID:process-died :: $(grep -m1 -E '^(fatal error:|panic:)' $ALT/$ID.log | cut -c1-200)"
    rc=1
  fi
fi
case "$ID" in C05|C07|C08|C20) RUN386=1 ;; *) RUN386= ;; esac
if [ -n "$RUN386" ] && [ -x $BIN.386 ]; then
  mkdir -p $ALT/386/evidence $ALT/386/out; cp known_findings.json $ALT/386/
  VERIF_ROOT=$ALT/386 timeout -s QUIT 1500 $BIN.386 $ID $TIER > $ALT/$ID.386.log 2>&1
  rc386=$?
  grep -E '^(VIOLATION|HARNESS-FAILURE)' $ALT/$ID.386.log | cut -c1-300 | head -5
  [ $rc -eq 0 ] && rc=$rc386
fi
rm -rf $COV $ALT/race.$ID.*
exit $rc
