#!/bin/bash
# tools/altseed.sh <patch.diff> <check id> [more ids]  — run checks against a scratch copy of /repo with the patch applied (never touches /repo)
set -u
P=$(readlink -f "$1"); shift
W=/tmp/altseed.$$
git -C /repo worktree add -q --detach $W HEAD >/dev/null 2>&1 || exit 2
git -C $W apply $P || { echo PATCH-DOES-NOT-APPLY; git -C /repo worktree remove --force $W; exit 2; }
cd /verif
for c in "$@"; do
  echo "--- $c"
  ALT_REBUILD=1 tools/altcheck.sh $W $c ${SEED_TIER:-quick} 2>&1 | cut -c1-${COLS:-400} | head -${LINES_MAX:-4}
done
TAG=$(echo "$W" | md5sum | cut -c1-10)
rm -rf /verif/out/alt/$TAG /verif/out/bin/vchk.$TAG /verif/out/bin/vchk-race.$TAG
git -C /repo worktree remove --force $W
