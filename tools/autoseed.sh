#!/bin/bash
# tools/autoseed.sh <seeddir>  — confirm a seeded change (demo placement inferred
# from each demo file's package clause), then run all quick checks against it.
set -u
SEED=$(readlink -f "$1")
export GOFLAGS=-mod=mod GOPROXY=off GOSUMDB=off GOTOOLCHAIN=local
WT=/tmp/wt-verify.$$
git -C /repo worktree add -q --detach $WT HEAD || exit 2
cleanup() { git -C /repo worktree remove --force $WT; }
trap cleanup EXIT
cd $WT
pkgs=""; tests=""; placed=""
for f in $(find $SEED/demo -name '*.go'); do
  p=$(grep -m1 '^package ' $f | awk '{print $2}')
  case $p in
    bmc|bmc_test) d=. ;;
    ipmi|ipmi_test) d=pkg/ipmi ;;
    dcmi|dcmi_test) d=pkg/dcmi ;;
    transport|transport_test) d=internal/pkg/transport ;;
    layerexts*) d=pkg/layerexts ;;
    complement|complement_test) d=internal/pkg/complement ;;
    bcd|bcd_test) d=internal/pkg/bcd ;;
    *) d=seeddemo_$p; mkdir -p $d ;;
  esac
  cp $f $d/; placed="$placed $d/$(basename $f)"
  pkgs="$pkgs ./$d"
  tests="$tests $(grep -ho '^func Test[A-Za-z0-9_]*' $f | sed 's/func //' | tr '\n' ' ')"
done
pkgs=$(echo $pkgs | tr ' ' '\n' | sort -u | tr '\n' ' ')
re=$(echo $tests | tr ' ' '|')
run="go test -tags verif -vet=off -count=1 -timeout 300s -run ^($re)\$ $pkgs"
$run > /tmp/as.$$.a 2>&1; a=$?
git apply $SEED/patch.diff || { echo "PATCH-DOES-NOT-APPLY"; exit 2; }
$run > /tmp/as.$$.c 2>&1; c=$?
rm -f $placed; rm -rf seeddemo_*
go build ./... >/tmp/as.$$.b 2>&1 && go test -vet=off -count=1 ./... > /tmp/as.$$.b 2>&1; b=$?
echo "[$SEED] demo-without-patch rc=$a (want 0); repo-tests-with-patch rc=$b (want 0); demo-with-patch rc=$c (want !=0)"
[ $a -ne 0 ] && tail -12 /tmp/as.$$.a
[ $b -ne 0 ] && tail -12 /tmp/as.$$.b
[ $c -eq 0 ] && tail -5 /tmp/as.$$.c
rm -f /tmp/as.$$.*
if [ $a -eq 0 ] && [ $b -eq 0 ] && [ $c -ne 0 ]; then echo CONFIRMED; else echo NOT-CONFIRMED; exit 1; fi
cd /verif
cleanup; trap - EXIT
[ -n "${NOTRY:-}" ] || tools/tryseed.sh $SEED/patch.diff ${CHECKS:-}
