#!/bin/bash
# tools/mutsweep.sh <dir with *.diff> [parallel jobs]
# For every patch: copy /repo (HEAD) to a scratch dir outside /repo and /verif,
# apply the patch, run the quick check of the property named by the file's
# prefix (CNN-...) plus any extra checks given in $EXTRA, record the result,
# remove the copy.
set -u
DIR=$(readlink -f "$1"); JOBS=${2:-4}
cd /verif
mkdir -p out/mutsweep
one() {
  p=$1; name=$(basename $p .diff); id=${name%%-*}
  W=/tmp/mut.$name.$$
  rm -rf $W; git -C /repo worktree add -q --detach $W HEAD >/dev/null 2>&1 || { echo "$name: worktree failed"; return; }
  if ! git -C $W apply $p 2>/dev/null; then echo "$name: PATCH-DOES-NOT-APPLY"; git -C /repo worktree remove --force $W; return; fi
  res=""
  for c in $id ${EXTRA:-}; do
    out=$(tools/altcheck.sh $W $c quick 2>&1); rc=$?
    if echo "$out" | grep -q '^VIOLATION'; then res="$res $c:CAUGHT"; elif [ $rc -ne 0 ]; then res="$res $c:rc$rc"; else res="$res $c:missed"; fi
  done
  TAG=$(echo "$W" | md5sum | cut -c1-10)
  rm -rf /verif/out/alt/$TAG /verif/out/bin/vchk.$TAG /verif/out/bin/vchk-race.$TAG /verif/out/bin/vchk.$TAG.386
  git -C /repo worktree remove --force $W
  echo "$name:$res"
}
export -f one
ls $DIR/*.diff | xargs -P $JOBS -I{} bash -c 'one {}' | tee out/mutsweep/$(basename $DIR).$(date +%s).log
