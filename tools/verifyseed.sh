#!/bin/bash
# tools/verifyseed.sh <seeddir> <dir for demo files relative to module root> <go test args ...>
# Confirms a seeded change in a scratch worktree outside /repo and /verif:
#  (1) demo passes on the unmodified tree, (2) with the patch the repository's own
#  tests still pass, (3) with the patch the demo fails.
set -u
SEED=$(readlink -f "$1"); DEMODIR=$2; shift 2
export GOFLAGS=-mod=mod GOPROXY=off GOSUMDB=off GOTOOLCHAIN=local
WT=/tmp/wt-verify.$$
git -C /repo worktree add -q --detach $WT HEAD || exit 2
trap 'git -C /repo worktree remove --force '$WT EXIT
cd $WT
cp $SEED/demo/*.go $DEMODIR/ 2>/dev/null
go test -vet=off -count=1 "$@" > /tmp/vs.$$.a 2>&1; a=$?
git apply $SEED/patch.diff || { echo "PATCH-DOES-NOT-APPLY"; exit 2; }
go build ./... > /tmp/vs.$$.b 2>&1 && go test -vet=off -count=1 "$@" > /tmp/vs.$$.c 2>&1; c=$?
# the repository's own suite, without the demo files
rm -f $(cd $SEED/demo && ls *.go | sed "s#^#$DEMODIR/#")
go test -vet=off -count=1 ./... > /tmp/vs.$$.b 2>&1; b=$?
echo "demo-without-patch rc=$a (want 0); repo-tests-with-patch rc=$b (want 0); demo-with-patch rc=$c (want !=0)"
[ $a -ne 0 ] && tail -15 /tmp/vs.$$.a
[ $b -ne 0 ] && tail -15 /tmp/vs.$$.b
[ $c -eq 0 ] && tail -5 /tmp/vs.$$.c
rm -f /tmp/vs.$$.*
if [ $a -eq 0 ] && [ $b -eq 0 ] && [ $c -ne 0 ]; then echo CONFIRMED; else echo NOT-CONFIRMED; fi
