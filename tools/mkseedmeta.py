#!/usr/bin/env python3
"""Writes seeded/<id>/meta.json for every seeded change (descriptions were
confirmed by hand; caught_by comes from tools/seedmatrix.sh)."""
import json, os, re
S = {
"C01-1": ("authenticator.go: refactor of the Role/ULength/UName hashing into a helper with a 17-byte stack array drops the 16th byte of a 16-byte username from the RAKP HMAC inputs", "a username of exactly 16 bytes (any suite); 0..15 bytes hash as before"),
"C01-2": ("hasher.go: HMAC-MD5-128 integrity keyed with only the first 16 bytes of K1", "a mixed suite {SHA1 or SHA256 authentication} + HMAC-MD5-128 integrity + at least one in-session command; keys exposed by the session still equal the BMC's"),
"C02-1": ("rakp_message_4.go keeps the ICV for any status + v2sessionless.go rakpMessage3 checks the request's status instead of the reply's (two cooperating sites)", "a RAKP 4 with a non-OK status substituted and its valid ICV left in place"),
"C02-2": ("authenticator.go hashes the Open Session Response's console session ID instead of RAKP 2's echo", "a bit flip in the console session ID echo of RAKP 2"),
"C03-1": ("v2session.go: RMCP and session layer construction hoisted out of the retry closure", "an in-session retry after a decoded reply (node busy, stray): retransmission addressed to the console's own session ID"),
"C03-2": ("aes_128_cbc.go: IVs served from a 256-byte pool whose refill condition can never be true", "at least 17 datagrams on one session, IVs compared across the whole history"),
"C04-1": ("pkg/ipmi/v2session.go: an 'authenticated' packet with no trailer bytes skips AuthCode verification", "authenticated flag set and the datagram ending exactly at the last payload byte (one truncation length out of 84)"),
"C04-2": ("aes_128_cbc.go: pad verification loop never checks the last pad byte", "a signed, encrypted response whose confidentiality pad is wrong only in its last byte (or is 1 byte long)"),
"C05-1": ("message.go: decodeSpecialNetFns is handed the trailing checksum byte", "a checksum-valid group-extension/OEM message exactly one byte short of its body code / enterprise number (e.g. an 8-byte DCMI response)"),
"C05-2": ("pkg/ipmi/v2session.go: AuthCode taken as data[offset:offset+Size()] without a length check", "an established session and an authenticated reply truncated inside the AuthCode: over-read into the reused receive buffer / panic on an exact-size slice"),
"C06-1": ("v2session.go: message layer construction hoisted out of the retry closure", "a retry inside a session: the retransmission is a response-NetFn message with swapped addresses"),
"C06-2": ("rakp_message_1.go: username limit counted in runes instead of bytes", "a non-ASCII username longer than 16 bytes but at most 16 runes"),
"C07-1": ("pkg/ipmi/v2session.go: wrapper length check ignores the 6 OEM header bytes", "OEM payload type and a length field overshooting the data by 1..6 bytes"),
"C07-2": ("DCMI enhanced power attrs: periods slice reused without re-slicing", "two decodes into one layer, the second with fewer periods"),
"C08-1": ("message.go: Body/Enterprise only reset in the default NetFn arm", "one reused Message decoding an OEM-NetFn message and then a group-NetFn one (or the reverse)"),
"C08-2": ("v1session.go: serialiser appends a legacy pad byte at total lengths 56/84/112/128/156 that the decoder does not strip", "inner payload lengths 42, 70, 98, 114, 142 (no AuthCode) or 26, 54, 82, 98, 126"),
"C09-1": ("v2session.go: the give-back decrement runs whenever terminalErr != nil", "a command whose reply is lost (transport error), followed by another command: sequence number reused"),
"C09-2": ("v2session.go: sequence counter kept in a local and written back only on success", "a command whose retries are exhausted / context ends while retrying, followed by another command"),
"C10-1": ("v2session.go: session layer hoisted out of the retry closure, only ID restored", "an in-session reply with different flags (unsigned injection, unencrypted node busy) followed by the retry"),
"C10-2": ("pkg/ipmi/v2session.go: HMAC only Reset() after a successful comparison; the same hash signs requests", "an in-session reply failing the signature check, then the retransmission (signed over stale bytes)"),
"C11-1": ("validateResponseOperation returns early for non-normal completion codes", "a stray reply to another command carrying a permanent error code (0xC1, 0xD4)"),
"C11-2": ("validateResponseOperation compares the command number only for standard NetFns", "command in flight and stray both group-extension (DCMI) or both OEM commands"),
"C12-1": ("determineCipherSuite filters the preference list in place (aliasing the caller's slice / defaultCipherSuites)", "two handshakes in one process: first against a BMC lacking preference #1, then one that has it"),
"C12-2": ("Open Session Response accepted if it names any suite of the caller's list", "an explicit list of >= 2 suites and an answer equal to another entry of that list"),
"C13-1": ("v2session.go: back-off wrapped by a retry counter so backoff.Retry no longer finds the context", "in-session command, retryable fault on every attempt, deadline inside a back-off wait"),
"C13-2": ("V2Session.Close substitutes a fresh timeout when its context has already expired", "Close() with an expired context and a silent BMC"),
"C14-1": ("RetrieveSDRRepository allocates the result map outside the retry closure", "a walk abandoned after a record was stored, the repeat walk no longer containing it"),
"C14-2": ("modification check collapsed to max(LastAddition, LastErase)", "a change without reservation loss whose moved timestamp does not exceed the other one"),
"C15-1": ("conversion_factors.go: M*x multiplied in int16", "|M*x| > 32767"),
"C15-2": ("sensor_reader.go: last-conversion cache with no has-value flag", "a linearised sensor with L(0) != 0 whose first reading converts to exactly 0"),
"C16-1": ("cipher_suites.go: fast path for 1 integrity + 1 confidentiality algorithm", "a record with exactly one integrity and two or more confidentiality algorithms"),
"C16-2": ("pkg/dcmi/sensor_info.go: fallback check drops err == nil and getSensorMap returns its partial map on error", "an earlier standard entity returning record IDs and a later one failing"),
"C17-1": ("message.go: stale Body/Enterprise (same change as C08-1, found independently)", "group then OEM message (or reverse) decoded into one Message"),
"C17-2": ("GetDCMISensorInfoRsp.RecordIDs pre-sized, never truncated", "a response with fewer record IDs than an earlier one on the same layer/command"),
"C18-1": ("retries counted by backoff.RetryNotify when scheduled", "a retryable failure, non-zero back-off and the caller's deadline inside the back-off wait"),
"C18-2": ("closeSession only decrements sessions_open on error or normal code", "Close Session answered with a permanent non-normal completion code (0x87)"),
"C19-1": ("id_string.go: package-level scratch array for packed 6-bit decoding", "concurrent SDR walks whose records use 6-bit packed ID strings"),
"C19-2": ("sync.Pool of serialize buffers: session Close returns the connection's buffer to the pool", "connection A closes a session but stays open, connection B dialled afterwards, A used again concurrently"),
"C20-1": ("decodePacked6BitAscii byte count rounds to nearest", "character counts with c % 4 == 3: consumed one short"),
"C01-3": ("authenticator.go: ICV() always returns a truncatedHash; MD5's documented 'length 0 = not truncated' is honoured by Size() but not by Sum()", "authentication algorithm HMAC-MD5 (suites 6..10): expected RAKP 4 ICV is empty"),
"C01-4": ("rakp_message_1.go sets the name-only-lookup bit only for non-empty usernames while authenticator.go hashes the role byte from the struct", "empty username with name-only lookup"),
"C02-3": ("v2session_new.go: RAKP 4 ICV compared over min(received, expected) bytes", "a RAKP 4 payload whose ICV is shortened (down to zero bytes) with a matching wrapper length"),
"C02-4": ("RAKP AuthCode HMAC cached on the connection, keyed by algorithm but not by password", "two session establishments on one connection with different passwords (full bypass with KG set)"),
"C03-3": ("pkg/ipmi/v2session.go: Reset() of the shared HMAC only after a successful comparison", "an in-session reply with a wrong AuthCode followed by the retransmission (signed over stale bytes)"),
"C03-4": ("aes_128_cbc.go: table-driven confidentiality pad with a wrong 14th entry", "message length 0 or 1 mod 16 (pad of 14 or 15 bytes): 9, 10, 25 or 26 bytes of request data"),
"C04-3": ("hasher.go/v2session.go: 'does this algorithm sign' helper forgets HMAC-MD5-128", "a session on a suite with HMAC-MD5-128 integrity and a reply with the authenticated flag cleared"),
"C04-4": ("aes_128_cbc.go: pad-length upper bound dropped as redundant", "a signed+encrypted reply of IV + >= 3 blocks with a fully consistent pad 01..N,N, 17 <= N <= 255"),
"C05-3": ("cipher_suites.go: list index incremented modulo 64, so the ListIndex == 64 bound never triggers", ">= 65 consecutive full 16-byte chunks from the BMC: unbounded loop"),
"C05-4": ("id_string.go: packed 6-bit byte count uses Round instead of Ceil", "character count with c % 4 == 3 and data exactly one byte short: index out of range"),
"C06-3": ("get_dcmi_sensor_info.go: the else branch zeroing the instance-start byte removed", "Instance != 0 and earlier traffic on the connection (stale byte of the shared serialize buffer)"),
"C06-4": ("rakp_message_1.go: username length byte masked with 0x0F", "a username of exactly 16 bytes (length byte goes out as 0)"),
"C07-3": ("message.go: the two checksum checks merged into checksum(data) != 0", "both checksums wrong with errors cancelling modulo 256 (or bytes 2 and 3 transposed)"),
"C07-4": ("full_sensor_record.go: ID string character count clamped to 16", "BCD-plus strings of 17..31 or 6-bit strings of 17..21 characters"),
"C08-3": ("pkg/ipmi/v2session.go: decoder computes the integrity pad assuming a 12-byte header", "OEM-explicit payload type together with Authenticated = true"),
"C08-4": ("rakp_message_1.go: name-only-lookup bit only set for non-empty usernames (serialiser side)", "empty username with PrivilegeLevelLookup == false"),
"C09-3": ("v2sessionless.go: only the payload descriptor of the session layer is reassigned before serialising", "a session-less command whose last decoded reply had a non-null session header and which then gives up; later session-less datagrams carry that ID/sequence"),
"C09-4": ("v2session.go: a 'retransmit' flag reuses the sequence number after a decodable-but-wrong reply", "an unauthenticated / other-session / other-command reply during a command"),
"C10-3": ("v2session.go: per-command rqSeq that is never masked to 6 bits, and replies must mirror it", "at least 64 commands on one session"),
"C10-4": ("validateResponseOperation compares the response's requester LUN with the addressed LUN", "a command addressed to a non-zero LUN (Get Sensor Reading with owner LUN 1 or 3)"),
"C11-3": ("retry loops return nil when a busy reply was seen and the context expired, reading the result from the shared message layer", "node busy, then a stray reply to another command, then the deadline"),
"C11-4": ("operation check skipped for commands without a response layer", "Chassis Control / Close Session in flight and a stray reply to another command"),
"C12-3": ("determineCipherSuite skips discovery when the list starts with suite 3", "an explicit list of >= 2 suites headed by suite 3 against a BMC that does not advertise it"),
"C12-4": ("cipher_suites.go: append moved out of the confidentiality loop (only the last confidentiality algorithm of a record is kept)", "discovery against a record listing >= 2 confidentiality algorithms, wanting one that is not last"),
"C13-3": ("transport.go: one SetDeadline that only ever moves forwards", "an earlier successful call with a later deadline, then a call with a tighter or expired context while the BMC is silent"),
"C13-4": ("v2session.go: in-session socket timeout replaced by ctx.Err(), which can be nil", "a response-less command (Chassis Control, Close) with a silent BMC and a deadline longer than the per-attempt timeout: reports success"),
"C14-3": ("walkSDRs stops when the next record ID is not greater than the current one", "a repository whose next-record chain has a descending ID step"),
"C14-4": ("V2Session.GetSDRRepositoryInfo reuses one command value, so initial and final info alias", "a mid-walk change that moves a timestamp without cancelling the reservation"),
"C15-3": ("conversion_factors.go: integer truncation of B*10^K1 for negative result exponents", "K2 < 0, K1 < 0 and B not a multiple of 10^-K1"),
"C15-4": ("GetSensorReadingRsp.ReadingUnavailable only ever set, never cleared", "a reading with the unavailable flag followed by a normal one on the same reader"),
"C16-3": ("cipher_suites.go: record value reused across loop iterations, Enterprise only set for OEM records", "a standard record following an OEM record with non-zero IANA"),
"C16-4": ("getEntityInstances stops when a page is not full (fewer than 8 IDs)", "page size 1..7 and an entity with more instances than one page"),
"C17-3": ("SendCommand skips decoding when the response body is empty", "a reused command value, an earlier successful response, then completion code 0 with an empty body"),
"C17-4": ("FullSensorRecord only assigns Identity when the ID string is non-empty", "a named record followed by a record with a zero-length ID string on one layer"),
"C18-3": ("precomputed completion-code label table filled with c < 0xff", "a valid response carrying completion code 0xff"),
"C18-4": ("V2Session.SendCommand returns early on a finished context without counting a failure", "an in-session command issued with an already cancelled/expired context"),
"C19-3": ("determineCipherSuite filters defaultCipherSuites in place with slices.DeleteFunc", "default preferences and one BMC in the process that advertises suite 3 but not 17"),
"C19-4": ("CompletionCode.String() memoises undescribed codes in an unsynchronised package-level map", "a BMC returning a code without description while another goroutine uses any connection"),
"C20-3": ("rolling_average.go: day count masked with 0x3f instead of clamped to 63", "a duration of 64 days or more"),
"C20-4": ("decode8BitAsciiLatin1 hand-transcodes with a constant 0xC2 lead byte", "a string containing a byte in 0xC0..0xFF"),
"C20-2": ("decode8BitAsciiLatin1 ASCII fast path tests b > 0x80", "a string containing byte 0x80 and no byte 0x81..0xff"),
}
strengthened = {"C02-3": "C02 gained payloads shortened/extended with a matching wrapper length", "C02-4": "C02 gained a second handshake on the same connection with another password",
 "C03-3": "C03 gained retransmissions provoked by damaged replies (bad AuthCode, corrupted ciphertext, unauthenticated copy, other command, truncation)", "C04-4": "C04 gained fully consistent pads longer than a block",
 "C05-3": "C05 and C16 gained a BMC answering every list index with a full chunk", "C07-3": "C07 gained double checksum corruptions that cancel modulo 256",
 "C09-3": "C09 gained session-less strays with a non-null session header, give-ups and new handshakes on a used connection", "C09-4": "C09 gained unauthenticated / other-session / other-command replies in the outcome alphabet",
 "C11-3": "C11 gained the pattern node busy, stray, caller gives up", "C11-4": "C11 gained response-less commands judged by their completion code",
 "C12-4": "C12 gained advertised records listing several confidentiality algorithms (C16 caught it already)", "C15-4": "C15 gained a second reading on every reader",
 "C17-3": "C17 gained empty-body / error / truncated second responses on reused command values", "C18-3": "C18 gained completion codes over the whole byte range", "C18-4": "C18 gained commands with an already finished context",
 "C19-3": "C19 gained BMCs advertising different suite sets and a shared-state canary handshake", "C19-4": "C19 gained commands answered with undescribed completion codes and runs the concurrent round before the solo references",
 "C19-2": "C19 gained scripted lifecycle/redial personalities and crash handling (detection was schedule dependent before)",
 "C06-1": "C06 gained parsing of retransmissions (C03/C10/C18 caught it already)", "C07-2": "C07 gained decoding into a long-lived layer (C17 caught it already)", "C08-1": "C08 gained long-lived decode targets (C17 caught it already)",
 "C06-2": "C06 gained usernames built from 2- and 3-byte UTF-8 characters", "C09-2": "C09 gained histories in which a command gives up (context ends while retrying) before the next command",
 "C11-1": "C11 gained strays with completion codes C1/D4/C0/FF", "C11-2": "C11 gained two more DCMI and two OEM commands so that pairs differing only in the command number exist",
 "C12-2": "C12 gained explicit multi-suite preference lists with the answer set to another listed suite", "C14-2": "C14 gained erase-stamp-only changes and independent addition/erase stamps",
 "C18-1": "C18 gained steps with a real back-off and a deadline inside the wait"}
root = os.path.join(os.path.dirname(__file__), "..", "seeded")
for sid, (what, needs) in S.items():
    d = os.path.join(root, sid)
    if not os.path.isdir(d):
        continue
    caught = []
    cb = os.path.join(d, "caught_by.txt")
    if os.path.exists(cb):
        m = re.search(r"CAUGHT-BY:(.*)", open(cb).read())
        if m:
            caught = m.group(1).split()
    meta = {
        "id": sid, "breaks_property": sid.split("-")[0], "change": what, "needs_to_manifest": needs,
        "origin": "written by an independent sub-agent given only the property text and a scratch worktree",
        "confirmed_by": "tools/autoseed.sh: scratch worktree outside /repo and /verif; demo passes without the patch, the repository's own tests pass with it, demo fails with it",
        "checked_with": "tools/tryseed.sh (git -C /repo apply, every ./check <id> quick, git -C /repo checkout -- .)",
        "caught_by_quick_checks": [c for c in caught if c != "none"],
        "caught_at_first_attempt": sid not in strengthened,
    }
    if sid in strengthened:
        meta["strengthening"] = strengthened[sid]
    json.dump(meta, open(os.path.join(d, "meta.json"), "w"), indent=1)
print("meta written for", len(S))
