#!/bin/bash
# tools/seedmatrix.sh — run every quick check against every seeded change and
# record which checks catch which change in seeded/<id>/caught_by.txt
cd /verif
for d in seeded/C*-[0-9]*; do
  id=$(basename $d)
  out=$(tools/tryseed.sh $d/patch.diff 2>&1)
  echo "$out" | grep -E "REPO-TESTS|CAUGHT-BY" > $d/caught_by.txt
  echo "$out" | grep '^VIOLATION' | cut -c1-300 | awk '{print $2, $4}' | sort -u | head -20 >> $d/caught_by.txt
  echo "$id: $(grep CAUGHT-BY $d/caught_by.txt)"
done
