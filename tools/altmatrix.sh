#!/bin/bash
# tools/altmatrix.sh <jobs> <seeded dir>...   — for every seeded change given: scratch worktree of
# /repo (outside /repo and /verif), patch applied, every quick check run against it
# (tools/altcheck.sh), result written to <seeded dir>/caught_by.txt; the worktree and
# the binaries built for it are removed afterwards. Development aid; never touches /repo's tree.
set -u
JOBS=$1; shift
cd /verif
one() {
  d=$(readlink -f $1); name=$(basename $d)
  W=/tmp/mx.$name.$$
  rm -rf $W; git -C /repo worktree add -q --detach $W HEAD >/dev/null 2>&1 || { echo "$name: worktree failed"; return; }
  if ! git -C $W apply $d/patch.diff 2>/dev/null; then echo "$name: PATCH-DOES-NOT-APPLY"; git -C /repo worktree remove --force $W; return; fi
  tests="REPO-TESTS pass"
  (cd $W && export GOFLAGS=-mod=mod GOPROXY=off GOSUMDB=off GOTOOLCHAIN=local && go build ./... && go test -vet=off -count=1 ./... >/dev/null 2>&1) || tests="REPO-TESTS FAIL"
  caught=""; lines=""
  for c in ${CHECKS:-C01 C02 C03 C04 C05 C06 C07 C08 C09 C10 C11 C12 C13 C14 C15 C16 C17 C18 C19 C20}; do
    out=$(tools/altcheck.sh $W $c quick 2>&1)
    if echo "$out" | grep -q '^VIOLATION'; then
      caught="$caught $c"
      lines="$lines$(echo "$out" | grep '^VIOLATION' | awk '{print $2, $4}' | sort -u | head -5)"$'\n'
    fi
  done
  TAG=$(echo "$W" | md5sum | cut -c1-10)
  rm -rf /verif/out/alt/$TAG /verif/out/bin/vchk.$TAG /verif/out/bin/vchk-race.$TAG /verif/out/bin/vchk.$TAG.386 /verif/out/bin/vchk-race.$TAG.386
  git -C /repo worktree remove --force $W
  { echo "$tests"; echo "CAUGHT-BY:${caught:- none}"; printf "%s" "$lines" | sort -u | head -20; } > $d/${OUTNAME:-caught_by.txt}
  echo "$name: CAUGHT-BY:${caught:- none}"
}
export -f one
printf "%s\n" "$@" | xargs -P $JOBS -I{} bash -c 'one {}'
